"""Generic runner: one harness binary built from /repo's working tree, run under
the vrt coordinator, violations judged against known_findings.json."""
import json
import os
import subprocess

from . import driver as D


def build_all(prop, P, tolerate=False):
    """Build every binary of the property.  With tolerate=True a binary that does not build is returned as None
    (the caller decides, with the compile probes, whether that is a verdict or a harness error)."""
    bins = []
    errors = []
    for b in P["binaries"]:
        try:
            bins.append(D.build(b["name"], b["sources"], b.get("libs", []), b.get("flavour", "asan"),
                                b.get("extra_flags", ()), b.get("link_flags", ()), b.get("hook_libs", ()), b.get("hook_sources", ())))
        except D.BuildError as e:
            if not tolerate:
                raise
            bins.append(None)
            errors.append(str(e))
    if tolerate:
        return bins, errors
    return bins


def compile_probes(prop, P):
    """Registry entries that must *compile* (e.g. move-only instantiations): each is
    its own tiny TU; a failed compilation is that entry's violation."""
    out = []
    probes = P.get("compile_probes", [])
    if not probes:
        return out, 0
    D.gen_headers()
    import concurrent.futures

    def one(pr):
        try:
            D.compile_tu(os.path.join(D.VERIF, pr["source"]), D.FLAVOURS["plain"] + list(pr.get("flags", [])), tag=pr["name"])
            return None
        except D.BuildError as e:
            msg = str(e)
            first = [l for l in msg.splitlines() if "error" in l][:3]
            return {"sig": "compile:" + pr["name"], "what": " | ".join(first)[:1500], "case": pr["source"] + " " + " ".join(pr.get("flags", [])),
                    "shard": "compile_probe", "index": 0}

    with concurrent.futures.ThreadPoolExecutor(max_workers=D.JOBS) as ex:
        for r in ex.map(one, probes):
            if r:
                out.append(r)
    return out, len(probes)


def run(prop, P, tier, seed, replay, extra):
    build_failure = None
    bins, build_errors = build_all(prop, P, tolerate=True)
    if build_errors:
        # The library no longer compiles under (part of) the harness.  If one of the registered compile probes (public
        # uses that must compile) fails too, that probe is a verdict and the binaries that did build are still run;
        # otherwise it is a harness error.
        pv0, _ = compile_probes(prop, P)
        if not pv0 or replay:
            raise D.BuildError("\n".join(build_errors))
        build_failure = "\n".join(build_errors)
        print("note: %d of %d harness binaries do not build against this tree; failing compile probes are reported, the other binaries are run" %
              (len(build_errors), len(bins)))
    if replay:
        r = json.load(open(replay))
        if r.get("shard") == "compile_probe":
            v, _ = compile_probes(prop, {"compile_probes": [p for p in P.get("compile_probes", []) if "compile:" + p["name"] == r["sig"]]})
            print("replay: compile probe %s -> %s" % (r["sig"], "still fails" if v else "compiles"))
            return 1 if v else 0
        binary = bins[r.get("binary", 0)]
        env = dict(os.environ)
        env.update(D.SAN_ENV)
        cmd = [binary, "--tier", r.get("tier", tier), "--replay-shard", r["shard"], "--replay-index", str(r["index"]),
               "--replay-text", r.get("case", "")]
        pr = subprocess.run(cmd, env=env)
        print("replay exit status %d (%s)" % (pr.returncode, "still fails" if pr.returncode != 0 else "passes"))
        return 0 if pr.returncode == 0 else 1

    deadline = P.get("deadline", {}).get(tier, 300 if tier == "quick" else 1200)
    all_viol = []
    merged = []
    wall = 0.0
    harness_error = None
    for bi, binary in enumerate(bins):
        if binary is None:
            continue
        rc, out, res, w = D.run_harness(prop, binary, tier, seed, deadline, extra)
        wall += w
        if res is None:
            harness_error = "harness %s produced no result (rc=%s): %s" % (binary, rc, out[-3000:])
            break
        vs = D.collect_violations(res)
        for v in vs:
            v["binary"] = bi
        all_viol += vs
        merged.append(D.merge_shards(res))
    if harness_error:
        print("HARNESS-ERROR: " + harness_error)
        return 2
    pv, nprobes = compile_probes(prop, P)
    all_viol += pv

    tot = {"evaluations": 0, "nontrivial": 0, "complete": build_failure is None, "samples": [], "counters": {}, "info": {}, "shards": []}
    for m in merged:
        tot["evaluations"] += m["evaluations"]
        tot["nontrivial"] += m["nontrivial"]
        tot["complete"] = tot["complete"] and m["complete"]
        tot["samples"] += m["samples"]
        for k, v in m["counters"].items():
            tot["counters"][k] = tot["counters"].get(k, 0) + v
        for k, v in m["info"].items():
            tot["info"].setdefault(k, v)
        tot["shards"] += m["shards"]

    # harness-internal errors are never verdicts
    herr = [v for v in all_viol if v["sig"].startswith("harness:")]
    if herr:
        for v in herr[:5]:
            print("HARNESS-ERROR: %s %s case=%s" % (v["sig"], v.get("what", "")[:500], v.get("case", "")[:300]))
        return 2

    n_unlisted, n_known = D.judge(prop, all_viol, {"tier": tier})
    if build_failure is not None:
        # (part of) the harness did not build: coverage is incomplete, no evidence is written; the verdict is the failing
        # compile probe(s) together with whatever the binaries that did build reported
        print("%s: harness binaries did not build against this tree; %d compile probe violation(s) unlisted, %d known" % (prop, n_unlisted, n_known))
        return 1 if n_unlisted else 2

    samples = tot["samples"]
    if len(samples) > 16:
        step = len(samples) / 16.0
        samples = [samples[int(i * step)] for i in range(16)]
    c = tot["counters"]
    cov = {
        "evaluations": tot["evaluations"] + nprobes,
        "distinct_nontrivial": tot["nontrivial"],
        "rule": P["rule"],
        "samples": samples,
        "exhaustive": bool(tot["complete"]),
        "shards": tot["shards"],
        "counters": {k: v for k, v in c.items() if not k.startswith("viol:")},
        "violation_counts": {k[5:]: v for k, v in c.items() if k.startswith("viol:")},
        "known_findings_seen": n_known,
    }
    if nprobes:
        cov["compile_probes"] = nprobes
    for k in ("states", "transitions", "traces_validated_against_impl", "max_depth", "fixpoint"):
        if k in c:
            cov[k] = c[k]
    for k, v in tot["info"].items():
        cov.setdefault(k, v)
    if P["level"] == "model_checking" and "traces_validated_against_impl" not in cov:
        cov["traces_validated_against_impl"] = cov.get("transitions", 0)
    ev = {
        "property_id": prop,
        "tier": tier,
        "seed": seed,
        "level": P["level"],
        "coverage": cov,
        "assumptions": P.get("assumptions", []),
        "wall_s": round(wall, 2),
        "violations": n_unlisted,
    }
    err = D.write_evidence(prop, ev)
    if err:
        print("HARNESS-ERROR: evidence does not validate: " + err)
        return 2
    print("%s: evaluations=%d distinct_nontrivial=%d exhaustive=%s shards=%d known=%d unlisted=%d" % (
        prop, cov["evaluations"], cov["distinct_nontrivial"], cov["exhaustive"], len(tot["shards"]), n_known, n_unlisted))
    return 1 if n_unlisted else 0

#!/usr/bin/env python3
"""Regenerate /verif/MANIFEST.json from vf/props.py (single source of truth)."""
import json
import os
import sys

sys.path.insert(0, os.path.dirname(os.path.dirname(os.path.abspath(__file__))))
from vf.props import PROPS, NOT_APPLICABLE, HOOK_COMMITS  # noqa: E402

VERIF = os.path.dirname(os.path.dirname(os.path.abspath(__file__)))
ids = [json.loads(l)["id"] for l in open(os.path.join(VERIF, "properties.jsonl"))]

checks = []
for pid in ids:
    if pid not in PROPS:
        continue
    P = PROPS[pid]
    checks.append({
        "property_id": pid,
        "quick_cmd": "./check %s --tier quick" % pid,
        "thorough_cmd": "./check %s --tier thorough" % pid,
        "evidence_file": "evidence/%s.json" % pid,
        "replay_cmd_template": "./check %s --replay {path}" % pid,
        "engine": P.get("engine", "E"),
        "level_claimed": {"category": P["level"], "text": P["level_text"], "design_ref": P.get("design_ref", "DESIGN.md §2 " + pid)},
        "level_note": P["level_note"],
        "technique": P["technique"],
    })
na = [{"property_id": pid, "reason": NOT_APPLICABLE.get(pid, "check not built yet in this round (planned, see DESIGN.md §2)")}
      for pid in ids if pid not in PROPS]
m = {
    "version": 1,
    "setup_cmd": "./check --setup",
    "hooks": {
        "guard": "FCPPT_VERIF",
        "enable": "no source hooks: harnesses compile /repo's headers and library sources themselves with sanitizer flags (vf/driver.py); "
                  "the C19 scheduler hooks libs/log through -fsanitize=thread instrumentation + objcopy symbol redirection of the built objects",
        "baseline_off_cmd": "cmake --build /repo/_build -j16 && ctest --test-dir /repo/_build -j8 --timeout 900",
        "source_commits": HOOK_COMMITS,
        "add_only": True,
    },
    "engines": [
        {"name": "E", "path": "rt/vrt.hpp", "serves_properties": [p for p in ids if p in PROPS and PROPS[p].get("engine", "E") == "E"],
         "kind_free_text": "exhaustive enumeration of explicit finite argument domains against an independent reference; forked shards, sanitizer reports attributed to the announced case"},
        {"name": "H", "path": "rt/hist.hpp", "serves_properties": [p for p in ids if p in PROPS and PROPS[p].get("engine") == "H"],
         "kind_free_text": "explicit-state BFS over operation histories of the real object with a lock-step reference model, canonical-state deduplication, fix-point inside caps"},
        {"name": "P", "path": "rt/vrt.hpp", "serves_properties": [p for p in ids if p in PROPS and PROPS[p].get("engine") == "P"],
         "kind_free_text": "exhaustive enumeration of program families (grammars, option-parser shapes, generic-operation registry) times all inputs up to a bound, against a reference interpreter"},
        {"name": "S", "path": "rt/sched/", "serves_properties": [p for p in ids if p in PROPS and PROPS[p].get("engine") == "S" or p == "C19"],
         "kind_free_text": "preemption-bounded stateless exploration of all schedules of real threads over hooked synchronisation points, with a vector-clock race detector"},
    ],
    "checks": checks,
    "not_applicable": na,
    "notes": "Family: model checking = bounded exhaustive exploration of the real implementation. See DESIGN.md. known_findings.json lists open/fixed defects.",
}
json.dump(m, open(os.path.join(VERIF, "MANIFEST.json"), "w"), indent=1)
print("MANIFEST.json: %d checks, %d not_applicable" % (len(checks), len(na)))

"""Per-property configuration of the checks: one fragment per property in vf/props.d/Cxx.py
defining PROP = dict(...)."""
import glob
import os

PROPS = {}
NOT_APPLICABLE = {}
HOOK_COMMITS = []

_here = os.path.dirname(os.path.abspath(__file__))
# only properties listed in vf/ready.txt are registered (a fragment may exist while its harness is still being built)
READY = set(open(os.path.join(_here, "ready.txt")).read().split())
ALL_FRAGMENTS = {}
for _f in sorted(glob.glob(os.path.join(_here, "props.d", "C*.py"))):
    _ns = {}
    exec(compile(open(_f).read(), _f, "exec"), _ns)
    ALL_FRAGMENTS[os.path.basename(_f)[:-3]] = _ns["PROP"]
    if os.path.basename(_f)[:-3] in READY or os.environ.get("VERIF_ALL_FRAGMENTS"):
        PROPS[os.path.basename(_f)[:-3]] = _ns["PROP"]

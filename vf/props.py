"""Per-property configuration of the checks."""

PROPS = {}
NOT_APPLICABLE = {}
HOOK_COMMITS = []

PROPS["C06"] = dict(
    title="Checked conversions and integer helpers equal their mathematical definition",
    level="exploration",
    engine="E",
    technique="exhaustive enumeration of all 8/16-bit values and pairs and of the 32/64-bit boundary lattice against a 128-bit oracle",
    level_text=("Every argument tuple of the stated finite domains is evaluated on the real templates and compared with exact 128-bit "
                "arithmetic; for 8/16-bit instantiations this is the complete input space, which is what a for-all-values claim about "
                "conversions needs and what no sampled test gives."),
    level_note="32/64-bit instantiations only on the boundary lattice; oracle = __int128 arithmetic in the harness; UBSan aborts are attributed to the announced case",
    binaries=[dict(name="C06", sources=["harness/C06.cpp"], libs=[], flavour="ubsan")],
    deadline={"quick": 240, "thorough": 1500},
    rule=("nested loops over explicit domains: every value of each 8/16-bit type (all 64 source/dest pairs for "
          "truncation_check; all pairs for div/mod/diff on 8 bit, on 16 bit in the thorough tier), the boundary lattice "
          "{0,+-1,+-(2^k-1),+-2^k,+-(2^k+1),min,max,...} for 32/64 bit, dense squares for ceil_div(_signed); oracle = __int128 "
          "arithmetic; a case is non-trivial when it sits at or across a type/size boundary, has a non-zero remainder, a negative "
          "operand or differs from its operand (per-function predicate in harness/C06.cpp); cases are distinct argument tuples"),
    assumptions=["cases whose exact result is not representable in the result type are skipped (statement: 'whenever it is representable')",
                 "log2(0) is documented as undefined and skipped",
                 "32/64-bit types are covered on the boundary lattice only",
                 "interval_distance is compared only where its documentation is unambiguous (no shared end point with containment)"],
)

PROPS["C07"] = dict(
    title="raw_vector and buffer behave like std::vector for every operation history",
    level="model_checking",
    engine="H",
    technique="explicit-state BFS over operation histories of the real raw_vector/buffer with std::vector as lock-step reference, to a fix-point inside size caps",
    level_text=("Breadth-first search over all operation histories (every constructor, every position/count/aliasing choice) executed on the real "
                "container with a counting allocator under ASan, deduplicated by canonical state and run to a fix-point inside the size caps: "
                "the claim then covers histories of any length that stay inside the caps, which is what 'for every operation history' needs."),
    level_note="size caps (single vector 5/6, pair 2/3, buffer read area 3/4); element type int; capacity slack is truncated in the canonical state (argument in harness/C07.cpp); std::vector is the trusted reference",
    binaries=[dict(name="C07", sources=["harness/C07.cpp"], libs=[], flavour="asan")],
    deadline={"quick": 300, "thorough": 1500},
    rule=("BFS over histories of raw_vector/buffer operations; a transition is non-trivial when it changes the canonical state "
          "(contents, truncated capacity slack, null-storage flag); states are distinct canonical keys"),
    assumptions=["moved-from source of a move *assignment* is 'valid but unspecified': the model adopts what the implementation left there after checking size<=capacity",
                 "positions outside [begin,end], self-range insertion and written(k>write_size) are preconditions and outside the alphabet",
                 "128-bit hashes of canonical strings are used for deduplication (collision probability negligible)"],
)

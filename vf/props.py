"""Per-property configuration of the checks: one fragment per property in vf/props.d/Cxx.py
defining PROP = dict(...)."""
import glob
import os

PROPS = {}
NOT_APPLICABLE = {}
HOOK_COMMITS = []

for _f in sorted(glob.glob(os.path.join(os.path.dirname(os.path.abspath(__file__)), "props.d", "C*.py"))):
    _ns = {}
    exec(compile(open(_f).read(), _f, "exec"), _ns)
    PROPS[os.path.basename(_f)[:-3]] = _ns["PROP"]

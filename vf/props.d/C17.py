PROP = {'title': 'Typed wrappers are transparent; ==, < and hash are mutually coherent',
 'level': 'exploration',
 'engine': 'E',
 'technique': 'exhaustive enumeration: strong_typedef operators on all operand pairs against a 128-bit oracle; for every value type all '
              'pairs and all triples of a universe of real objects (components in {0,1,2}, each value reached by several construction '
              'routes) against key equality / lexicographic key order',
 'level_text': 'Every operand pair of the stated domains is pushed through the real strong_typedef operators and compared with exact '
               '128-bit arithmetic; for each value type every ordered pair and every ordered triple of the universe is evaluated with '
               'the real ==, !=, <, <=, >, >= and hash objects, so reflexivity, symmetry, transitivity, compatibility of < with == and '
               'hash coherence are checked as the for-all-pairs/triples claims they are, including for values reached through '
               'operations (~, assignment from another alternative, spare capacity) which concrete unit tests never combine.',
 'level_note': 'component domain {0,1,2} ({0,1} for 4- and 6-component types and 4-node trees); sizes <= 3 (grid <= 2x2, tree <= 4 nodes); '
               'int/unsigned/string components in the pair+triple universes; element-semantics universes (pairs only) use double {+0.0,-0.0,1,NaN,inf}, a padded trivially copyable struct whose == ignores a member and the padding, and a type with non-reflexive ==; strong_typedef operators additionally over float/double special values and a partially ordered flag set; the oracle key of each object is written down while the object is built',
 'binaries': [{'name': 'C17',
               'sources': ['harness/C17.cpp', 'harness/C17_sum.cpp', 'harness/C17_math.cpp', 'harness/C17_cont.cpp', 'harness/C17_elem.cpp', 'harness/C17_elem2.cpp', 'harness/C17_order.cpp', 'harness/C17_rec.cpp'],
               'libs': [],
               'flavour': 'asan'}],
 'compile_probes': [{'name': 'strong_typedef_over_user_type_with_user_operators', 'source': 'harness/C17_probe_user_ops.cpp'}],
 'deadline': {'quick': 300, 'thorough': 1500},
 'rule': 'nested loops over explicit domains: strong_typedef<int|i64> all pairs of [-128,127]^2, strong_typedef<u32|u64> all pairs of the '
         'wrap-around boundary values, every operator vs __int128 arithmetic; per value type a universe of objects (all component '
         'tuples over {0,1,2} x several construction routes), all ordered pairs (==, !=, <, <=, >, >=, hash vs key equality and '
         'lexicographic key order) and all ordered triples (transitivity of ==, of < and of incomparability); a pair is non-trivial '
         'when the two objects are different objects of the universe, a triple when the premise of a transitivity implication holds '
         'for three different objects, an operator pair when the operands differ and wrap / have different signs; cases are distinct '
         'index tuples; element-semantics shards (elem_*): for raw_vector (all sequences of length 0..3), optional, either, variant, tuple, array, '
         'record, enum array, recursive, strong_typedef, grid, tree, math vector/dim/matrix/box/sphere, reference, shared_ptr all ordered '
         'pairs (including an object with itself and with a byte-identical second object) over component types double/padded/nr: == must '
         'be exactly shape equality plus std::equal over the plain component values with the component type\'s own ==, != its negation, '
         'equal => equal hash, and for pairs of totally ordered values < is the documented lexicographic order with the component\'s < and '
         'exactly one of ==, a<b, b<a holds; such a pair is non-trivial when element-wise == and byte identity disagree'
         '; operand-order shards: every strong_typedef operator over an underlying type whose operators encode (operator, left, right) in '
         'their result and count their invocations (5x5 operand values, lvalue/const lvalue/rvalue operands): result == left op right, exactly '
         'one invocation of exactly that operator, operands unchanged; strong_typedef over fcppt 2x2 int matrices (all 81^2 pairs, plain '
         'integer product as oracle) and over permutations of {0,1,2}; record_pairs: for the value-type patterns (int,int,int), (int,int,bool), '
         '(int,long,bool) all 6 element orders, all 36 ordered pairs of record types, all label values: r1==r2 iff equal label by label, != the '
         'negation, both argument orders, a == permute<R2>(a)',
 'assumptions': ['only the operators and hash objects a type really offers are checked (tuple, array, record, either, tree, sphere, '
                 'recursive, enum array, matrix: no <; hash only for strong_typedef, reference, shared_ptr, vector, dim, matrix, bitfield '
                 'and range::hash over raw_vector)',
                 "'<' is compared with the lexicographic order of the components where the documentation says so (optional, variant, "
                 'vector, dim, box, grid, reference/shared_ptr by pointer) and for raw_vector (std::vector-like); everywhere it must be '
                 'a strict weak order whose incomparability is ==',
                 'reference and shared_ptr are compared by identity of the target (documented), targets with equal values are '
                 'different',
                 'moved-from objects are outside the universes (valid but unspecified)',
                 'over-assertion audit, demoted to information counters (info:...), never a verdict: (1) how often / through which of '
                 'the underlying type\'s operators a strong_typedef operator calls the underlying type '
                 '(info:strong_typedef<ord>:<op>:invocations) -- only the resulting value is promised; the order type ord only has '
                 'independent tables for < and <=, while > , >= , != are the swapped / negated forms and == is symmetric, so a wrapper that '
                 'derives those from each other is not flagged; (2) raw_vector operator< being *lexicographic* '
                 '(info:raw_vector:lt_lexicographic[_elem]) -- undocumented, the property only demands a strict weak order compatible '
                 'with ==; (3) std::hash<strong_typedef> returning the same number as strong_typedef_hash '
                 '(info:strong_typedef<T>:std_hash_differs_from_strong_typedef_hash); box<double> built from (pos,size) is skipped where '
                 '(pos+size)-pos != size because which of the two size() reports is a representation detail',
                 'for component values that are not totally ordered (NaN, nr{0}) only ==, != and hash coherence are checked on '
                 'containers (no order laws); strong_typedef operators are checked for transparency on them',
                 'box<double> components are pos and max-pos computed in plain double arithmetic (size() is documented as derived)',
                 'mixed-storage operator< of math vectors/dims (row view vs static) does not compile and is not exercised; mixed-storage '
                 '== is']}

PROP['rule'] += " Compile probe: strong_typedef over a user-defined class with user-defined arithmetic, bitwise and comparison operators."

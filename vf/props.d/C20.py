PROP = {'title': 'Random wrappers are transparent and stay within the requested bounds',
 'level': 'exploration',
 'engine': 'E',
 'technique': 'exhaustive enumeration of (engine, result type, interval or parameter set, seed) over a finite stated seed set; '
              'lock-step differential of 64 draws against the std:: engine + std:: distribution the wrappers are documented to wrap, '
              'plus direct bound checks; compile probes for the members that did not compile before the F20 fixes',
 'level_text': 'Every combination of the stated engines, result types, intervals/parameter sets and seeds is run on the real templates '
               'through every way of drawing (basic(param), basic(t1,t2), make_variate(make_basic), variate(gen,param), '
               'basic(d.param()), basic(convert_to(std)), d(gen,param) on a distribution storing other parameters, alone and '
               'interleaved with d(gen), uniform_container, factories) and through histories in which a distribution is used 0..3 times and then '
               'wrapped in a variate each possible way, copied / moved (distribution and variate), reset() or re-parameterised in mid-sequence, and compared draw by draw with the equivalent std:: pair; the pseudo-random numbers are a '
               'deterministic function of the enumerated seed, so nothing is sampled. An off-by-one in an enum/index interval or a '
               'mistranslated parameter changes the sequence for almost every seed and is also caught by the direct bound and '
               'both-ends-reached checks.',
 'level_note': 'the seed space (2^32 and more) cannot be exhausted: the claim holds for every seed in the stated set '
               '([0,256) quick / [0,4096) thorough plus 2^31-1, 2^32, 2^32+1, 2^63, 2^64-1 -- the seed type of both engines is 64 bit '
               'wide); oracle = libstdc++ std::minstd_rand / std::mt19937 and '
               'std::uniform_int_distribution / uniform_real_distribution / normal_distribution constructed by the harness',
 'binaries': [{'name': 'C20',
               'sources': ['harness/C20.cpp', 'harness/C20_unsigned.cpp', 'harness/C20_wrapped.cpp', 'harness/C20_enum.cpp',
                           'harness/C20_real.cpp', 'harness/C20_normal.cpp', 'harness/C20_user.cpp', 'harness/C20_container.cpp'],
               'libs': [],
               'flavour': 'asan'}],
 'compile_probes': [{'name': 'basic_draw_with_param<uniform_int>', 'source': 'harness/C20_probe_draw_with_param.cpp', 'flags': []},
                    {'name': 'basic_param_getter<uniform_int>', 'source': 'harness/C20_probe_param_getter.cpp', 'flags': []},
                    {'name': 'convert_to<uniform_int>', 'source': 'harness/C20_probe_convert_to.cpp', 'flags': ['-DC20_PROBE_KIND=1']},
                    {'name': 'convert_to<uniform_real>', 'source': 'harness/C20_probe_convert_to.cpp', 'flags': ['-DC20_PROBE_KIND=2']},
                    {'name': 'variate<uniform_container>', 'source': 'harness/C20_probe_variate_container.cpp', 'flags': []},
                    {'name': 'convert_to<normal>', 'source': 'harness/C20_probe_convert_to.cpp', 'flags': ['-DC20_PROBE_KIND=3']},
                    {'name': 'uniform_int<enum>_wraps_std_over_underlying_type', 'source': 'harness/C20_probe_enum_wrapped.cpp', 'flags': []}],
 'deadline': {'quick': 240, 'thorough': 1500},
 'rule': 'nested loops: engines {minstd_rand, mt19937} x result types {short, int, long, long long, unsigned short, unsigned, unsigned '
         'long, strong typedefs of int/short/unsigned long, a nested strong typedef, enums with 5 underlying types, a strong typedef of an '
         'enum} x intervals {all [a,b] with -8<=a<=b<=8 (0<=a<=b<=16 for unsigned types), 20 intervals touching the limits of the type, '
         'all sub-intervals of the enums} x seeds; make_uniform_enum(_advanced) for enums of size 1..9; make_uniform_indices(_advanced) '
         'and make_uniform_container(_advanced) for containers of size 0..6 (vector, const vector, vector<string>, deque, string, list); '
         'uniform_real (38 (min,sup) pairs) and normal (42 (mean,stddev) pairs) over float / double / long double / strong typedefs of '
         'double and long double, with and without reset(); the parameter lists contain values that are not representable in double '
         '(0.1L, 0.7L, 1/3.0L, 1+2^-60, 2^70+1) next to dyadic ones; seed-independent round-trip cases roundtrip<class<type>>(a, b): '
         'parameters -> convert_from -> convert_to -> convert_from, param() and param() after param(set) carry exactly the given values, '
         'for all pairs of a boundary list per type (integers: min, min+1, min/2, -8..8, max/2, max-1, max; reals: lowest, lowest/2, '
         '+-denorm_min, +-min, epsilon, 0.1, 1/3, 0.7, 1, 1+epsilon, 1+2^-60, 2^70+1, max/2, max; enums: every enumerator); user-defined result types with their own type_iso::transform that are also constructible from their base type with '
         'another meaning (24.8 fixed point over int and a strong typedef of it through uniform_int over all intervals and the limit '
         'intervals; ratio<double>, ratio<long double> through uniform_real / normal); container histories '
         'container_history<container,engine>(size, modification, factory, seed): build the wrapper on a container of size 1..6 '
         '(vector<int>, const vector<int>, const vector<string>, deque<int>, string), draw, then modify the container (nothing / '
         'overwrite in place / push_back within capacity / push_back past capacity after shrinking the capacity / grow, resize back, '
         'shrink_to_fit / assign same size / swap with an equal-size container / push_front for deque) and draw 10 values each from the '
         'wrapper, a copy made before, a copy made after, a variate made before and a variate made after the modification: every drawn '
         'reference must be the address of the current container[i] for the std index i; three variates sharing one generator; param() setter between draws; the raw generators (1300 draws, seed and '
         'seed_seq constructors). Every distribution case also checks the param() getter (fresh, after per-call draws, after '
         'param(set)) and Parameters::convert_to(std distribution) through convert_from(), and runs the histories: k=0..3 direct draws, '
         'then variate(gen,d), make_variate(gen,d), variate(gen,d.param()) draw 6 values each and d itself continues; after 1 and 3 '
         'draws copy-construct / copy-assign / move-construct / move-assign the distribution and a variate and continue every copy and '
         'the original; reset() and param(q) after 1 and 3 draws; the same for uniform_container (no param()/reset() there); one fcppt '
         'generator against one std engine through the whole history. A case is one (family<type,engine>, '
         'parameters, seed) with 64 draws through every drawing path; case '
         'descriptors read family(a, b, seed), factory(size, seed). A case is non-trivial when the distribution has more than one '
         'possible outcome (a<b, size>1, any real-valued distribution) or is the empty-container guard; "...:ends" / '
         '":all_enumerators" / ":all_elements" cases sweep the whole seed set for one parameter set and check that both ends / every '
         'value is drawn at least once (intervals of width <= 16)',
 'assumptions': ['seeds are the finite stated set, enumerated completely; no std::random_device, no clock (seed_from_chrono is not exercised)',
                 'the reference is the std:: engine/distribution of the same libstdc++ (that is what "transparent" means); the '
                 'statistical quality of the std:: distributions is not examined',
                 'closed-interval bounds and reaching both ends are asserted for integer and enum distributions only (statement); '
                 'uniform_real and normal are compared bit-exactly with std::',
                 'char-sized result types are not instantiated (std::uniform_int_distribution does not support them)',
                 'type_iso::boost_units result types are not covered',
                 'the property names "strong-typedef or enum" result types; both are instances of the type_iso::transform mechanism '
                 '(undecorate the parameters, decorate every draw). The user-defined result types (fixed24_8, ratio<F>) check the same '
                 're-wrapping mechanism with a third, user-defined instance whose constructor from the base type means something else '
                 'than decorate(), so that a shortcut around type_iso is visible',
                 'uniform_container: the container may be modified between draws as long as the index range it had when the wrapper '
                 'was constructed stays valid; shrinking below that range is outside the contract and not exercised. std::list is '
                 'covered for make_uniform_indices only (uniform_container needs operator[])',
                 'stream operators << and >> of distribution::basic are outside the statement and not checked',
                 'the parameter classes have no accessors: parameters read back by param() / convert_to() are observed through '
                 'convert_from() (itself checked against the numbers put in via distribution().param()) and by drawing from a '
                 'distribution rebuilt from them',
                 'histories: the reference is the std distribution driven through the identical history (copied where fcppt copies, '
                 'reset() / param(x) where fcppt does) -- its cached state (normal_distribution) is never hand-modelled; only for the '
                 'route variate(gen, d.param()) the reference is a FRESH std distribution built from the used distribution\'s param(), '
                 'because that constructor receives parameters, not a distribution',
                 'over-assertion audit: every violation signature is either stated in the property / the doxygen comments (sequence, '
                 'bounds, both ends, min()/max(), param() getter and setter, reset(), operator==, nothing for an empty container, '
                 'copy semantics required of a random number distribution) or implied by a declared signature (returned reference is '
                 'an element of the referenced container, a by-value copy / move target continues like its source, the generator is '
                 'used by reference). Demoted to information counters, never a verdict: info:<family>:history:param_set:state (equality '
                 'of the wrapped distribution\'s internal state with a std distribution driven the same way -- only the sequence is '
                 'promised); copy-/move-assignment of variate and uniform_container is exercised only while those undocumented '
                 'operations exist (info:variate_not_assignable / info:uniform_container_not_assignable otherwise). Moved-from objects '
                 'are never used',
                 'the compile probes for operator()(rng, param), param(), convert_to and variate<uniform_container> are kept beside the '
                 'runtime checks']}

PROP['rule'] += " Compile probe: the parameters of uniform_int<Enum> convert to std::uniform_int_distribution<underlying type>::param_type."

PROP = {'title': 'Ranges and iterators enumerate exactly their documented sequence',
 'level': 'exploration',
 'engine': 'E',
 'technique': 'exhaustive enumeration of all (begin,end) pairs of 8-bit types, boundary-lattice pairs of wider types, all closed '
              'sub-ranges of small enums, all cyclic boundaries/offsets/step counts and all spiral (origin,distance) pairs against '
              'sequences and point sets built by plain loops',
 'level_text': 'Every tuple of the stated finite domains is run through the real range/iterator templates and the produced sequence is '
               'compared element by element with an explicitly constructed reference (integer loops, explicit lattice point sets); for '
               '8-bit integer ranges this is the complete input space, so empty, inverted and type-maximum ranges, negative advances and '
               'wrap-around multiples are all enumerated rather than spot-checked.',
 'level_note': '16/32/64-bit and strong-typedef<int/unsigned long> ranges only on the boundary lattice plus a dense square around zero; '
               'ranges longer than the walk cap (1024 quick / 16384 thorough, 70000 for 16 bit thorough) are compared on their first cap '
               'elements and on size(); the thorough sweep over all 16-bit pairs walks 3 elements per range; cyclic_iterator also with '
               'large multiples of the boundary length (up to 2^40*len+-1) against a 128-bit modulus; ASan/UBSan/_GLIBCXX_ASSERTIONS aborts are attributed to the announced case',
 'binaries': [{'name': 'C18', 'sources': ['harness/C18.cpp', 'harness/C18_grid.cpp', 'harness/C18_protocol.cpp'], 'libs': [], 'flavour': 'asan'}],
 'deadline': {'quick': 240, 'thorough': 1200},
 'rule': 'nested loops over explicit domains: all (b,e) and all counts of int8_t/uint8_t (plain and behind a strong typedef), thorough tier: all 2^32 (b,e) of int16_t and of uint16_t with the walk cut after 3 elements, lattice '
         '{0,+-1..,+-(2^k-1),+-2^k,+-(2^k+1),min..min+2,max-2..max} pairs of 16/32/64-bit types, all closed sub-ranges of enums with '
         '1..9 enumerators over 5 underlying types plus 8-bit enums with 127/128/255 enumerators, cyclic boundaries of length 1..6 at 3 '
         'positions x all start offsets x n in [-20,20] (thorough [-64,64]) over vector/pointer/deque/list/forward_list iterators, '
         'spiral distances 0..6 (thorough 0..20) from origins in [-2,2]^2 (thorough [-3,3]^2) plus 6 far origins for int8/short/int/long, '
         'all sub-ranges of containers of length 0..6 (thorough 0..9) for iterator::range/make_range/adapt_range, all positions of a square '
         'for moore/neumann neighbours; a case is non-trivial when the range is not the empty b==e case, the enum sub-range has >= 2 '
         'elements or ends at the last enumerator, the cyclic walk wraps around at least once, the spiral distance is >= 1, the '
         'sub-range is non-empty; cases are distinct argument tuples. Iterator protocol (protocol:* shards, laws in harness/C18_protocol.hpp): '
         'for every iterator/range type and all ranges of up to 6 (thorough 9) elements of the same domains (spiral: distances 0..3, '
         'thorough 0..5; cyclic: the len-1 positions after the start) an iterator is collected for every position incl. end and all '
         'pairs are compared (==, != in both operand orders, reflexivity, copies, against begin()/end()), loops written `end != it` / '
         '`!(end == it)` must stop after n steps (step fuel), multi-pass and lockstep copies (forward+), an element obtained with *it '
         'must survive ++it and the destruction of the iterator (forward+, and iterators whose header declares a value as reference '
         'type), *(it+k), it[k], *prev(it), reverse_iterator, adjacent_find/is_sorted/minmax_element/equal/distance/next vs the model, '
         'random access arithmetic and order for all position pairs, copy/move construction and assignment, swap, value-initialised '
         'iterators, and iterator_traits vs the declaring header; a protocol case is non-trivial when the range has >= 2 elements',
 'assumptions': ['size() is compared only when the element count is representable in the range\'s own integer type (statement)',
                 'fcppt::range::size is compared for signed plain int ranges only: it does not compile for int_range over unsigned or '
                 'strong-typedef types (difference_type is the element type)',
                 'enum ranges: only closed sub-ranges start <= end (an inverted pair is not a sub-range); an 8-bit enum with 256 '
                 'enumerators is outside fcppt.enum (enum::size itself is not representable) and not enumerated',
                 'cyclic iterator: start positions inside the boundary [first,last); boundaries are non-empty',
                 'spiral: non-negative distances, coordinates far from the limits of the coordinate type',
                 'moore/neumann: element order in the returned array is undocumented and not compared; unsigned positions start at 1',
                 'the converting constructor/assignment of cyclic_iterator is outside the statement and not instantiated',
                 'int_iterator, enum_::iterator and spiral_iterator are input iterators: multi-pass and the std algorithms are not asserted '
                 'for them; element stability across ++it is asserted because their headers declare operator* to return a value',
                 'cyclic_iterator over random access iterators: for a walked range that wraps around the boundary last - first is the '
                 '(negative) distance of the underlying iterators as documented; std::distance/std::equal and it_j - it_i == j - i are '
                 'asserted only for walks that do not wrap (the wrapped cases are counted in the evidence)',
                 'audit: recorded as info counters, never a verdict: iterator_traits/typedef equality (value_type, reference, '
                 'difference_type, iterator_category, pointer), the exact result type of adapt_range, a forward category without a real '
                 'reference type, and the distance of a wrapped cyclic walk; no static_assert on fcppt typedefs remains in the harness',
                 'audit: for input-category iterators (int_iterator, enum_::iterator, spiral_iterator) every position is reached by its '
                 'own walk from a fresh range.begin(); no iterator is used after a copy of it was incremented; saved copies are re-used only '
                 'for forward or stronger categories; moved-from iterators are never inspected']}

PROP['rule'] += " moore/neumann neighbours of unsigned positions with coordinates in {0,1,2,max-2,max-1,max}^2 in the type's own modular arithmetic."

PROP = {'title': 'Axis-aligned boxes behave as half-open point sets',
 'level': 'exploration',
 'engine': 'E',
 'technique': 'exhaustive enumeration of all boxes with corners in a small integer range, all ordered pairs of such boxes and all '
              'lattice points, compared with explicit point sets',
 'level_text': 'Every box with integer corners in the stated range (empty, degenerate and inverted ones included), every ordered pair of '
               'such boxes and every lattice point is run through the real fcppt::math::box templates; each boolean and each result '
               'box is compared with the explicitly enumerated point set {x : pos_i <= x_i < max_i}. Boundary conventions differ only '
               'where coordinates coincide, and the enumeration contains every relative placement of two boxes up to order-isomorphism '
               '(touching, flush, nested, overlapping, disjoint with gap) on every axis, which hand-picked tests do not.',
 'level_note': 'bounded: corners in [-3,3] in 2-D ([-2,2] quick), [-8,8] in 1-D ([-4,4] quick), [-1,1] in 3-D; non-empty boxes additionally '
               '[-5,5] in 2-D ([-3,3] quick) and [-2,2] in 3-D; unsigned types on the shifted range [0,2r]; oracle = bit masks of explicit point sets in the harness; ASan/UBSan '
               'aborts are attributed to the announced case',
 'binaries': [{'name': 'C13',
               'sources': ['harness/C13.cpp', 'harness/C13_int.cpp', 'harness/C13_unsigned.cpp', 'harness/C13_wide.cpp',
                           'harness/C13_float.cpp', 'harness/C13_double.cpp', 'harness/C13_heap.cpp'],
               'libs': [],
               'flavour': 'asan'}],
 'deadline': {'quick': 240, 'thorough': 1500},
 'rule': 'nested loops over explicit domains: boxes = all (pos,max) with every coordinate in [-r,r] (signed) or [0,2r] (unsigned); '
         'quick r=4 (1-D), 2 (2-D), 1 (3-D); thorough r=8 (1-D), 3 (2-D), 1 (3-D); all ordered pairs of all boxes; additionally all '
         'ordered pairs of non-empty boxes with r=3/5 (2-D quick/thorough) and r=2 (3-D); lattice points [-r-1,r+1]^N; shrink/stretch '
         'amounts in [0,2]^N; types int, unsigned (N=1,2,3); long, unsigned long (N=1 with r=3, N=2 with r=2, both tiers). Reference: bit mask of the explicit point set '
         'of every box; result boxes are looked up by their corners and compared as sets. A pair case is non-trivial when both boxes '
         'are non-empty and they share a boundary coordinate on some axis or overlap partially; a point case when the box is non-empty '
         'and the point is within one step of a face; a single-box case when the box is non-empty; cases are distinct '
         '(function, box, box/point/amount) tuples',
 'assumptions': ['intersects, contains (inner) and extend_bounding_box(box,box) are asserted for non-empty boxes only, exactly as the '
                 'statement restricts them',
                 'the null-box clause of intersection is asserted for non-empty, non-intersecting inputs; for empty/inverted inputs '
                 'only "the result has exactly the common points" (i.e. is empty) is asserted (DESIGN.md section 5)',
                 'size()/box(pos,size)/init_dim are asserted where max-pos is representable in T (not for inverted unsigned boxes); '
                 'shrink/stretch_absolute with unsigned T only where the resulting corners are representable',
                 'shrink is read as erosion and stretch_absolute as dilation by the cube [-v,v] with v >= 0; stretch_absolute is '
                 'asserted for non-empty boxes only',
                 'extend_bounding_box(box,point) is not in the statement; it is checked against the closed-hull reading that its '
                 "documentation and the repository's test fix, and the cases where the point is not a member of the (half-open) "
                 'result are counted as information',
                 'box::distance is compared with the documented interval distance per axis only where the documentation determines '
                 'the value (no containment with a shared end point; no negative result for unsigned T)',
                 'center is asserted to be pos+size/2 rounded down and a point of the box for non-inverted boxes',
                 'coordinate types narrower than int are not instantiable (vector arithmetic promotes to int) and are not covered; '
                 'stretch_relative, structure_cast, componentwise_equal and output are outside the statement']}

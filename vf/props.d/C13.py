PROP = {'title': 'Axis-aligned boxes behave as half-open point sets',
 'level': 'exploration',
 'engine': 'E',
 'technique': 'exhaustive enumeration of all boxes with corners on a small lattice, all ordered pairs of such boxes and all '
              'probe points, for integer, floating-point and a user-defined move-observable coordinate type, compared with '
              'explicit point sets',
 'level_text': 'Every box with corners on the stated lattice (empty, degenerate and inverted ones included), every ordered pair of '
               'such boxes and every probe point is run through the real fcppt::math::box templates; each boolean and each result '
               'box is compared with the explicitly enumerated point set {x : pos_i <= x_i < max_i}. Boundary conventions differ only '
               'where coordinates coincide, and the enumeration contains every relative placement of two boxes up to order-isomorphism '
               '(touching, flush, nested, overlapping, disjoint with gap) on every axis, which hand-picked tests do not. The lattice is '
               'mapped strictly monotonically into each coordinate type, so the same exact model also judges float/double boxes with '
               'non-dyadic and infinite corners (where any arithmetic on a corner shows as an off-lattice value) and boxes over a '
               'heap-backed integer whose moved-from state is observable.',
 'level_note': 'bounded: integer corners in [-3,3] in 2-D ([-2,2] quick), [-8,8] in 1-D ([-4,4] quick), [-1,1] in 3-D; non-empty boxes '
               'additionally [-5,5] in 2-D ([-3,3] quick) and [-2,2] in 3-D; unsigned types on the shifted range [0,2r]; float/double '
               'corners c/10 with c in [-30,30] in 1-D ([-15,15] quick) and [-3,3] in 2-D ([-2,2] quick) plus a 13-value (1-D) / 7-value '
               '(2-D) table of extreme values; heap_int corners in [-3,3] in 1-D and 2-D; oracle = bit masks of explicit point sets in '
               'the harness; ASan/UBSan aborts are attributed to the announced case',
 'binaries': [{'name': 'C13',
               'sources': ['harness/C13.cpp', 'harness/C13_int.cpp', 'harness/C13_unsigned.cpp', 'harness/C13_wide.cpp',
                           'harness/C13_float.cpp', 'harness/C13_double.cpp', 'harness/C13_heap.cpp'],
               'libs': [],
               'flavour': 'asan'}],
 'deadline': {'quick': 300, 'thorough': 1500},
 'rule': 'nested loops over explicit domains. Integer types: boxes = all (pos,max) with every coordinate in [-r,r] (signed) or [0,2r] '
         '(unsigned); quick r=4 (1-D), 2 (2-D), 1 (3-D); thorough r=8 (1-D), 3 (2-D), 1 (3-D); all ordered pairs of all boxes; '
         'additionally all ordered pairs of non-empty boxes with r=3/5 (2-D quick/thorough) and r=2 (3-D); probe points [-r-1,r+1]^N; '
         'shrink/stretch amounts in [0,2]^N; types int, unsigned (N=1,2,3); long, unsigned long (N=1 with r=3, N=2 with r=2, both '
         'tiers). float and double (N=1,2): corners c/10, c in [-15,15] quick / [-30,30] thorough (1-D) and [-2,2] / [-3,3] (2-D), '
         'all boxes, all ordered pairs, probe points = every corner value c/10 for c in [-r-1,r+1] and its two floating-point '
         'neighbours; plus all boxes and all ordered pairs over the extreme-value tables {-inf,-max,-1e30,-2.7,-0.1,-denorm_min,0,'
         'denorm_min,min,0.1,1e30,max,inf} (1-D) and {-inf,-max,-0.1,0,denorm_min,max,inf} (2-D). heap_int (heap cell, deep copy, a '
         'moved-from value reads as a poison value and the read is counted): corners [-3,3] in 1-D and 2-D (2-D all pairs on [-2,2] '
         'plus all pairs of non-empty boxes on [-3,3] in the quick tier), same checks as int. For every box of every domain every way '
         'of constructing it ((min,max) and (pos,size) with lvalue, temporary and std::move arguments, init_max, init_dim, '
         'structure_cast, copy/move construction and assignment) is followed by a membership test at every probe point; every '
         'function is called with lvalues and again with temporaries. init_max and init_dim (the only entry points that take a user '
         'callback) are additionally driven, for int, double and heap_int and N=1,2,3, by every script of N pairs over 3 values '
         '(9^N scripts) through a stateful stream-like callback that records its invocations and returns the k-th pair at its '
         'k-th invocation, and through callbacks that throw at invocation k=1..N. Reference: bit mask of the explicit point set of every box; '
         'result boxes are looked up by their corners (which must be lattice values exactly) and compared as sets. A pair case is '
         'non-trivial when both boxes are non-empty and they share a boundary coordinate on some axis or overlap partially; a point '
         'case when the box is non-empty and the point is within one step of a face; a single-box case when the box is non-empty; '
         'cases are distinct (function, box, box/point/amount) tuples',
 'assumptions': ['intersects, contains (inner) and extend_bounding_box(box,box) are asserted for non-empty boxes only, exactly as the '
                 'statement restricts them',
                 'the null-box clause of intersection is asserted for non-empty, non-intersecting inputs; for empty/inverted inputs '
                 'only "the result has exactly the common points" (i.e. is empty) is asserted (DESIGN.md section 5)',
                 'size()/box(pos,size)/init_dim/structure_cast are asserted where max-pos is representable in T (not for inverted '
                 'unsigned boxes); shrink/stretch_absolute with unsigned T only where the resulting corners are representable',
                 'shrink is read as erosion and stretch_absolute as dilation by the cube [-v,v] with v >= 0; stretch_absolute is '
                 'asserted for non-empty boxes only',
                 'floating point: comparison/selection functions (contains_point, intersects, intersection, contains, '
                 'extend_bounding_box, (min,max) constructor, init_max, getters, interval) must reproduce corner values exactly; '
                 'functions whose documented result involves arithmetic are compared with the documented formula evaluated in T '
                 '(size = max-pos, box(pos,size).max = pos+size, corner = pos+bit*size, center = pos+size/2, shrink/stretch corners '
                 'pos+-v / max-+v with v in {0,0.1,0.25,1}, distance, operator< on (pos,size)) plus the rounding-independent facts '
                 'shrink(b,v) subset of b, stretch(b,v) superset of b, center inside a non-empty box; on the extreme-value tables '
                 '(infinite corners) only the comparison/selection functions are run, NaN and -0.0 corners are not enumerated',
                 'init_max/init_dim callbacks: the documentation says the function is called for every index, so exactly N '
                 'invocations with every index exactly once are asserted and axis i must be made of the one pair returned for '
                 'index i; the (undocumented) ascending order of the indices is only counted as information; a throwing callback '
                 'must propagate its exception with no further invocation and no leaked heap_int cell',
                 'heap_int: reads of a moved-from coordinate are counted as information (a harmful read shows in the checked '
                 'results); the state of a moved-from box or vector itself is not asserted',
                 'extend_bounding_box(box,point) is not in the statement; verdicts: unchanged box when the point is inside, lower '
                 'corner min(p,pos), upper corner not below the closed hull max(p,max) and (integer-like T) not above the half-open '
                 'hull max(p+1,max); a result between the two readings and the cases where the point is not a member of the '
                 '(half-open) result are counted as information',
                 'demoted to information counters after the over-assertion audit (recorded under info:<sig>, never a verdict): '
                 'corner_points order (not documented for corner_points), left/right/top/bottom/front/back (undocumented '
                 'convention), center lying inside a non-empty box, operator< where the (pos,size) and (pos,max) lexicographic '
                 'readings differ (inverted unsigned boxes), reads of a moved-from heap_int coordinate, off-lattice corners of an '
                 'EMPTY intersection when the inputs have no common point, corners of an EMPTY shrink result, the order of the '
                 'init_max/init_dim callback indices; center accepts rounding either way (integers) and pos+size/2 or (pos+max)/2 '
                 'within a few ulps (floating point); floating-point corner_points accept max_i itself or pos_i+size_i',
                 'box::distance is compared with the documented interval distance per axis only where the documentation determines '
                 'the value (no containment with a shared end point; no negative result for unsigned T)',
                 'center is asserted to be within 1/2 of the real centre for non-inverted integer boxes',
                 'coordinate types narrower than int are not instantiable (vector arithmetic promotes to int) and are not covered; '
                 'stretch_relative, componentwise_equal and output are outside the statement; structure_cast only as the identity '
                 'cast']}

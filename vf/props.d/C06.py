PROP = {'title': 'Checked conversions and integer helpers equal their mathematical definition',
 'level': 'exploration',
 'engine': 'E',
 'technique': 'exhaustive enumeration of all 8/16-bit values and pairs and of the 32/64-bit boundary lattice against a 128-bit oracle',
 'level_text': 'Every argument tuple of the stated finite domains is evaluated on the real templates and compared with exact 128-bit '
               'arithmetic; for 8/16-bit instantiations this is the complete input space, which is what a for-all-values claim about '
               'conversions needs and what no sampled test gives.',
 'level_note': '32/64-bit instantiations only on the boundary lattice; oracle = __int128 arithmetic in the harness; UBSan aborts are '
               'attributed to the announced case',
 'binaries': [{'name': 'C06', 'sources': ['harness/C06.cpp'], 'libs': [], 'flavour': 'ubsan'}],
 'deadline': {'quick': 240, 'thorough': 1500},
 'rule': 'nested loops over explicit domains: every value of each 8/16-bit type (all 64 source/dest pairs for truncation_check; all pairs '
         'for div/mod/diff on 8 bit, on 16 bit in the thorough tier), the boundary lattice {0,+-1,+-(2^k-1),+-2^k,+-(2^k+1),min,max,...} '
         'for 32/64 bit, dense squares for ceil_div(_signed); oracle = __int128 arithmetic; a case is non-trivial when it sits at or '
         'across a type/size boundary, has a non-zero remainder, a negative operand or differs from its operand (per-function predicate in '
         'harness/C06.cpp); cases are distinct argument tuples. from_int: enums with 1..200 enumerators and enums whose size is 255, 256, 257, 300, 512, 65535, 65536, '
         '65537, 70000, 2^32, 2^32+1 (the size does not fit the 8/16/32-bit value type) x value types u8/u16 (every value), u32/u64 (lattice plus the values around the '
         'size). math::mod<float/double/long double> (documented as std::fmod): all ordered pairs from a domain of multiples of 1/4 (0..65 in quarters, 2^k and its neighbours, '
         '2^k+-1, 1.25*2^k for k = 7..118, powers of ten), both signs of the dividend, oracle = 128-bit integer remainder of the operands scaled by 4',
 'assumptions': ["cases whose exact result is not representable in the result type are skipped (statement: 'whenever it is representable')",
                 'log2(0) is documented as undefined and skipped',
                 '32/64-bit types are covered on the boundary lattice only',
                 'floating-point mod is compared on operands that are multiples of 1/4 below 2^120 (where the exact remainder is computable in 128-bit integers); div/diff/clamp for floating point are not covered',
                 'interval_distance is compared only where its documentation is unambiguous (no shared end point with containment)']}

PROP['rule'] += ' cast::to_signed/to_unsigned/size on every value that is representable in the result (all 8/16-bit values, lattice for 32/64 bit, all same-signedness type pairs); bit::mask_c / shifted_mask_c for every bit position of u8..u64 with bit::test against every single-bit value.'

PROP['rule'] += (" interval_distance is also called on the interval pairs that share an end point with containment (value not judged: documentation "
                 "and code disagree there; the call has to return).")

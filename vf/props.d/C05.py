_MO = [
    (1, 'algorithm::map'), (2, 'algorithm::fold(rvalue_range)'), (3, 'algorithm::fold(move_range)'),
    (4, 'algorithm::fold_break(rvalue_range)'), (5, 'algorithm::fold_break(move_range)'),
    (6, 'algorithm::map_concat(rvalue_range)'), (7, 'algorithm::map_concat(move_range)'),
    (8, 'algorithm::map_optional(rvalue_range)'), (9, 'algorithm::map_optional(move_range)'), (10, 'algorithm::reverse'),
    (11, 'container::join/2'), (12, 'container::join/3'), (13, 'container::pop_back'), (14, 'container::pop_front'),
    (15, 'container::get_or_insert'), (16, 'container::make_move_range'),
    (17, 'grid::map'), (18, 'grid::apply'), (19, 'grid::resize'),
    (20, 'tree::object(value)'), (21, 'tree::object(value,children)'), (22, 'tree::move_ctor+move_assign'),
    (23, 'tree::push_back/push_front/insert(value)'), (24, 'tree::push_back/push_front/insert(tree)'),
    (25, 'tree::pop_back/pop_front/release'), (26, 'tree::value(value)'),
    (30, 'optional::map'), (31, 'optional::bind'), (32, 'optional::filter'), (33, 'optional::maybe'), (34, 'optional::maybe_void'),
    (35, 'optional::from'), (36, 'optional::alternative'), (37, 'optional::to_container'), (38, 'optional::to_exception'),
    (39, 'optional::join'), (40, 'optional::assign'), (41, 'optional::make_if'), (42, 'optional::make'), (43, 'optional::apply'),
    (44, 'optional::maybe_multi'), (45, 'optional::maybe_void_multi'), (46, 'optional::combine'), (47, 'optional::cat'),
    (48, 'optional::sequence'), (49, 'optional::object(value)'),
    (60, 'either::object(value)'), (61, 'either::make_success/make_failure'), (62, 'either::map'), (63, 'either::map_failure'),
    (64, 'either::bind'), (65, 'either::match'), (66, 'either::success_opt'), (67, 'either::failure_opt'), (68, 'either::to_exception'),
    (69, 'either::join'), (70, 'either::from_optional'), (71, 'either::error_from_optional'), (72, 'either::apply'),
    (73, 'either::sequence'), (74, 'either::sequence_error'), (75, 'either::first_success'), (76, 'either::loop'),
    (77, 'either::construct'), (78, 'either::try_call'),
    (90, 'variant::object(value)'), (91, 'variant::match'), (92, 'variant::apply/1'), (93, 'variant::apply/2'), (94, 'variant::to_optional'),
    (100, 'record::object(label=value)'), (101, 'record::set'), (102, 'record::permute'), (103, 'record::map'),
    (104, 'record::multiply_disjoint'), (105, 'record::init'),
    (110, 'tuple::object(values)'), (111, 'tuple::make'), (112, 'tuple::map'), (113, 'tuple::invoke'), (114, 'tuple::push_back'),
    (115, 'tuple::concat'), (116, 'tuple::apply/2'), (117, 'tuple::from_array'), (118, 'tuple::init'),
    (125, 'array::object(values)'), (126, 'array::make'), (127, 'array::map'), (128, 'array::join/1'), (129, 'array::join/2'),
    (130, 'array::join/3'), (131, 'array::from_range'), (132, 'array::push_back'), (133, 'array::apply/2'), (134, 'array::append'),
    (135, 'array::init'),
    (140, 'parse::sequence'), (141, 'parse::repetition'), (142, 'parse::repetition_plus'), (143, 'parse::optional'),
    (144, 'parse::alternative'),
]
_LV = [
    (1, 'record::map(lvalue)'), (2, 'record::map(const_lvalue)'), (3, 'record::object(lvalue_initializer)'),
    (4, 'tuple::apply/2(lvalue)'), (5, 'tuple::apply/2(const_lvalue)'), (6, 'tuple::apply/1'), (7, 'tuple::apply/3'),
    (8, 'optional::assign(const_lvalue)'), (9, 'optional::assign(lvalue)'),
]

PROP = {'title': 'Generic operations conserve values: rvalues moved once, lvalues untouched',
 'level': 'exploration',
 'engine': 'E',
 'technique': 'registry of generic operations x argument shapes x value category of every argument, instantiated with an instrumented '
              'element type (identity, copy/move/assign counters, moved-from flag, logged payload reads); per call an exact oracle on the '
              'identities found in the result and in the arguments; move-only instantiation of every entry as a compile probe',
 'level_text': 'Every registered operation (about 170 entries from algorithm, container, grid, tree, optional, either, variant, record, '
               'tuple, array, options, parse and the helpers move_if_rvalue / move_iterator_if_rvalue / move_clear) is called for every combination of the stated shapes (empty/one/three elements, '
               'absent/present, each alternative, each failure position) and value categories (lvalue, const lvalue, rvalue) of all its '
               'arguments. The element type records every special member call per value identity, so a copy of an rvalue element, a move '
               'out of an lvalue, a lost or duplicated element or a read of a moved-from object is observed directly, which tests with '
               'int and std::string cannot see. The result is compared with the exact list of identities computed by the harness from '
               'snapshots of the arguments.',
 'level_note': 'bounded: element counts {0,1,3} (thorough {0,1,2,3,5}); categories of all arguments enumerated completely for up to three '
               'arguments; callbacks are forwarding lambdas that consume what they are given (so an element delivered as an lvalue is '
               'seen); move counts are information only; options value types must be copyable by design (parsers are const and hand out '
               'copies) and are not part of the move-only probes',
 'binaries': [{'name': 'C05',
               'sources': ['harness/C05.cpp', 'harness/C05_grid_tree.cpp', 'harness/C05_optional.cpp', 'harness/C05_either_variant.cpp',
                           'harness/C05_record_tuple.cpp', 'harness/C05_array.cpp', 'harness/C05_options.cpp', 'harness/C05_parse.cpp',
                           'harness/C05_nested.cpp', 'harness/C05_assoc.cpp'],
               'libs': ['core', 'options'],
               'flavour': 'asan'},
              {'name': 'C05t',
               'sources': ['harness/C05.cpp', 'harness/C05_grid_tree.cpp', 'harness/C05_optional.cpp', 'harness/C05_either_variant.cpp',
                           'harness/C05_record_tuple.cpp', 'harness/C05_array.cpp', 'harness/C05_options.cpp', 'harness/C05_parse.cpp',
                           'harness/C05_nested.cpp', 'harness/C05_assoc.cpp'],
               'libs': ['core', 'options'],
               'extra_flags': ['-DC05_THROWING_MOVE'],
               'flavour': 'asan'}],
 'compile_probes': [{'name': 'move_only:' + n, 'source': 'harness/C05_probe_mo.cpp', 'flags': ['-DC05_PROBE=%d' % k]} for k, n in _MO] +
                   [{'name': 'rejected:' + n, 'source': 'harness/C05_probe_lvalue.cpp', 'flags': ['-DC05_PROBE=%d' % k]} for k, n in _LV],
 'deadline': {'quick': 240, 'thorough': 900},
 'rule': 'nested loops: operation x shape x value category of every argument (lvalue, const lvalue, rvalue; operations that accept only '
         'some categories enumerate those, e.g. constructors taking T&& only). Shapes: containers/grids/trees with 0, 1, 3 elements '
         '(thorough also 2 and 5; grids 0x0,1x1,3x1 and thorough 1x3,2x2,3x2; all target sizes for resize), optionals absent/present, '
         'eithers success/failure (and every first-failure position for sequence), variants holding each alternative, tuples/arrays of '
         'size 0/1/3 (all size pairs for append/join/concat), records with one and three elements, every break position of fold_break, '
         'every keep mask of map_optional, present/absent keys of get_or_insert, flags with equal/different values, options with and '
         'without default and short name, parsers on inputs that succeed, fail and backtrack. Case descriptor: '
         'operation(shape, argument:category, ...). A case is non-trivial when at least one argument actually carries a tracked element '
         'that the operation has to move, copy or leave alone (non-empty container, present optional, ...). Oracle per case: no element '
         'of an rvalue argument (or of a value returned by a callback) copy-constructed/copy-assigned by the library or handed to the '
         'callback as an lvalue; result holds exactly the expected identities in the expected order, none moved-from, payloads '
         'unchanged; lvalue and const lvalue arguments element-wise identical and not moved-from; no read of a moved-from payload; '
         'live-object balance zero after destruction. Compile probes: every entry with rvalue arguments instantiated with the move-only '
         'element type and by-value callbacks (the documented callback signature), one TU per entry.',
 'assumptions': [
                 'audit (over-assertion): the following are recorded as info:* counters and never a verdict, because neither the '
                 'property nor the documentation promises them: the state of a moved-from child list handed to the tree constructor; '
                 'how often/whether optional::alternative evaluates its second alternative, optional::make_if its function, '
                 'either::first_success the functions behind the first success, get_or_insert its create function, tree::map its '
                 'function per node; the inserted flag of get_or_insert_with_result (its documentation states it the other way round '
                 'than the code); what options::flag does for equal values (precondition violation); the success/failure of the parse '
                 'grammars (C02) and which values a parser creates while backtracking; the relative order of equivalent keys in a joined '
                 'multimap/multiset and the iteration order of unordered_map (compared as multisets); moves of moved-from objects; all move '
                 'counts. Callbacks decide by the element they receive, never by the number of the call, and expectations follow the '
                 'documented element order of the result, not the order of callback invocations; no assumption is made about '
                 'std::vector capacities (vectors are filled up to whatever capacity they have)',
                 'nested elements: std::vector<X> for X in {grid, tree, optional, either, variant, array, tuple, record, strong_typedef, '
                 'recursive, unique_ptr} over the tracked type is forced to reallocate (push_back/emplace_back at capacity 1,2,3 '
                 '(thorough ..8), container::join with the first vector at capacity in all 9 category combinations and a 3-argument rvalue '
                 'join, map_optional / map_concat / optional::cat producing 2,3,5 (thorough ..9) X): no tracked element may be copied, '
                 'signatures nested_in_vector:<X>:<argument>:rvalue_element_copied; the nothrow-move traits of every X are recorded as '
                 'counters (all 1 on the unmodified tree) but the checks do not consult them',
                 'associative join: container::join of std::map/multimap/unordered_map<tracked,tracked_b> and std::set/multiset<tracked>, '
                 '2 and 3 arguments (colliding keys), all 9 / 27 category combinations; lvalue and const lvalue arguments unchanged, the first '
                 'rvalue argument taken over without any copy, mapped values of later rvalue arguments not copied; keys of maps and elements '
                 'of sets of later rvalue arguments are only reachable as const objects, their copies are tolerated and counted '
                 '(info:assoc_join_tolerated_copies_of_const_reached_elements:<kind>); result = first-key-wins union (all elements for multi '
                 'containers), compared in key order, as a multiset for unordered_map',
'moves are counted but never limited: an element moved through several layers is not a violation (max moves per element '
                 'and operation are reported as counters info:max_moves_of_one_rvalue_element:<op>)',
                 'an element of an rvalue range that is delivered to the callback as an lvalue is reported (signature '
                 '<op>:<arg>:rvalue_element_passed_as_lvalue) because a callback with the documented by-value parameter then copies it; '
                 'copies made that way by the harness callback are booked to the callback, not to the library',
                 'moving an already moved-from object (e.g. relocating an array whose elements were moved out) is not counted as a read',
                 'arguments documented as in/out (container of pop_back/pop_front/get_or_insert, the tree a node is inserted into, '
                 'the target of assign/set) may be modified; their elements must still not be copied',
                 'options: flag/option values are handed out by const parsers as copies, which the statement allows (the parser is an '
                 'lvalue then); only constructors and values extracted from the command line are held to the no-copy rule',
                 'operations that do not compile for some value category or arity (record::map and tuple::apply with lvalues, '
                 'tuple::apply with one or three tuples, record constructor with an lvalue initializer, optional::assign with an '
                 'lvalue) are kept as compile probes (rejected:*) instead of runtime entries',
                 'exceptions thrown by an operation for documented reasons (flag with equal values, to_exception on an empty value) are '
                 'expected; any other exception is a violation']}

PROP['rule'] += " Second binary C05t (same sources, -DC05_THROWING_MOVE): the element's move constructor is potentially throwing, shapes have at most one element; a copy is a violation only in cases where a single tracked element exists (std::vector's own reallocation copies such elements otherwise), so library sites that choose copy over move by noexcept-ness (std::move_if_noexcept) are reported. move_if<Cond> for both conditions x 3 argument categories."

PROP['level_note'] += ('; a second binary (C05t) repeats every case with an element type whose move constructor may throw, shapes of at most '
                       'one element, and judges copies only where a single tracked element exists')

PROP = {'title': 'Safe API is total: no UB, crash or hang; failure only via optional/either',
 'level': 'exploration',
 'engine': 'E',
 'technique': 'registry of public functions x instantiations, each run over its complete stated finite domain in an ASan+UBSan+_GLIBCXX_ASSERTIONS '
              'build with a per-case watchdog and a catch-all around every call; functions that consume an environment object (locale facet, stream '
              '/ stream buffer, file, user callback) are additionally driven with every scripted answer of that object',
 'level_text': 'Every registered function is called on every element of an explicitly enumerated domain (all values of every 8/16-bit instantiation, '
               'the boundary lattice of 32/64 bit, all containers over {0,1,2} up to length 4 (thorough 6) with all indices in a margin and beyond '
               '2^31/2^32/2^63, all strings over {-,a,1,space} up to length 4..5 (thorough 6..8) in exact-size heap buffers, all argument vectors up '
               'to length 3 (thorough 5) over six tokens, a fixed private directory tree). Each case is announced before the call, so a sanitizer '
               'abort, a libstdc++ assertion or a hang is attributed to it; any exception other than the documented one of that entry is a '
               'violation; where cheap the returned optional/either is compared with the obvious expectation. The unit tests call each function on '
               '1-5 values in an uninstrumented build and reach none of the edge inputs. Environment objects are enumerated like values: locales '
               'built from std::codecvt_utf8<wchar_t> and from a scripted strict UTF-8 codecvt facet that deviates on its k-th call (partial without '
               'progress, partial / ok after one character, error, noconv; max_length 1, 4, 6); stream buffers that serve a text in chunks of 1..3 '
               'and deviate at their k-th refill (end of file, ios_base::failure, a foreign exception; once or from then on) behind streams in every '
               'iostate with every exceptions() mask; file streams on a directory / a missing path; element types, comparisons and callbacks that '
               'throw at their k-th use.',
 'level_note': "'every public function' is bounded by the registry (size in counters.registry_entries, per-entry case counts in "
               "counters['cases:<entry>'], skip predicates in 'skipped:<entry>'); 32/64-bit types on the boundary lattice only; oracle = sanitizers "
               '+ exception whitelist + watchdog, plus simple expectations; value-level correctness of these functions is the subject of '
               'C06/C08/C15/C16, not of this check',
 'binaries': [{'name': 'C01',
               'sources': ['harness/C01.cpp',
                           'harness/C01_cont.cpp',
                           'harness/C01_fs.cpp',
                           'harness/C01_parse.cpp',
                           'harness/C01_env.cpp',
                           'harness/C01_stream.cpp',
                           'harness/C01_more.cpp',
                           'harness/C01_more2.cpp',
                           'harness/C01_more3.cpp'],
               'libs': ['core', 'filesystem', 'options'],
               'flavour': 'asan'}],
 'deadline': {'quick': 300, 'thorough': 1200},
 'rule': 'one registry entry per function x instantiation, each a deterministic nest of loops over its whole domain: integer helpers (log2, '
         'next_power_of_2, is_power_of_2, div, mod, diff, clamp, ceil_div, ceil_div_signed, truncation_check (64 type pairs), enum from_int) over '
         'every 8/16-bit value (pairs: all on 8 bit; every 16-bit first operand x the lattice, thorough: x lattice and every 16th value; clamp: all '
         '8-bit triples, all lattice triples on 16 bit, on 32/64 bit 64 lattice points in quick and the whole lattice in thorough) and the 32/64-bit '
         'boundary lattice, float/double special values; at_optional / maybe_front / maybe_back / pop_back / pop_front / find_opt(_mapped,_iterator) '
         '/ array::from_range over all sequences over {0,1,2} up to length 4 (thorough 6) with every index in 0..size+2 and 8 huge indices; '
         'grid::at_optional for N=1,2,3 with every position in the margin and huge coordinates; runtime_index over all u8/u16 values; cast::dynamic; '
         'enum from_string, extract_from_string (18 instantiations), io::get / peek / read / read_chars / stream_to_string over all strings over '
         '{-,a,1,space} up to length 4 (thorough 6) plus integer-limit strings; is_flag up to length 5 (thorough 8); parse_string / '
         'phrase_parse_string (19 grammars) up to length 4 (thorough 7); narrow / widen over all strings over 8 (wide) characters incl. invalid ones '
         'up to length 4 (thorough 5); next_arg, options::parse (11 parsers) over all argument vectors up to length 3 (thorough 5) over '
         '{-,--,-a,--a,x,1}, parse_help with --help/-h added (length 3, thorough 4); every fcppt::filesystem function over 26 paths of a private '
         'tree (missing, empty, 5-byte, directory, dangling / looping / valid symlinks, names with / without / only extension, trailing slash and '
         'dot) and 20 lexical paths. string_view arguments live in exact-size heap blocks. A case is non-trivial when it reaches the guard or its '
         'boundary: zero divisor, value at or across a type limit, empty or one-element container, index in {size-1,size,size+1,...}, string '
         'beginning with - or space, non-ASCII string, path that is not a readable regular file / has no extension (per-entry predicate in '
         'harness/C01*.cpp); cases are distinct (entry, input) tuples; environment enumerations: widen_locale / to_std_wstring_locale / '
         'narrow_locale / from_std_wstring_locale x {codecvt_utf8<wchar_t>, scripted facet: 21 scripts (normal + 5 answers x call 1..4) x max_length '
         '{1,4,6}} x all concatenations of up to 3 (thorough 4) of the 12 byte tokens {a, 2-/3-/4-byte sequence, their 6 truncated prefixes, 0xFF, '
         '0x80} resp. up to 4 (thorough 5) of the 7 wide tokens {a, e-acute, euro, U+1F600, 0xD800, 0x110000, -1}; 18 stream consumers '
         '(stream_to_string, get, peek for char and wchar_t, read_chars(0,1,2,4), read<u8,u16,u32>, extract<int,string,char>, parse_stream(int_), '
         'phrase_parse_stream(words, space)) x 42 texts (all over {a,1,space} up to length 3, thorough 4, plus two longer) x chunk 1..3 x (normal + '
         '6 answers x event 1..4, thorough 1..6) x 4 initial iostates x 4 exception masks, plus ifstream / wifstream on a directory, a missing path '
         'and a file x 4 masks; pop_back / pop_front / array::from_range / find_opt(_mapped) / runtime_index / extract_from_string with element '
         'copies, comparisons, callbacks and operator>> that throw at their k-th use',
 'assumptions': ['the registry is the claim: functions not registered are not covered',
                 "inputs excluded by the documentation or whose exact result is not representable are skipped and listed under 'skipped:<entry>' "
                 '(log2(0), next_power_of_2 above the largest power, signed min / -1, |a-b| overflow, strip_prefix with a non-prefix)',
                 'documented exceptions are accepted only with their exact type: std::runtime_error from widen (widen_locale.hpp), fcppt::exception '
                 'from filesystem::open_exn',
                 'harness runs use LC_ALL=C.UTF-8 (string_conv_locale() is locale(""))',
                 'resource exhaustion (read_chars with a count that cannot be allocated, ill-formed grammars such as *epsilon) is outside the domain',
                 'the file system part assumes an ordinary POSIX file system below --tmp and a non-root-restricted user; reference = '
                 'stat/opendir/open',
                 'with a non-empty exceptions() mask on the stream passed in, std::ios_base::failure escaping is accepted (the standard-documented '
                 "channel the caller asked for), and with badbit in the mask so is the stream buffer's own exception (the standard rethrows it); "
                 'with an empty mask nothing may escape',
                 'the scripted codecvt facet follows the codecvt contract for from_next / to_next in every answer; results are compared with the '
                 'strict UTF-8 reference only when every answer was a correct conversion (normal, partial after one character) and, in the narrow '
                 'direction, max_length() is truthful; std::codecvt_utf8 is compared in the narrow direction only for encodable input',
                 'fcppt::widen / fcppt::narrow use std::locale("") and cannot be given a facet; the facet family covers the four *_locale entry '
                 'points that reach fcppt::impl::codecvt in the narrow-string configuration',
                 'a user exception (throwing element type, comparison, callback, operator>>) must propagate unchanged with balanced construction / '
                 'destruction counts; after a throwing pop the container holds the original or the original minus the popped element',
                 'shards in which a defect shows as a hang use a 10 s watchdog and stop after 3 restarts (then reported as not exhaustive)',
                 "information only (counters['info:<sig>'], never a verdict) because neither the property text nor the documentation nor the "
                 'signature promises them: the values returned by the undocumented internal helpers options::impl::is_flag and next_arg (their '
                 'totality is a verdict); create_directory / create_directories_recursive reporting an error although the path is a directory '
                 'afterwards; math::clamp<float/double> with a NaN bound; widen/narrow results with a facet that answers `partial` although input '
                 'and room were left or that understates max_length(); the state a container is left in after its element type threw during pop_back '
                 '/ pop_front; whether array::from_range copies elements before it compares the size',
                 'path results of replace_extension / remove_extension / strip_prefix are compared up to redundant separators (lexically_normal); '
                 'io::read_chars(stream, 0) has no expected result; integer-limit strings are run through the integer grammars for totality only']}

PROP['rule'] += ' Session-3 extension (C01_more*.cpp, 111 further registry entries): time::gmtime/localtime/output_tm over a time_t boundary lattice x 6 TZ strings (documented std::runtime_error only), error::strerror/strerrno, error_code_to_string, getenv, type_name*, args/args_from_second on exact-size argv blocks, io::narrow_string/widen_string and from/to_std_string_locale over byte strings <= 3 incl. 0x00/0x80/0xFF, enum_ max_value/min_value/names_array/index_of_array/array_output, options::indent and error output, parse error/position output, cast::dynamic/dynamic_cross/dynamic_any on an 11-class hierarchy (every dynamic type x static view x target, against the built-in dynamic_cast), unique_ptr/shared_ptr pointer casts, variant::dynamic_cast_, promote_int/enum_to_underlying/safe_numeric, and the floating point helpers (angle_between, signed_angle_between, atan2, normalize, hypersphere_to_cartesian, point_rotate, rotation_*, infinity_norm, exponential_pade, interpolation::*, stretch_relative, grid::interpolate inside the cells) over a finite 16-value lattice without inf/NaN: totality only, values are info counters.'

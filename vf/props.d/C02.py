PROP = {
 'title': 'Parser combinators implement ordered-choice (PEG) semantics for every grammar',
 'level': 'exploration',
 'engine': 'P',
 'technique': 'exhaustive enumeration of all grammar ASTs up to a node count (built at run time through fcppt\'s own type erasure) times all skippers times all input strings up to a length, against a reference PEG interpreter; plus a statically typed grammar family',
 'level_text': 'Every well-formed grammar AST with at most 3 (thorough 4) nodes over the stated leaf/combinator alphabet is turned into a real '
               'fcppt.parse parser and run on every input string over a small alphabet up to length 4 (thorough 5) with every skipper of '
               'the family; success/failure, the fatal flag and the rendered result value are compared with an independent reference '
               'interpreter of the documented semantics. This quantifies over programs and inputs, which is what the property states.',
 'level_note': 'grammars beyond the node bound only through the static family; in the erased family every node passes through make_base + convert and children results are strings (unit elision / tuple flattening / variant de-duplication are covered by the static family); lexeme can only wrap statically typed parsers; error texts are not compared here (C12)',
 'binaries': [{'name': 'C02', 'sources': ['harness/C02.cpp', 'harness/C02_w.cpp'], 'libs': ['core'], 'flavour': 'asan'},
              {'name': 'C02s', 'sources': ['harness/C02s.cpp', 'harness/C02_static.cpp'], 'libs': ['core'], 'flavour': 'asan'}],
 'compile_probes': [{'name': 'not_(type_erased_parser)', 'source': 'harness/C02_probe_erased.cpp', 'flags': ['-DC02_PROBE_KIND=1']},
                    {'name': 'repetition/plus/optional(type_erased_parser)', 'source': 'harness/C02_probe_erased.cpp', 'flags': ['-DC02_PROBE_KIND=2']},
                    {'name': 'sequence/alternative(type_erased_parser)', 'source': 'harness/C02_probe_erased.cpp', 'flags': ['-DC02_PROBE_KIND=3']},
                    {'name': 'fatal/ignore(type_erased_parser)', 'source': 'harness/C02_probe_erased.cpp', 'flags': ['-DC02_PROBE_KIND=4']}],
 'deadline': {'quick': 300, 'thorough': 1500},
 'rule': 'one case per (grammar AST, skipper, input string); grammars: all well-formed ASTs (no repetition/separator/list of a nullable parser) with <= N nodes over 12 leaves, 10 unary and 2 binary combinators; inputs: all strings over {a,b,space} (plus {1,-} when a numeric leaf occurs) up to the length bound; a case is non-trivial when the reference outcome is success or a fatal failure',
 'assumptions': ['negative lookahead absorbs fatal errors of its operand (DESIGN.md section 5)',
                 'a skipper failure after a repetition element discards that element (follows the implementation, documented as (impl) in appendix A)',
                 'named keeps the fatal flag (finding F19, fixed)'],
}

PROP['rule'] += " Skippers: epsilon, space, char_set{' '}, literal(' '), *literal(' '), literal>>literal, *(literal>>literal), char_set>>literal, *char_set; the quick tier runs all nine for grammars of up to 2 nodes (wchar_t: 1 node) and five of them for 3 nodes."

PROP['rule'] += (" Scale lattice: *char_ on 0..2^20 characters and the space() skipper in front of a literal on 0..2^20 blanks (a repetition "
                 "whose stack use grows with the input dies under ASan).")

PROP = {
 'title': 'Command-line parsing accounts for every argument and matches its reference',
 'level': 'exploration',
 'engine': 'P',
 'technique': 'a family of option-parser compositions x all argument vectors up to a length over each shape\'s token alphabet, against a reference interpreter of the documented left-to-right consumption semantics; constructor matrix for well-/ill-formed definitions',
 'level_text': 'For each of about 60 parser compositions (argument, flag/switch, option, unit, unit_switch, optional, many, product/apply, sum, '
               'commands, base, parse_help; value types int, unsigned, string, enum) every argument vector up to length 4 (thorough 6) over '
               'the shape\'s own names, foreign flags, "-", "--", numbers and words is parsed by the real library and by a reference '
               'interpreter working on plain token lists; acceptance and the rendered record must agree. The reference keeps a consumption '
               'log and its accounting invariant (consumed multiset = argument vector) is asserted on every accepted vector, so agreement '
               'transfers the invariant to the implementation.',
 'level_note': 'token -> value conversion in the reference uses fcppt::extract_from_string itself (checked under C15/C01); shapes beyond the family are not covered; many() around nullable parsers is excluded (does not terminate by design)',
 'binaries': [{'name': 'C03', 'sources': ['harness/C03.cpp', 'harness/C03_b.cpp', 'harness/C03_c.cpp', 'harness/C03_ctor.cpp'], 'libs': ['core', 'options'], 'flavour': 'asan'}],
 'deadline': {'quick': 300, 'thorough': 1500},
 'rule': 'one case per (shape, argument vector); vectors: all sequences up to the length bound over the shape\'s token alphabet (its long/short names, --zz, -, --, -1, 7, x, sub-command names); a case is non-trivial when the reference accepts the vector; plus one case per constructor configuration',
 'assumptions': ['optional/many continue from the state before the failed attempt (findings F8, fixed)',
                 'negative numbers are flags to next_arg (documented behaviour of is_flag), so "-1" is never a positional'],
}

PROP['rule'] += ' Shape family (session 3): additionally unit as left/right part of sum and product and under optional, and every leaf kind (switch, flag, option, unit_switch) in every composition position it had not been seen in (20 more shapes).'

PROP['rule'] += " The second pass per shape (own names extended / re-dashed, vectors <= 3) also contains the empty string as a token."

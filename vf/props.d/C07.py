PROP = {'title': 'raw_vector and buffer behave like std::vector for every operation history',
 'level': 'model_checking',
 'engine': 'H',
 'technique': 'explicit-state BFS over operation histories of the real raw_vector/buffer with std::vector as lock-step reference, to a '
              'fix-point inside size caps',
 'level_text': 'Breadth-first search over all operation histories (every constructor, every position/count/aliasing choice) executed on '
               'the real container with a counting allocator under ASan, deduplicated by canonical state and run to a fix-point inside the '
               "size caps: the claim then covers histories of any length that stay inside the caps, which is what 'for every operation "
               "history' needs.",
 'level_note': 'size caps (single vector 5/6, pair 2/3, buffer read area 3/4); element type int; capacity slack is truncated in the '
               'canonical state (argument in harness/C07.cpp); std::vector is the trusted reference',
 'binaries': [{'name': 'C07', 'sources': ['harness/C07.cpp'], 'libs': ['core'], 'flavour': 'asan'}],
 'deadline': {'quick': 300, 'thorough': 1500},
 'rule': 'BFS over histories of raw_vector/buffer operations; a transition is non-trivial when it changes the canonical state (contents, '
         'truncated capacity slack, null-storage flag); states are distinct canonical keys',
 'assumptions': ["moved-from source of a move *assignment* is 'valid but unspecified': the model adopts what the implementation left there "
                 'after checking size<=capacity',
                 'positions outside [begin,end], self-range insertion and written(k>write_size) are preconditions and outside the alphabet',
                 '128-bit hashes of canonical strings are used for deduplication (collision probability negligible)']}

PROP['rule'] += ' dynamic_array<int, counting allocator> for every size of the growth lattice (0..8193) and both constructors: size(), [data, data_end) is exactly the allocated block (written and read back under ASan), const accessors, block returned once with the same size (also for size 0).'

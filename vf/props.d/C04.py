PROP = {'title': 'optional / either / variant combinators satisfy their algebraic specification',
 'level': 'exploration',
 'engine': 'E',
 'technique': 'exhaustive enumeration of all values of a 3-element domain, all complete function tables between the finite domains and all '
              'containers up to length 4, on the real templates, against a hand-written tagged-union reference with call probes in every '
              'continuation',
 'level_text': 'Every optional/either/variant value over the finite domains, every function between these domains (as a complete lookup '
               'table: all 27 D->D, all 64 D->optional<D>, all 125 D->either<E,D>, all 3^9 D x D->D, ...), every value category of every '
               'argument and every container up to length 4 is run through the real fcppt templates; results, the arguments each '
               'continuation received and the number of times it was invoked are compared with a tagged-union model written out by hand, '
               'and the functor/applicative/monad laws are evaluated on all (value, f, g) triples. Because the templates are parametric in '
               'the element type, agreement on a 3-element domain for all functions is what the for-all-values-and-functions claim needs; '
               'no test enumerates functions.',
 'level_note': 'element types are small value classes whose move operations poison the source, so use-after-move and moves out of lvalue '
               'arguments show up as wrong values; the combinators named in the statement are run again (harness/C04_rich.hpp) with a '
               'heap-backed payload (std::string far beyond the small-string buffer + int, both must agree) and a move-only payload '
               '(unique_ptr), each with continuations taking their argument by value, by const reference and as a forwarding reference, '
               'for const&/&/&& sources (ill-formed combinations are left out at compile time); class hierarchies (harness/C04_poly.cpp): '
               'try_call with thrown objects of classes derived from Exception (user hierarchy with virtual payload, std::exception '
               'hierarchy via what()/dynamic_cast), to_exception throwing derived objects, variant<Base,Derived> in both orders; n-ary '
               '(n=3) applications use one injective recording function instead of all tables; quick tier: containers up to length 3, '
               'binary tables and the rich/poly match tables into a 2-element codomain, monad::do_ on either with 25 of the 125 first-step '
               "tables; result category (harness/C04_refs.cpp): the combinators whose declared result is the continuation's result "
               '(variant::match/apply decltype(auto); optional::maybe/maybe_multi invoke_result_t<Default>; either::match '
               'invoke_result_t<SuccessFunction,...>) are run with continuations returning T, T&, T const& and T&& for const&/&/&& '
               'sources; to_exception, the get_unsafe family and optional::deref are checked as references into their source; combinators '
               'that constrain their continuation with invocable_move (object result) or accept only void (maybe_void) cannot be given a '
               'reference-returning continuation and are not part of this dimension',
 'binaries': [{'name': 'C04',
               'sources': ['harness/C04.cpp',
                           'harness/C04_either.cpp',
                           'harness/C04_variant.cpp',
                           'harness/C04_poly.cpp',
                           'harness/C04_refs.cpp',
                           'harness/C04_rich_val.cpp',
                           'harness/C04_rich_heap.cpp',
                           'harness/C04_rich_move_only.cpp'],
               'libs': [],
               'flavour': 'asan'}],
 'compile_probes': [{'name': 'variant::match(lvalue_variant,T&_continuations)',
                     'source': 'harness/C04_probe_lvalue_ref.cpp',
                     'flags': ['-DC04_PROBE_KIND=1']},
                    {'name': 'optional::maybe(lvalue_optional,T&_continuation)',
                     'source': 'harness/C04_probe_lvalue_ref.cpp',
                     'flags': ['-DC04_PROBE_KIND=2']},
                    {'name': 'either::match(lvalue_either,T&_continuations)',
                     'source': 'harness/C04_probe_lvalue_ref.cpp',
                     'flags': ['-DC04_PROBE_KIND=3']}],
 'deadline': {'quick': 240, 'thorough': 1200},
 'rule': 'nested loops over explicit finite domains: optional<D> (4 values), either<E,D> (5), their nestings (5 / 7), variant<A,B,C> (7), '
         'value category of each argument (const&, &, &&), unary function tables (27 D->D, 64 D->optional<D>, 125 D->either<E,D>, 8 '
         'predicates, 9 E->D, 4 E->E, 27x9x9 match triples, 3^7 variant visitors), binary tables D x D->D (3^9 thorough, 2^9 quick), '
         'comparison tables per variant alternative (2^9, 2^4, 2^4), containers of length <= 4 (<= 3 quick) over the 4 resp. 5 values, '
         'scripted next()-sequences for loop, function lists for first_success; reference = integer-coded tagged union computed with plain '
         'table lookups; a case is non-trivial when a value is present / the success or mixed branch is taken so that at least one '
         'continuation must run (for containers: non-empty; for comparisons: both sides hold a value of the same alternative); cases are '
         'distinct argument tuples; rich shards: payload family {val, heap_string, move_only} x source category {const&, &, &&} x '
         'continuation style {by_value, by_cref, forward} x the same value/table domains for '
         'optional::filter/map/bind/maybe/from/alternative/combine, either::map/map_failure/bind/match/sequence/first_success, '
         'variant::match/apply (plus identity continuations that return their argument); poly shards: try_call<Exception> for Exception in '
         '{base, derived, derived2, std::exception, std::runtime_error, std::logic_error, user class} x 13 behaviours of the function (3 '
         'results, 7 thrown objects of the hierarchy, int, unrelated struct, std::runtime_error) x all 128 to_exception tables over the '
         'observed (dynamic class, payload), 5 std classes x 3 messages; variant<Base,Derived> over 9 values x all (base table, derived '
         'table) pairs; refs shards: source category x result category {T, T&, T const&, T&&} x (variant::match over all table triples '
         'into three external cells, variant::apply over all 3^7 (quick 2^7) unary visitor tables and the same tables for 49 value pairs, '
         'optional::maybe over 4x3x27, optional::maybe_multi over all binary tables x 16 pairs, either::match over 5x9x27) plus '
         'own-argument cases where the continuation returns (a reference to) the int inside the object it was handed; oracle: declared '
         'result type == continuation result type, address identity with the object the continuation returned, write-through for non-const '
         'references, zero copy/move operations on instrumented cells on reference paths; accessors: to_exception (optional/either), '
         'get_unsafe/get_success_unsafe/get_failure_unsafe/variant get_unsafe<U>, optional::deref over pointer/unique_ptr/iterator',
 'assumptions': ['basic observers (has_value/get_unsafe, has_success/get_*_unsafe, type_index/get_unsafe<T>) are used to read results; '
                 'they are cross-checked against construction in the object shards',
                 'optional::combine with both arguments empty must be empty (the documentation names only the other three cases)',
                 'ternary apply/maybe_multi/variant::apply use one injective function (every other function is that one followed by a '
                 'table lookup)',
                 'move-only element types, output operators, dynamic_cast and type_info helpers are outside this property (C05 covers '
                 'value conservation)',
                 "try_call: an object of a class derived from Exception is 'an exception of type Exception' (it is caught), and the "
                 'documented result to_exception(e) is about that very object: to_exception must observe its dynamic class and derived '
                 'payload; exceptions of unrelated types (and of base classes of Exception) propagate unchanged',
                 'try_call: copies of the exception object between throw and to_exception are counted (counter '
                 'try_call:exception_object_copies) but not judged; a copy at the static type is judged through what to_exception then '
                 'sees',
                 'rich payloads: combinations that cannot compile are not instantiated (by_value/forward continuations or source-returning '
                 'combinators on an lvalue move_only source; optional::filter always passes an lvalue to the predicate, so a move_only '
                 'payload uses by_cref there); either::sequence and to_container with lvalue sources rely on the fixes b3e0bc8 / c55e90e',
                 'result category: a mismatch of the declared result type is reported at run time (signature ...:result_type) instead of a '
                 'static_assert so that a library change is a verdict, not a broken build; for by-value results only the value is compared '
                 '(no copy counts)',
                 'demoted to information counters (info:<sig> in the evidence, never a verdict) because neither the property text nor the '
                 'documentation nor the declared signature promises them: optional::alternative / optional::make_if / either::construct / '
                 'either::from_optional calling the nullary function of the branch that is NOT selected (laziness is not documented; the '
                 'selected function is still required to run exactly once and maybe/from/match/maybe_multi keep the full '
                 'exactly-once/never check the property states); either::first_success: how often, and whether, functions are called (the '
                 'documentation fixes the result only); <fn>:result_copied and optional::deref:result_copied: internal copies/moves of '
                 'instrumented cells while a reference is returned (identity of the returned object is the contract); either::try_call: '
                 'number of copies of the exception object between throw and to_exception (counter try_call:exception_object_copies)',
                 'what is left in an rvalue (&&) source after a call is never inspected; for rvalue sources the result-category cases '
                 'demand no identity with storage inside the source (except optional/either::to_exception, whose declared result T&& can '
                 'only be the held value)']}

PROP['rule'] += " either::loop on long runs: 0, 1, 2, 16, 1000, 65536, 10^6 and 4*10^6 successes before the failure (result, number of body calls)."

PROP = {
 'title': 'Intrusive list / signal membership equals the set of live connections',
 'level': 'model_checking',
 'engine': 'H',
 'technique': 'explicit-state BFS over histories of element/list (connection/signal) creation, destruction and moves on the real objects, with an explicit ring model as lock-step reference, to a fix-point inside slot caps',
 'level_text': 'Breadth-first search over all histories of creating, destroying, unlinking and moving elements and of move-constructing, '
               'move-assigning and destroying lists (also before their elements), on real heap-allocated objects under ASan; after every '
               'transition every live list is iterated forwards and backwards and compared with an explicit ring model; signals are '
               'called and the invoked callbacks, the left-fold result and the unregister callbacks are compared. Fix-point inside the '
               'slot caps, so histories of any length inside the caps are covered.',
 'level_note': 'caps: 3 lists x 5 elements (quick), 3 x 6 (thorough); 3 signals x 4 connections (quick), 3 x 5 (thorough); new objects use the lowest free slot; list move-assignment has replace semantics (DESIGN.md section 5)',
 'binaries': [{'name': 'C11', 'sources': ['harness/C11.cpp'], 'libs': [], 'flavour': 'asan'}],
 'deadline': {'quick': 300, 'thorough': 1500},
 'rule': 'BFS over histories; a transition is non-trivial when it changes the canonical state (the set of rings of heads and elements); states are distinct canonical ring sets. Re-entrant use of signals (shards signal_reentrant_*): exhaustive enumeration, for 1..5 (unregister base: 1..4) connections, of one behaviour per callback '
         '(nothing / destroy connection j != i during the emission), one behaviour per unregister callback (nothing / record empty() / record empty() and emit the signal again), the first operation '
         '(emit, or destroy connection c from outside), and whether the signal was move-constructed or move-assigned before; signatures void(int) and int(int), plain and unregister base; the '
         'recorded event sequence (callbacks invoked, unregister callbacks with the emptiness they saw, fold results) must equal that of a recursive reference interpreter over the set of live '
         'connections, followed by a quiet emission and the unregister-exactly-once count',
 'assumptions': ['an element move-constructed/assigned from an unlinked element is unlinked; a list move-assigned from an empty list is empty and its previous members are detached (uniform take-over rule, DESIGN.md section 5)',
                 'signal connections are non-movable by design; only signals are moved',
                 'a connection whose own callback is executing is never destroyed (that destroys a running std::function: outside any contract); callbacks do not add connections during an emission',
                 '128-bit hashes of canonical strings are used for deduplication'],
}

PROP = {'title': 'Textual and binary encodings round-trip losslessly',
 'level': 'exploration',
 'engine': 'E',
 'technique': 'exhaustive enumeration of all 8/16-bit values, the 32/64-bit and floating point boundary/byte-position patterns, every '
              'Unicode scalar value and all short strings over the four UTF-8 length classes through the real write/read, '
              'output/extract and narrow/widen functions, compared with an independent byte-layout, decimal and UTF-8 reference',
 'level_text': 'Every value of the stated finite domains is pushed through the real encoder and decoder (compiled fcppt core library) and '
               'the decoded value is compared with the original, the produced bytes/text with a hand-written reference (shift-based byte '
               'layout, decimal printer, UTF-8 encoder cross-checked against wcrtomb). Round-tripping is a for-all-values statement; the '
               'unit tests convert one or two ASCII/small values and never a multi-byte character, an 8-bit integer, an extreme integer '
               'or the byte layout itself.',
 'level_note': '32/64-bit integers and float/double on the boundary lattice plus every byte value at every byte position; strings: all '
               'strings up to length 6 (quick 4) over one representative per UTF-8 length class plus structured long strings '
               '(a^i X^k a^j, X^n, cyclic mixes) instead of random strings up to 40; sanitizer aborts are attributed to the announced case',
 'binaries': [{'name': 'C15',
               'sources': ['harness/C15.cpp', 'harness/C15_text.cpp', 'harness/C15_conv.cpp', 'harness/C15_locale.cpp', 'harness/C15_state.cpp', 'harness/C15_env.cpp', 'harness/C15_loglevel.cpp'],
               'libs': ['core', 'log'],
               'flavour': 'asan'}],
 'deadline': {'quick': 300, 'thorough': 1500},
 'rule': 'nested loops over explicit domains. Binary: every bit pattern of the 8/16-bit types, for 32/64-bit integers, wchar_t, char32_t, '
         'float and double the signed/unsigned boundary lattice, every byte value at every byte position, all-distinct-byte and two-byte '
         'patterns and their complements (float/double: additionally 0, denormal, min, max, inf, quiet/signalling NaN, ...), long double on '
         '16 values x sign (value round trip only); each x {little, big}: io::write bytes = MSB-first/LSB-first layout of the bit pattern, io::read returns the '
         'pattern, a second read and every shorter stream give nothing, the other order gives the byte-reversed pattern, two values in '
         'sequence; swap = byte reversal, swap twice = identity, convert(native) = identity, convert twice = identity, reverse_mem on '
         'exact-size blocks of 0..64 bytes. Text: all 16-bit and lattice 32/64-bit integers and all 8-bit values x 8 output/extract '
         'function variants (narrow, wide, fcppt::string, explicit C.UTF-8 / classic locale) under global locale C and C.UTF-8; trailing '
         'garbage and out-of-range decimal texts ([-70000,70000] for 16 bit, boundaries for 32/64 bit) must give nothing; enums with '
         '1/3/4/9 enumerators (prefix-related and case-related names): every enumerator, every ordered pair in one stream, every string '
         'of a candidate set (all strings over {a,b,c} up to length 5 (quick 4), prefixes/suffixes/case changes/extensions of the names) '
         'against exact table lookup, narrow and wide streams; the same for three enums whose to_string customisation returns '
         'std::string_view slices that are not NUL-terminated (slices of one literal, of an exact-size heap block, overlapping slices; '
         'one name a prefix of another) plus to_static; *_locale entry points: every 16-bit integer, the 32/64-bit lattice and floats '
         'whose 6-digit text is exact, through output_to_string_locale<string|wstring>, output_to_std_string_locale, '
         'output_to_std_wstring_locale, output_to_fcppt_string_locale -> extract_from_string_locale with locales built from custom '
         'numpunct<char/wchar_t> facets (grouping 3 with , or . separator, decimal comma, 3;2 and 1 groupings) in 10 (global locale, given '
         'locale) combinations: the text equals a hand-grouped decimal reference, reads back with the same locale, and a text containing '
         'a separator does not yield the value when read with the classic locale; the plain forms round-trip under each of those global '
         'locales; history: before each checked output_to_*string/extract_from_string call (8 narrow/wide/_locale variants) an earlier '
         'conversion of a user-defined type is made on the same thread whose inserter leaves one of 21 sticky states (hex, oct, showbase, '
         'showpos, uppercase, boolalpha, fill, precision, fixed, scientific, failbit, badbit, imbued locale, pending width, left, internal, '
         'unitbuf, showpoint, ...) resp. whose extractor leaves one of 8 states, for 26 integers (incl. >=8, >=10, >999, negative) per '
         'integer type, doubles, bool, enum, string, char: the text equals what the same call returned before any such conversion and reads '
         'back to the value; stream state: every vector/dim<int|unsigned,N<=3> over {0,7,8,9,10,15,16,255,4096,-1,-10}, 2x2 matrices '
         '(output only), strong_typedef<int|unsigned> and an enum x basefield{dec,hex,oct} x showbase x uppercase x showpos x (width 0 | '
         'width 8 x fill{blank,*} x adjust{left,right,internal}) on char and wchar_t streams: for width 0 the enum text is its name and the matrix text the composition of its rows written as vectors (element-wise text of vector/dim/strong_typedef is only counted), and reading from the same stream in the same state gives the value '
         'back whenever every element on its own round-trips through a plain iostream in that state; environment answers: io::write for '
         '16 arithmetic types x 2-5 values x both byte orders, io::write_chars for 0..9 chars and operator<< of vector, dim, enum and '
         'strong_typedef (char and wchar_t) against scripted stream buffers -- a sink accepting exactly k characters for every k in 0..n+1 '
         '(via xsputn/overflow and via a k-character put area), a sink that flushes a put area of 1..n characters (takes everything), a sink '
         'throwing at character k for every k<n with exceptions() none/badbit/all, a stream already in fail/bad/eof state: good() after the '
         'call implies the sink holds exactly the reference encoding, the sink always holds a prefix of it, complete sinks receive '
         'everything; io::read (6 types) and io::read_chars against scripted sources (only k<n bytes, refills of 1/3/n+2 bytes, every refill '
         'size for complete data, throwing at byte k with the three masks, failed stream): a value is returned only if it is the reference '
         'value and exactly n bytes were consumed, never from an incomplete source; hostile wide tokens: for every enumerator name / '
         'decimal token x every position x {+0x100,+0x400,+0x1F400,+0x10000,+0xFF00, every U+0100..U+017F, full-width and Arabic-Indic '
         'digit} and every insertion of U+00E9/U+20AC/U+1F600/U+0100, in the C and C.UTF-8 locales: wide enum input sets failbit and '
         'leaves the target, extract_from_string(_locale) gives nothing, narrow_locale/from_std_wstring_locale/io::narrow_string_locale do '
         'not give the ASCII name, extract_from_string<std::wstring> gives the token unchanged; vector/dim<int,N<=3 (4 thorough)> over {-2..2}^N and all pairs over the '
         'integer lattice: output text = "(a,b,...)", output->input identity, every proper prefix and every wrong delimiter rejected. '
         'Conversions: every Unicode scalar value U+0001..U+10FFFF except surrogates singly (quick: every 17th plus the boundaries of the '
         'UTF-8 length classes), all strings up to length 6 (quick 4) over {a, U+00E9, U+20AC, U+1F600}, structured long strings; each '
         'through narrow, narrow_locale, from_std_wstring(_locale), widen, widen_locale, to_std_wstring(_locale), from/to_std_string and '
         'widen(narrow). Non-trivial: binary: more than one byte and the pattern is not a byte palindrome; text: the printed form has '
         'more than one character or the type is an 8-bit type; strictness/overflow: always / unrepresentable or extreme; enum: '
         'enumerator cases always, pairs of different enumerators, non-empty non-names; vector: N>=2 with a negative or multi-digit '
         'component; conversions: the string contains a multi-byte character. Cases are distinct (function, argument) tuples',
 'assumptions': ['wchar_t is UTF-32 and the locale C.UTF-8 is installed; fcppt::string_conv_locale() is std::locale("") and sees LC_ALL=C.UTF-8',
                 'fcppt::insert_extract_locale() is the global C++ locale; it is set to C, C.UTF-8 and to locales with custom numpunct facets (only C/C.UTF-8/POSIX are installed)',
                 'the text written with a locale is compared with a grouped decimal reference for integers only; floats are checked for the round trip and for not being readable as the same value by the classic locale',
                 'only strings of valid characters are converted: U+0000, surrogates, values above U+10FFFF and malformed UTF-8 are outside the statement',
                 'negative decimal texts read into unsigned types are skipped (iostreams define them to wrap)',
                 'field width: the library applies a non-zero width to the first inserted character only ((a,b) pads the parenthesis, an enum name is '
                 'padded after its first character when left-adjusted: "r       ed"); width is not part of the statement, so for width 8 only '
                 'the round trip with the blank fill is asserted (not for left-adjusted enum names, which are counted as information)',
                 'negative elements in hex/oct and other values that plain iostreams do not round-trip in a given state are excluded from the stream-state round trip (not from the text comparison)',
                 'a stream that was already failed before the call stays failed; whether bytes reach its buffer is not asserted',
                 'for long double only the number of bytes accepted by a sink is compared (padding bytes are indeterminate)',
                 'enum input: the target is left unchanged on failure (what the code and its documentation "in case this fails, the failbit is set" imply)',
                 'audit: the following observations are recorded as info: counters and are never a verdict, because neither the property nor the documentation promises them: '
                 'vector/dim/strong_typedef text in a non-default stream state equals the composition of the elements\' own inserters (state_text; only the round trip in the same state is asserted; '
                 'matrix output is compared with its rows written as vectors, which matrix/output.hpp promises), vector input accepting a blank after the comma, '
                 'the bytes that reached a sink before a reported write failure being a prefix of the encoding, the target of a failed enum input being left unchanged, '
                 'enum output with width and left adjustment padding inside the name',
                 'insert_extract_locale() is documented as "the C locale" but returns the global locale: the plain output_to_*string/extract_from_string pair is only required to round-trip; '
                 'whether its text follows the global locale is counted (info:plain_output_follows_global_locale_not_C)',
                 'history checks compare with the text the same fcppt call returned before any state-leaving conversion, not with a prescribed format',
                 'floating point values are covered for the binary encodings only; their default-precision text form is not lossless by design',
                 'the byte layout of long double (padding bytes) is not asserted, only the value round trip; long double values are restricted to '
                 'those whose six low-order mantissa bytes are non-zero, for which the outcome does not depend on indeterminate padding bytes',
                 'wide-stream extraction of signed/unsigned char does not exist in iostreams; 8-bit types use narrow strings only']}

PROP['rule'] += " fcppt::log::level (the library's own enum with a to_string customisation): level_to_string / level_from_string / operator<< / operator>> for every enumerator and ordered pair, and a candidate set of non-names (all strings over {e,r,o} up to length 5, prefixes, suffixes, case changes, single-character edits, embedded NUL) on exact-size buffers."

PROP = {'title': 'bitfield is observationally a set of enumerators',
 'level': 'exploration',
 'engine': 'E',
 'technique': 'exhaustive enumeration of all subsets / all pairs of subsets (in both reachable storage representations) and of all '
              'operator expression trees over 4 leaves, on the real bitfield, against a std::set<int> reference',
 'level_text': 'Every subset and every pair of subsets of enums with 1, 3, 8 and 9 enumerators (and every pair from a structured family '
               'for 16, 17, 33 and 64 enumerators) is pushed through every constructor, element accessor, operator and relation of the '
               'real bitfield for each storage word type u8/u16/u32/u64, and each result is compared with set arithmetic on std::set<int>; '
               'operands are taken both as built by set() and as produced by operator~, which are the only storage states an expression '
               'can reach, so the for-all-pairs claim covers results "however they were computed". No unit test enumerates enum sizes that '
               'leave the last word partly unused against every operator.',
 'level_note': 'enums with more than 9 enumerators only on the structured family; expression trees exhaustively to depth 2, depth 3 '
               '(thorough) over the distinct storage values of the depth<=2 trees; the storage array is read only to classify the '
               'signature of an already established violation (suffix :padding_bits_observable = storage bits at or above the enum size '
               'are set and ==/hash/is_subset_eq see them, the F14 class); proxy_assign:<form>:destination|source_modified|return = an '
               'assignment through bitfield::reference in the named value category did not make the destination bit equal to the source '
               'bit, changed something else, or returned a reference that is not the destination (temp_source on one bitfield is the '
               "former finding 'x[e] = x[e2] rebinds the temporary proxy'); proxy_xfer/proxy_chain use a reduced family of sets and, for "
               'more than 9 enumerators, the enumerators on both sides of every 8/16/32-bit word boundary plus first/middle/last',
 'binaries': [{'name': 'C10',
               'sources': ['harness/C10.cpp', 'harness/C10_b.cpp', 'harness/C10_c.cpp', 'harness/C10_d.cpp'],
               'libs': [],
               'flavour': 'asan'}],
 'deadline': {'quick': 600, 'thorough': 1500},
 'rule': 'nested loops over explicit domains: all 2^n subsets for n<=9 enumerators (family of empty/full/singletons/co-singletons/'
         'prefixes/suffixes/even/odd/per-word sets/word-boundary pairs for n=16,17,33,64; boundary members only for 33 and 64 in the quick '
         'tier) x word types u8,u16,u32,u64; per subset: 10 ways of construction, ~ and self operations, set/get/operator[]/proxy per '
         'enumerator; proxy assignment in every value category (15 forms: source temporary / named / named const / std::move(named) / '
         'copy- and move-constructed proxy / const_reference temporary and named / bool from get and from a cast / set(e, proxy) / swap via '
         'bool, destination temporary or named, return value checked) with model destination bit := source bit and nothing else changes: '
         'proxy_copy = one bitfield x[e]=x[e2] for every subset and (e,e2), plus p=p and two proxies of one bit; proxy_xfer = two '
         'different bitfields a[e]=b[f] (same and different enumerator, equal and different contents; all 8x8 pairs of subsets and all '
         '(e,f) for 3 enumerators; for 8/9 enumerators every subset (thorough) or the family empty/full/even/odd/singletons/co-singletons '
         '(quick) x that family x all (e,f); for larger enums the family at the word-boundary enumerators) incl. conversion of const and '
         'non-const proxies to value_type; proxy_chain = x[e]=y[f]=z[g] with temporaries, named proxies, a bool tail and a const tail over '
         'three bitfields in the 5 aliasing patterns (a,b,c)(a,a,a)(a,b,a)(a,a,b)(a,b,b), all triples of subsets for <=3 enumerators, of '
         'empty/full/even/odd otherwise; object(other.array()) and x.array()=other.array() copies; per ordered pair of operands (each set as built by set() and as ~ of its '
         'complement): | & ^ |= &= ^= and A&~B, then == != hash std::hash is_subset_eq; expression trees over leaves L0..L3 with nodes '
         '~, set(first,true), set(last,false), |e, | & ^ |= &= ^=. Oracle = std::set<int> arithmetic; every result must have the '
         'reference members (get) and be ==, hash-equal and mutually is_subset_eq to the same set built with set(). Non-trivial: '
         'construct/self: non-empty set; not: the last storage word has unused bits; element: more than one enumerator; proxy_copy: '
         'source and target membership differ; proxy_xfer: destination and source bit differ; proxy_chain: the tail bit differs from '
         'one of the two destinations; binary_ops: A and B intersect and differ (|,&,^ give three different non-empty sets); '
         'relations: equal sets in different representations, or one a proper subset of the other; expr: the top operator yields a set '
         'different from its operands. Cases are distinct argument tuples / expression texts (each expr3 shard additionally announces '
         'one bookkeeping case for the unchecked recomputation of its operands)',
 'assumptions': ['enumerators are exactly 0..fcppt_maximum (fcppt.enum requirement); values outside are a precondition violation and not used',
                 'object(no_init) and arbitrary words written through object(array_type) / array() expose raw storage and are outside the set '
                 'abstraction (only copies of another bitfield\'s array are used)',
                 'the state of a moved-from proxy is not inspected',
                 'audit: the number of times init() invokes its function is not promised by the documentation; a count different from '
                 'the number of enumerators is recorded as counter info:construct:init_calls and is never a verdict (formerly signature '
                 'construct:init_calls)',
                 'the number and layout of storage words is an implementation detail: it is read only as a deduplication key for depth-3 '
                 'expression trees and to choose between the signature suffixes :padding_bits_observable and :eq/hash/is_subset_eq_same_members '
                 'of an observationally established violation',
                 'depth-3 expression trees are enumerated modulo identical operand storage (operators are pure functions of their operands)',
                 'hash is only required to be equal for equal sets; collisions between different sets are counted as information',
                 'underlying_value and output are not part of the statement and not checked']}

PROP['rule'] += ' underlying_value (single-word bitfields): bit i <=> enumerator i, and equal for equal member sets, checked for every result that goes through expect().'

PROP = {'title': 'bitfield is observationally a set of enumerators',
 'level': 'exploration',
 'engine': 'E',
 'technique': 'exhaustive enumeration of all subsets / all pairs of subsets (in both reachable storage representations) and of all '
              'operator expression trees over 4 leaves, on the real bitfield, against a std::set<int> reference',
 'level_text': 'Every subset and every pair of subsets of enums with 1, 3, 8 and 9 enumerators (and every pair from a structured family '
               'for 16, 17, 33 and 64 enumerators) is pushed through every constructor, element accessor, operator and relation of the '
               'real bitfield for each storage word type u8/u16/u32/u64, and each result is compared with set arithmetic on std::set<int>; '
               'operands are taken both as built by set() and as produced by operator~, which are the only storage states an expression '
               'can reach, so the for-all-pairs claim covers results "however they were computed". No unit test enumerates enum sizes that '
               'leave the last word partly unused against every operator.',
 'level_note': 'enums with more than 9 enumerators only on the structured family; expression trees exhaustively to depth 2, depth 3 '
               '(thorough) over the distinct storage values of the depth<=2 trees; the storage array is read only to classify the '
               'signature of an already established violation (suffix :padding_bits_observable = storage bits at or above the enum size '
               'are set and ==/hash/is_subset_eq see them, the F14 class); proxy=proxy:not_assigned = x[e] = x[e2] between two '
               'non-const proxies rebinds the temporary proxy instead of copying the bit',
 'binaries': [{'name': 'C10',
               'sources': ['harness/C10.cpp', 'harness/C10_b.cpp', 'harness/C10_c.cpp', 'harness/C10_d.cpp'],
               'libs': [],
               'flavour': 'asan'}],
 'deadline': {'quick': 300, 'thorough': 1500},
 'rule': 'nested loops over explicit domains: all 2^n subsets for n<=9 enumerators (family of empty/full/singletons/co-singletons/'
         'prefixes/suffixes/even/odd/per-word sets/word-boundary pairs for n=16,17,33,64; boundary members only for 33 and 64 in the quick '
         'tier) x word types u8,u16,u32,u64; per subset: 10 ways of construction, ~ and self operations, set/get/operator[]/proxy per '
         'enumerator, x[e]=x[e2] per enumerator pair; per ordered pair of operands (each set as built by set() and as ~ of its '
         'complement): | & ^ |= &= ^= and A&~B, then == != hash std::hash is_subset_eq; expression trees over leaves L0..L3 with nodes '
         '~, set(first,true), set(last,false), |e, | & ^ |= &= ^=. Oracle = std::set<int> arithmetic; every result must have the '
         'reference members (get) and be ==, hash-equal and mutually is_subset_eq to the same set built with set(). Non-trivial: '
         'construct/self: non-empty set; not: the last storage word has unused bits; element: more than one enumerator; proxy_copy: '
         'source and target membership differ; binary_ops: A and B intersect and differ (|,&,^ give three different non-empty sets); '
         'relations: equal sets in different representations, or one a proper subset of the other; expr: the top operator yields a set '
         'different from its operands. Cases are distinct argument tuples / expression texts (each expr3 shard additionally announces '
         'one bookkeeping case for the unchecked recomputation of its operands)',
 'assumptions': ['enumerators are exactly 0..fcppt_maximum (fcppt.enum requirement); values outside are a precondition violation and not used',
                 'object(no_init), object(array_type) and the mutable array() accessor expose raw storage and are outside the set abstraction',
                 'depth-3 expression trees are enumerated modulo identical operand storage (operators are pure functions of their operands)',
                 'hash is only required to be equal for equal sets; collisions between different sets are counted as information',
                 'underlying_value and output are not part of the statement and not checked']}

PROP = {
 'title': 'Parse stream reports true line/column and rewinds exactly',
 'level': 'model_checking',
 'engine': 'H',
 'technique': 'explicit-state BFS over histories of get_char / get_char_error / get_position (into 3 slots) / set_position(slot) on the real '
              'fcppt::parse::detail::stream over std::basic_istringstream for every text up to a length cap, with (text, index) as lock-step '
              'reference, to a fix-point; plus exhaustive straight-line read-all/rewind-all over all texts up to length 12, exhaustive '
              'single-fault enumeration of the underlying streambuf, and exhaustive enumeration of the error texts of the character-level parsers',
 'level_text': 'Breadth-first search over all operation histories whose first operation chooses the text (every text over {a, newline, '
               'space, tab} up to the cap) and whose further operations read characters, save the position into one of three slots or '
               'restore a saved slot, executed on the real stream class for char and wchar_t and compared step by step with the '
               'documented model (offset = index, line = 1 + newlines before, column = distance to the preceding newline + 1); states are '
               'deduplicated by a canonical key that includes the observable state of the underlying std stream, and the search runs to a '
               'fix-point, so every interleaving of any length over these texts is covered -- which is what the for-all-histories claim '
               'needs. Engine E passes extend the text length for the fixed read-all / rewind-to-every-position schedule, enumerate every '
               'position of a single read/seek fault of the underlying buffer, and every (text, offset, literal or character set, entry '
               'point) combination for the error texts.',
 'level_note': 'history search: texts up to length 4 (quick) / 6 (thorough), 3 slots; straight-line pass: length 10 / 12 (plus a wchar_t '
               'alphabet of characters whose low byte or low 16 bits equal the newline, length 7 / 9); char alphabet {a, newline, 0xFF, 0x80}: '
               'history search length 4 / 6, straight-line 8 / 10, plus every one- and two-byte text and fcppt::io::get/peek on all 256 byte '
               'values (pairs) and all wchar_t values below 0x20000; parse stream built after 1 or 2 istream::get() calls: history search '
               'length 4 / 5, straight-line 8 / 10; faults: texts up to length 5 / 7, one '
               'fault per run; stream states and retries (both tiers): 10 texts up to length 2, std stream handed over in {good, eof, fail, bad, '
               'fail|bad, eof|fail} x exceptions() in {none, bad, fail|bad} x 20 entry points, and first operation (read to the end / device '
               'throws at read 1..n+1, through get_char or phrase_parse(*basic_char)) x optional set_position(start) x second operation of '
               'each of the 20 kinds; error texts: all texts up to length 4 / 6, plus the offending character at every line L and column C with L + C <= 13 (every '
               'location reachable within 12 characters; text = L-1 newlines, C-1 times a, the offending letter), plus reported line x column over '
               'the lattice {1,2,9,10,11,19,20,99,100,101,109,110,111,999,1000,1001,1099,1100,9999,10000,65535,65536}^2; straight_long: '
               'texts (a^k newline)^(l-1) a^(c-1) for l, c over the same lattice (k = 0; k = 1 against small c and on the diagonal) with a '
               'linear read / rewind-to-boundaries / re-read schedule; no random longer texts (nothing is sampled)',
 'binaries': [{'name': 'C12',
               'sources': ['harness/C12.cpp', 'harness/C12_straight.cpp', 'harness/C12_fault.cpp', 'harness/C12_errtext.cpp', 'harness/C12_state.cpp'],
               'libs': ['core'],
               'flavour': 'asan'}],
 'compile_probes': [{'name': 'parse_stream<deduced>', 'source': 'harness/C12_probe_parse_stream.cpp', 'flags': []}],
 'deadline': {'quick': 300, 'thorough': 2400},
 'rule': 'hist_*: BFS over histories CHOOSE_TEXT(t); {get_char | get_char_error | s=get_position | set_position(s)}*; a transition is '
         'non-trivial when it changes the canonical state (text, index, read-at-end flag, sorted saved indices, std stream state); states '
         'are distinct canonical keys. straight<..>: one case per text (read all while saving every position, read past the end, rewind '
         'to every saved position from the end-of-input state and re-read to the end, rewind ascending between healthy states, jumps); '
         'non-trivial when the text contains a newline (the bytes / prefix / stream_bytes variants are the same schedule over the byte '
         'alphabet, on a parse stream built after k = 1, 2 characters were read from the std stream, and over every one- and two-byte '
         'text). io::get/peek: one case per stream content (1 or 2 characters), peek and get before every character and twice at the '
         'end; non-trivial when a value is above 127. fault_direct/fault_phrase: one case per (text, fault mode in {eof once, eof '
         'forever, read throws, seek returns -1, seek throws}, k) for every k the script reaches, plus the fault-free run; non-trivial '
         'when a fault is injected. state_initial / state_retry: one case per (text, characters read before, state, mask, entry point) resp. (text, device, first '
         'operation, set_position in between or not, mask, second entry point); the case family carries the exceptions() mask and the '
         'entry point, so a process abort is reported as crash:state_*[exceptions=..]:<entry point><Ch>:<kind>; non-trivial when the '
         'std stream is not good() at the call (all retry cases). errtext: one case per (text, offset, literal c or non-empty subset S of the alphabet, entry point in '
         '{parser.parse, parse(), skipper::run, phrase_parse(char_, skipper)}); non-trivial when the character at the offset does not '
         'match, i.e. an "Expected ..., got ..." text is produced. errgrid: same case shape as errtext for the texts newline^(L-1) a^(C-1) X, '
         'X each letter, every literal/set not containing X, every entry point (always non-trivial). errloc(l, c, fill): one case per '
         'reported location, 8 located messages (literal, char_set, skipper literal, skipper char_set x 2 entry points) plus operator<< '
         'of location; non-trivial when a number has more than one digit. straight_long(l, c, k): one case per text; non-trivial when '
         'a counter passes 255',
 'assumptions': ['the model is the documentation of fcppt::parse::basic_stream: index i, line = 1 + newlines among a_1..a_i, column = i - j + 1',
                 'a parse stream built on a std stream from which characters were already read: the documentation does not say what the '
                 'offset of its positions counts from, so the offset value is not examined there; enforced are rewind/re-read equality, '
                 'equality of positions taken at the same index, line/column counted from where the parse stream started (1:1), and that '
                 'the underlying buffer has consumed exactly (characters read in advance + model index) characters',
                 'wchar_t(-1) equals WEOF and is excluded from the io::get/peek enumeration',
                 'set_position is only called with values returned by get_position on the same stream (documented precondition)',
                 'the three position slots are interchangeable, the canonical key sorts them (argument in harness/C12.cpp); 128-bit hashes of '
                 'canonical strings are used for deduplication',
                 'fault oracle is permissive about recovery: after a fault fired, nothing / fcppt::parse::detail::exception are accepted until '
                 'a set_position returns normally; what is enforced is: never a character from the failing read, never a wrong character '
                 'or position, no exception without a fault, a throwing buffer gives a parse failure through phrase_parse_stream',
                 'error texts: "Line l:c: Expected " prefix with the location right after the offending character and ", got <char>" suffix are '
                 'compared exactly; the middle must be the character for literal and must name every element for char_set (unordered set); '
                 'end of input gives the documented text "EOF"',
                 'stream states / retries: on a std stream that is not good() an entry point must either behave exactly as on a healthy '
                 'stream or report nothing / a failure without consuming; fcppt::parse::detail::exception may reach the caller only from the '
                 'stream-level entry points (member/free get_char, get_char_error, parser.parse(), skipper::run) -- parse, phrase_parse, '
                 'parse_stream and phrase_parse_stream must return a failure; std::ios_base::failure may escape only if the caller set an '
                 'exceptions() mask, the exception of the streambuf only if that mask contains badbit; the process must not terminate',
                 'located messages: the numbers are read back from the text (plain decimal) and compared as integers with the model, and '
                 'the text is compared with the std::to_string rendering; only literal, char_set, skipper::literal and skipper::char_set print '
                 'a location (they are the only users of detail::expected); beyond text length 6 the error texts are enumerated over the '
                 'structured family (runs of newlines and of a) because the location in the message depends on the text only through the '
                 'stream position, which the straight-line pass checks for every text up to length 12',
                 'std::basic_istringstream / std::basic_istream of libstdc++ are the trusted underlying streams; the custom streambuf is '
                 'unbuffered (one uflow per get)',
                 'random longer texts of the quantifier are not run (no sampling); the exhaustive bound 12 of the quantifier is reached by the '
                 'straight-line pass in the thorough tier only',
                 'parse_stream(parser, istream) is covered by a compile probe only (its Skipper template parameter cannot be deduced)'],
}

PROP = {'title': 'Grid positions, offsets and ranges form an exact row-major bijection',
 'level': 'exploration',
 'engine': 'E',
 'technique': 'exhaustive enumeration of all grid sizes (extents 0..4, N = 1,2,3), all (min, sup) pairs with components 0..5 and all '
              'positions in a margin around the grid against explicit nested loops in storage order',
 'level_text': 'Every size, every (min, sup) pair and every margin position of the stated finite domain is run through the real '
               'templates (offset, pos_range, pos_ref_range, at_optional, resize, map, apply, fill, clamp helpers) under ASan/UBSan and '
               'compared cell by cell / visit by visit with plain nested loops; the carry logic of the position iterator and the stride '
               'accumulation of offset are universally quantified over sizes, so the complete small-size space (including zero extents, '
               '1-wide dimensions, empty and inverted sub-ranges in 3-D) is what the claim needs and what fixed-size tests do not give.',
 'level_note': 'bounded: N <= 3; quick tier = the stated bound (extents 0..4, min/sup components 0..5), thorough tier extents 0..6 and '
               'min/sup 0..7, plus (both tiers) a boundary lattice of large extents and coordinates (harness/C08_scale.cpp); size types '
               'unsigned, unsigned char and std::size_t for the free functions, std::size_t for grid::object; oracle = nested loops over '
               'plain integers in harness/C08_common.hpp; sanitizer aborts are attributed to the announced case',
 'binaries': [{'name': 'C08',
               'sources': ['harness/C08.cpp', 'harness/C08_pos.cpp', 'harness/C08_grid.cpp', 'harness/C08_ops.cpp', 'harness/C08_scale.cpp', 'harness/C08_hist.cpp', 'harness/C08_cat.cpp'],
               'libs': [],
               'flavour': 'asan'}],
 'compile_probes': [{'name': 'narrow_size_types', 'source': 'harness/C08_probe_narrow.cpp'}],
 'deadline': {'quick': 240, 'thorough': 1200},
 'rule': 'nested loops over explicit domains (bounds of the quick tier; thorough: extents 0..6, min/sup 0..7): all sizes with extents '
         '0..4 for N = 1,2,3 (155 sizes); offset for every in-range position; '
         'in_range_dim / in_range / at_optional for every position with components in 0..extent+1 or the maximum of the size type; '
         'pos_range, min_less_sup, range_dim, range_size, next_position for every (min, sup) with components 0..5; pos_ref_range (const '
         'and non-const) for every size x every (min, sup) with components in 0..extent+1 whose range is empty or lies inside the grid; resize for every (old size, new size) '
         'pair with lvalue and rvalue (move-only cells) source; map, fill, object constructors per size; apply for every pair (and, '
         'smaller extents, triple) of sizes, also with an rvalue first grid; clamped_min / clamped_sup / clamped_sup_signed over {type min, min+1, -3..6, max-1, max} per '
         'component x sizes {0..4, max}. Scale lattice (C08_scale.cpp): extents/coordinates from {0..3, 2^k-1, 2^k, 2^k+1 for k = 4, 8, 16, 31, 32, 63, max-1, max} of '
         'each size type: contents, pos_range::size, range_size, range_dim, min_less_sup, offset of the last position and of the unit steps and in_range_dim around each axis end are '
         'compared with 128-bit arithmetic whenever every partial product is representable; pos_range/next_position are iterated on windows of 0..2 positions per axis placed at '
         'every lattice coordinate. grid::object copy/move construction and assignment and swap for all pairs of sizes 0..3 x 0..3, including an object and itself through a second '
         'name (after self-assignment size(), content() and the stored cells must still agree; moved-from sources are not inspected). Range histories (C08_hist.cpp): for every grid size (2-D extents 0..3, 1-D 0..4, 3-D 0..2; thorough one more) and every range specification '
         '(whole grid, every (min, sup) with components 0..extent) a pos_ref_range, its const variant and a pos_range are created once; then one of {nothing, write all cells through the grid, '
         'swap / copy-assign / move-assign with a grid of every size, assign the result of resize to every size} is applied to the grid and the same range objects are iterated again: same position sequence and size(), '
         'value() is the current cell of the grid object at pos() (inside its current storage, address identity, current value), writes through the range reach the grid and leave the other grid alone; skipped when the stored sup exceeds the new size. '
         'Value categories (C08_cat.cpp, 2-D sizes 0..3 x 0..3): apply with 2 and 3 grids, map, resize with every combination of {const&, &, &&} per grid argument, instrumented cells (a move leaves a marker) and functions taking '
         'by value / const& / && / through a category-recording observer, the same lvalue grid passed twice, fill with three function shapes: results equal the cell-wise model, lvalue grids are unchanged and their cells never reach the function as rvalues. '
         'Oracle = explicit loops in storage order (x fastest). A case is non-trivial when at least two '
         'positions are visited (a step or carry happens) or, for N > 1, the range is empty because of exactly one component; for '
         'offset when the position is not the origin; for in_range/at_optional when the position is on or beyond the last in-range '
         'index of some axis; for resize when kept and new cells are mixed; for apply when the result is non-empty or the sizes differ '
         'with equal cell count; for the clamp helpers when a component is clamped. Cases are distinct argument tuples.',
 'assumptions': ['pos_ref_range sub-ranges are only built when the non-empty range lies inside the grid (dereferencing outside is a '
                 'precondition violation); empty and inverted ranges are built with components up to extent+1',
                 'range_dim / range_size / pos_range::size() are not instantiated for unsigned char: they do not compile for size types '
                 'narrower than int (sup - min is promoted to int); iteration, offset, in_range_dim, min_less_sup, next_position and '
                 'clamped_sup are checked for unsigned char',
                 'clamped_sup_signed is called only with sizes representable in the signed source type (to_signed of a larger size is '
                 'outside its domain) and with Dest = make_unsigned<Source> (other combinations do not compile)',
                 "apply with differing sizes: 'an empty grid' is read as empty()/content()==0, the dimension of the empty result is not "
                 'asserted',
                 'the order in which constructors, map, fill and resize call the user function is not asserted, only the resulting '
                 'cells',
                 'a pos_ref_range is read as a view of the grid OBJECT it was made from (pos_reference: a reference to a grid cell and its '
                 'position): after swap/assignment it must yield the current cells of that object; after a size-changing operation it is '
                 'only iterated again if it is empty or its stored (min, sup) lie inside the new size',
                 'grids passed as rvalues may be left in any state and are not inspected; moved-from grids are not inspected',
                 'information only, never a verdict (counters info:<sig> in the evidence): the number of invocations of the user function '
                 '(object<N>:ctor_calls, resize<N>:init_calls, resize<N>:init_for_old_cell, map<N>:calls, fill<N>:calls, apply2<N>:calls, '
                 'apply2<N>:calls_on_mismatch, apply2_cat/apply3_cat/map_cat/fill_cat ...:calls and ...:calls_on_mismatch) -- the '
                 'documentation fixes the resulting cells, not how often or when the function is evaluated; and that range_dim of an '
                 'empty range is the all-zero dimension (range_dim<S,N>:empty_range_not_null) -- the verdict only requires that it '
                 'denotes zero cells']}

PROP['rule'] += ' Compile probe narrow_size_types: the position helpers instantiated with unsigned char / unsigned short size types.'

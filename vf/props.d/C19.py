PROP = {
 'title': "Log levels follow 'latest setting on a prefix wins', also under concurrent use",
 'level': 'model_checking',
 'engine': 'H',
 'technique': "sequential: explicit-state BFS over set/create/destroy histories on the real log context against the 'latest set on a prefix' reference; concurrent: stateless preemption-bounded exploration of all schedules of 2-3 real threads over hooked mutex/atomic operations with a vector-clock race detector",
 'level_text': 'Sequential part: breadth-first search over all histories of context::set and log-object creation/destruction on the real '
               'context, comparing context::get for every location, level()/enabled() and the emitted text of every object with the '
               'reference after every step, to a fix-point. Concurrent part: every schedule with at most 2 (thorough 3) preemptions of '
               'every 2- and 3-thread program over colliding locations is executed on the real library under a controlled scheduler '
               '(scheduling points at every mutex and atomic operation), with a happens-before race detector on every instrumented '
               'access and a linearizability check of the results.',
 'level_note': 'location alphabet: all locations of depth <= 2 over 2 names (1 object slot quick, 2 thorough) plus a depth-3 chain with side branches (2 object slots); schedules are sequentially consistent interleavings (exact for seq_cst atomics + mutex); out-of-line libstdc++ code is not instrumented for the race detector',
 'binaries': [{'name': 'C19seq', 'sources': ['harness/C19_seq.cpp'], 'libs': ['core', 'log'], 'flavour': 'asan'},
              {'name': 'C19conc', 'sources': ['harness/C19_conc.cpp', 'rt/sched/sched.cpp'], 'libs': ['core'], 'hook_libs': ['log'], 'hook_sources': ['rt/sched/visible_std.cpp'], 'flavour': 'plain', 'link_flags': ['-rdynamic']}],
 'deadline': {'quick': 300, 'thorough': 1500},
 'rule': 'sequential: BFS over histories, a transition is non-trivial when it changes the canonical state (existing nodes, their reference levels, object slots); concurrent: one case per complete schedule, non-trivial when at least one context switch happened at a point where the running thread was still enabled',
 'assumptions': ['root level of the context is fixed to warning; levels set are debug/error/none',
                 'log-object formatter chain checked with the default level formatter and one custom outer formatter'],
}

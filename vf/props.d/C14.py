PROP = {'title': 'Vector, dim and matrix arithmetic obeys the exact ring and module laws',
 'level': 'exploration',
 'engine': 'E',
 'technique': 'exhaustive enumeration of explicit finite operand families (all 2x2 matrices over {-1,0,1,2} and all their pairs and '
              'triples; structured complete families for 3x3, 4x4 and rectangular shapes; all vectors/dims of dimension 1-4 over small '
              'integer ranges) against a plain-array reference and against each other through the algebraic identities',
 'level_text': 'Every operand tuple of the stated finite families is evaluated on the real int instantiations of the fcppt operators '
               '(static storage, a pointer view storage and matrix row views) and compared with naive long-arithmetic loops (matrix '
               'product, Leibniz determinant, cofactor adjugate) and with the ring/module identities evaluated by fcppt itself; the 2x2 '
               'families are the complete input space over the entry set, which is what a for-all claim about associativity and '
               'distributivity needs and what one or two literal operands per test cannot give.',
 'level_note': '3x3/4x4 operands come from structured families instead of random matrices: the product is bilinear, a triple product '
               'trilinear, the NxN determinant / adjugate entries multilinear of degree N / N-1 in the entries, so an implementation built '
               'from sums of products of entries that agrees with the reference on every operand with that many non-zero entries from '
               '{-1,1} (plus permutation, elementary and distinct-entry matrices) agrees on all matrices; operands are written and results '
               'read through the raw row-major storage, constructors and accessors are checked separately against that storage; ASan/UBSan '
               'aborts are attributed to the announced case',
 'binaries': [{'name': 'C14',
               'sources': ['harness/C14.cpp', 'harness/C14_m3.cpp', 'harness/C14_m4.cpp', 'harness/C14_m4b.cpp', 'harness/C14_rect.cpp',
                           'harness/C14_rect_b.cpp', 'harness/C14_rect_c.cpp', 'harness/C14_rect_d.cpp', 'harness/C14_vec.cpp',
                           'harness/C14_dim.cpp', 'harness/C14_narrow.cpp', 'harness/C14_narrow_mixed_a.cpp', 'harness/C14_narrow_mixed_b.cpp',
                           'harness/C14_strided_vec.cpp', 'harness/C14_strided_vec4.cpp', 'harness/C14_strided_dim.cpp',
                           'harness/C14_strided_mat2.cpp', 'harness/C14_strided_mat3.cpp', 'harness/C14_shapes.cpp', 'harness/C14_scalar.cpp',
                           'harness/C14_access.cpp'],
               'libs': [],
               'flavour': 'asan'},
              # second binary: every product whose left operand has more rows than columns, and the mixed-scalar
              # matrix*vector shard; kept apart so that a change breaking only these instantiations (each class is
              # also a compile probe) does not take the run-time verdict of the first binary with it
              {'name': 'C14b',
               'sources': ['harness/C14b.cpp', 'harness/C14b_shapes.cpp', 'harness/C14b_narrow.cpp'],
               'libs': [],
               'flavour': 'asan'}],
 'compile_probes': [{'name': 'vector_less_mixed_storage', 'source': 'harness/C14_probe_less.cpp', 'flags': []},
                    {'name': 'matrix_vector_mixed_scalars', 'source': 'harness/C14_probe_mixed.cpp', 'flags': ['-DC14_PROBE_KIND=1']},
                    {'name': 'matrix_arithmetic_mixed_scalars', 'source': 'harness/C14_probe_mixed.cpp', 'flags': ['-DC14_PROBE_KIND=2']},
                    {'name': 'vector_dim_arithmetic_mixed_scalars', 'source': 'harness/C14_probe_mixed.cpp', 'flags': ['-DC14_PROBE_KIND=3']},
                    {'name': 'matrix_product_rows_lt_inner', 'source': 'harness/C14_probe_products.cpp', 'flags': ['-DC14_PROBE_KIND=1']},
                    {'name': 'matrix_product_rows_gt_inner', 'source': 'harness/C14_probe_products.cpp', 'flags': ['-DC14_PROBE_KIND=2']},
                    {'name': 'matrix_product_rows_eq_inner_nonsquare', 'source': 'harness/C14_probe_products.cpp', 'flags': ['-DC14_PROBE_KIND=3']},
                    {'name': 'write_at_r_c_int', 'source': 'harness/C14_probe_writes.cpp', 'flags': ['-DC14_PROBE_KIND=1']},
                    {'name': 'write_at_r_at_int', 'source': 'harness/C14_probe_writes.cpp', 'flags': ['-DC14_PROBE_KIND=2']},
                    {'name': 'write_matrix_get_unsafe_int', 'source': 'harness/C14_probe_writes.cpp', 'flags': ['-DC14_PROBE_KIND=3']},
                    {'name': 'write_mRC_int', 'source': 'harness/C14_probe_writes.cpp', 'flags': ['-DC14_PROBE_KIND=4']},
                    {'name': 'write_vector_at_int', 'source': 'harness/C14_probe_writes.cpp', 'flags': ['-DC14_PROBE_KIND=5']},
                    {'name': 'write_vector_xyzw_int', 'source': 'harness/C14_probe_writes.cpp', 'flags': ['-DC14_PROBE_KIND=6']},
                    {'name': 'write_vector_get_unsafe_int', 'source': 'harness/C14_probe_writes.cpp', 'flags': ['-DC14_PROBE_KIND=7']},
                    {'name': 'write_dim_at_int', 'source': 'harness/C14_probe_writes.cpp', 'flags': ['-DC14_PROBE_KIND=8']},
                    {'name': 'write_dim_whd_int', 'source': 'harness/C14_probe_writes.cpp', 'flags': ['-DC14_PROBE_KIND=9']},
                    {'name': 'write_dim_get_unsafe_int', 'source': 'harness/C14_probe_writes.cpp', 'flags': ['-DC14_PROBE_KIND=10']},
                    {'name': 'write_row_view_xy_int', 'source': 'harness/C14_probe_writes.cpp', 'flags': ['-DC14_PROBE_KIND=11']}],
 'deadline': {'quick': 300, 'thorough': 1500},
 'rule': 'nested loops over explicit families, nothing sampled. 2x2: all 256 matrices over {-1,0,1,2} (unary laws, scalars -9..9), all '
         '65536 pairs (+,-,==,!=, product in the 4 static/view storage combinations, (AB)^T=B^T A^T, det and adjugate (anti)multiplicative), '
         'all 256^3 triples in both tiers (associativity, left/right distributivity; announced as family indices i,j,k, entry p (row-major) of '
         'matrix i is ((i / 4^p) % 4) - 1). 3x3: unary laws (transpose, determinant, adjugate, A adj(A) = adj(A) A = det(A) I, inverse of '
         'unimodular matrices, delete_row_and_column, identity, scalar multiples, construction/access/casts) over all 3^9 matrices over '
         '{-1,0,1} (thorough: all 4^9 over {-1,0,1,2}); pairs over S3 = all matrices with <= 3 (quick: <= 2) non-zero entries from {-1,1} + '
         'permutation + elementary (I+-E_ij, row scalings by -1,0,2) + one distinct-entry matrix (851, quick 188); triples over the <= 2 '
         '(quick: <= 1) sub-family (188^3, quick 47^3). 4x4: unary over all matrices with <= 4 (quick: <= 3) non-zero entries from {-1,1} + '
         'elementary + two distinct-entry matrices (34143), thorough also all 2^16 dense matrices over {0,1}; pairs over the <= 2 (quick: <= 1) '
         'family (575^2, quick 95^2), triples over the <= 1 family (95^3, quick every third member); translation/scaling for all (x,y,z) in '
         '[-9,9]^3 (quick [-3,3]^3), their composition and transform_point/direction for all pairs in [-3,3]^3 (quick [-1,1]^3). Rectangular '
         'shapes 1x2,2x1,1x3,3x1,1x4,4x1,2x3,3x2 (every matrix over {-1,0,1}, a few over {-1,0,1,2}/[-2,2]) and 2x4,4x2,3x4,4x3 (<= 2 non-zero + '
         'two distinct-entry + all-ones): unary laws, products of all compatible pairs listed in C14_rect*.cpp, sums, matrix*vector, '
         'associativity through rectangular chains. Matrix*vector for every family member and every vector over [-1,1]^C (2x2: [-9,9]^2). '
         'Vectors and dims: N=1,2 over [-9,9], N=3 over [-2,2] (thorough: unary [-9,9], pairs [-4,4]), N=4 over [-2,2] (quick pairs '
         '[-1,1]); all pairs (component-wise + - * /, compound assignment, == != < <= > >=, dot, cross, vector(op)dim, matrix row views as '
         'operands); triples over [-3,3], [-2,2], [-1,1]^3, [-1,1]^4 (quick {0,1}^4) for the module laws incl. dot(u,cross(v,w)) = '
         'determinant(rows u,v,w). A case is one (law group, operand tuple); it is non-trivial when no operand is zero or the identity / '
         'the operands differ / the determinant is non-zero / compared operands are equal or differ in exactly one position (per-group '
         'predicate next to each vrt::nontrivial call). '
         'Narrow scalars (C14_narrow*.cpp): i8, u8, i16 and the mixed pairs (i8,i16),(i16,i8),(u8,i8),(i8,u8),(i16,int),(int,i8),(i8,long),(long,i16) '
         'for every free operator whose result value type is decltype(L op R) (vector/dim + - * / unary-, scalar * /, vector(op)dim, matrix + - *, '
         'scalar *, matrix*vector): all pairs of 2-vectors / 1x2.2x1 / 2x1.1x2 / 2x2 operands over the entry set {min, -100, -1, 0, 1, 100, max} of '
         'the type (a 4-value subset for 2x2.2x2 and sums), i8 also 3-vectors, 1x3.3x1 and 3x3 over {-128,0,127} (quick {-128,127}) times all '
         '3-vectors; oracle in long, cases whose exact result or a partial sum of a fold leaves the declared result type are skipped before the '
         'call; the declared result type is a static_assert; non-trivial = some result component lies outside an operand type. Non-contiguous '
         'view storages (C14_strided*.cpp): strided (stride 2 and 3), reversed and pitched-block storages behind vector, dim (N=2,3,4) and matrix '
         '(2x2 all pairs over {-1,0,1,2}, quick {-1,0,2}; 2x3 over {0,1}+distinct; 3x3 structured family), every pair (u,v) x two decoy modes '
         '(memory between viewed elements = values occurring nowhere / = the other operand at the same linear position): == != < <= > >=, '
         '+ - * / unary-, scalar ops, compound assignment, assignment and construction in both directions, structure_cast, narrow_cast, push_back, '
         'to_dim/to_vector, dot, cross, length_square, contents, at/named/get_unsafe, matrix at_r/at_r_c/mRC/row views, transpose, product, '
         'determinant, adjugate, inverse, delete_row_and_column, identity, matrix*vector; after every operation the whole exact-size heap buffer is '
         'compared (decoys unchanged, read-only operations write nothing). '
         'Product shapes (C14_shapes.hpp): RxK * KxC for all 64 shape triples R,K,C in 1..4, operands = every matrix over {-1,0,2} for shapes with '
         '<= 4 entries, else <= 1 non-zero entry from {-1,2} + two distinct-entry matrices + all-ones; A*B (static and view) against the plain-array '
         'product, (A*B)*v = A*(B*v) for two vectors, I*A = A and A*I = A for all 16 shapes, associativity through 1x2.2x3.3x4; non-trivial = the '
         'last inner index contributes to the product. Binary C14b holds exactly the instantiations with rows(left) > inner dimension (24 shape '
         'triples, right identity of the 6 tall shapes, 3x2.2x3 / 4x3.3x4 / column.row product groups, their associativity and matrix*vector laws, '
         'narrow column.row products), matrix<Left>*vector<Right> with Left != Right, and the writes of the built-in int through accessors. '
         'User-defined exact scalars (C14_scalar.hpp/.cpp): integer quaternions quat (non-commutative *) exhaustively over {0,i,j,1+k}^N vectors/dims '
         '(N=2,3) x 5 scalars and 2x2 / 2x3.3x2 matrices over {0,i,j,1+k}/{i,j,k}: s*v, v*s, v*=s, v*w, + -, dot, length_square, cross, '
         'vector(op)dim, s*A, A*s, A*=s, A+-B, A*B, A*x, transpose, identity, module laws, against plain arrays with the documented operand '
         'order (s*v[i] for the left-scalar overload, v[i]*s for the right one, sum_k a[i][k]*b[k][j]); the symbolic scalar term (value = the '
         'expression string that produced it, every operator application counted, moves observable) once per operator and shape: result strings, '
         'the factors of every product in the documented operand order and no read of a moved-from scalar (the order in which the products of one component '
         'are summed and the number of scalar operations spent are recorded as info counters, not judged: over an exact ring they cannot change a value). Write access (C14_access.hpp): '
         'for at_r_c, at_r+at, get_unsafe.get_unsafe, mRC, row-view x/y/z/w, at_r row assignment; vector/dim at, x/y/z/w resp. w/h/d, get_unsafe, '
         'storage()[i]; static, pitched-block and strided storages; T = quat (binary C14) and int (binary C14b): = += *= -= through the accessor, '
         'then the raw elements and every accessor (const and non-const) are read back; the accessor result type must be T& / T const&',
 'assumptions': ['recorded as info:* counters, never a verdict (implementation details the property does not promise): for the symbolic scalar term the '
                 'order in which the products of a component are summed, whether the sum starts from a literal 0, a-b as a+(-b), compound forms '
                 '(info:...:expression_shape), the number of scalar operator invocations (info:...:invocations), reads of a moved-from scalar that do '
                 'not reach the result (info:...:moved_from_read); for accessors the exact result type T& / T const& / matrix::reference '
                 '(info:write_access...:result_type) -- judged is only which two scalars are multiplied on which side, the values, and that writes '
                 'through an accessor arrive',
                 'narrow/mixed scalars: only operators whose declared result type is decltype(L op R) are checked on values that leave the '
                 'operand range; functions returning the operand type T (dot, determinant, cross, compound assignment, transform_point) narrow by '
                 'design and are checked with int only; unsigned short / unsigned int mixing is excluded (promotion to int overflows / modular '
                 'arithmetic is not an exact scalar)',
                 'two binaries: C14b contains every product whose left operand has more rows than columns and the mixed-scalar matrix*vector '
                 'shard; each of these instantiation classes is also a compile probe (matrix_product_rows_gt_inner, matrix_vector_mixed_scalars), so '
                 'a change that only breaks their compilation is reported as compile:<name> while the binary C14 still runs',
                 'assignment between two views of the same storage type is the implicit copy assignment of object (it rebinds the view) and is '
                 'not exercised; stride and pitch are therefore part of the harness storage types',
                 'law families use int (plus long for mixed-type operators and structure_cast) with entries small enough that no intermediate '
                 'overflows; promotion-sensitive scalars are covered by the narrow shards',
                 'inverse is checked only for unimodular matrices (det = +-1), where 1/det is exact in integer arithmetic; det = 0 is a '
                 'division by zero and other determinants truncate',
                 'vector/dim division: nothing iff some divisor is zero, otherwise the truncating quotient per component (math::div)',
                 'the ordering operators < <= > >= are evaluated only between operands of the same storage type; the mixed-storage '
                 'instantiation is covered by the compile probe vector_less_mixed_storage',
                 '1x1 matrices are included (adjugate of a 1x1 matrix is [1]: the statement A adj(A) = det(A) I has no size restriction) '
                 'although DESIGN.md lists sizes 2-4 only',
                 'floating-point functions of the module (rotation_*, exponential_pade, logarithm, sqrt, normalize, length, angle_between) '
                 'are outside the statement (exact scalars only)']}

PROP['rule'] += ' Builders called with named (lvalue) scalars of the move-observable symbolic type: matrix::row, matrix(row,row), vector/dim constructors, fill, push_back -- results equal the plain arrays and the scalars keep their values; identity<Matrix> itself for all 16 shapes (also non-square) against the Kronecker delta.'

PROP['rule'] += " structure_cast with a user converter x -> 1 - x, same and different value type, for vector, dim (static and view storage) and matrix."

PROP = {
 'title': 'Tree keeps parent/child links consistent under every operation history',
 'level': 'model_checking',
 'engine': 'H',
 'technique': 'explicit-state BFS over operation histories of real fcppt tree objects (two roots + a detached spare) with a recursive reference model, to a fix-point inside a node cap',
 'level_text': 'Breadth-first search over all histories of tree operations (every node of the forest as operand, including inner nodes; '
               'swap/assignment between all unrelated node pairs) on real heap-allocated trees under ASan; after every transition every '
               "child's parent(), every traversal and every observer is compared with a plain recursive model. The search reaches a "
               'fix-point inside the node cap, so the claim covers histories of any length that stay inside the cap.',
 'level_note': 'node cap 6 (quick) / 7 (thorough) over two roots plus one detached tree, values {0,1}; swap between related nodes and assignment of an ancestor into its own descendant are preconditions and outside the alphabet (assignment from a descendant to its ancestor is inside); links are checked, not hashed (argument in harness/C09.cpp)',
 'binaries': [{'name': 'C09', 'sources': ['harness/C09.cpp'], 'libs': [], 'flavour': 'asan'}],
 'deadline': {'quick': 300, 'thorough': 1500},
 'rule': 'BFS over histories of tree operations; a transition is non-trivial when it changes the canonical state (shape and values of both roots and the spare); states are distinct canonical renderings',
 'assumptions': ['element type int (a moved-from int keeps its value)',
                 'self move-assignment and operations between ancestor/descendant pairs are excluded as preconditions',
                 '128-bit hashes of canonical strings are used for deduplication'],
}

PROP = {'title': 'Algorithm and container helpers equal their straightforward reference',
 'level': 'exploration',
 'engine': 'E',
 'technique': 'exhaustive enumeration of all sequences over {0,1,2} up to length 7, all strings over {a,b,#} up to length 8, all maps '
              'over 6 keys, with all predicates / element functions on the 3-element domain, for every source kind, against hand-written '
              'loops (results, visit order, call counts, iterator positions, reference identity); values / keys / indices / delimiters / '
              'states of a type other than the element type, including values not representable in it',
 'level_text': 'Every input of the stated finite domains is run through the real templates and compared with a loop-based reference that '
               'shares no code with fcppt: all 3280 sequences (quick: 364) x all 27 element functions / 8 predicates / 64 partial functions / every '
               'break position, for vector, list, deque, set, multiset, map, string, fcppt array, tuple, mpl list, int and enum ranges and '
               'three ranges of unknown size; callbacks log their arguments, so order of visits and early stops are checked, not only '
               'results. That is the complete input space up to the bound, which the one-container-per-function tests do not give.',
 'level_note': 'bounded: sequence length <= 7 (quick 5; DESIGN.md asks for 6), string length <= 8 (quick 6; DESIGN 7), element alphabet of size '
               '3, map keys <= 6 (quick 4), set universe 7 (quick 5), '
               'array/tuple sizes 0..4; element type int/char (move-only elements are left to the unit tests); fold-like functions are '
               'run with the free (term-building) function, which fixes the result for every function by parametricity',
 'binaries': [{'name': 'C16',
               'sources': ['harness/C16.cpp', 'harness/C16_algorithm.cpp', 'harness/C16_algorithm2.cpp', 'harness/C16_container.cpp',
                           'harness/C16_array_tuple.cpp', 'harness/C16_hetero.cpp', 'harness/C16_callbacks.cpp'],
               'libs': [], 'flavour': 'asan'}],
 'compile_probes': [{'name': 'array_append_lvalue', 'source': 'harness/C16_probe_array_append_lvalue.cpp'},
                    {'name': 'array_push_back_lvalue', 'source': 'harness/C16_probe_array_push_back_lvalue.cpp'},
                    {'name': 'array_join_lvalue', 'source': 'harness/C16_probe_array_join_lvalue.cpp'},
                    {'name': 'tuple_concat_lvalue', 'source': 'harness/C16_probe_tuple_concat_lvalue.cpp'},
                    {'name': 'get_or_insert_non_default_constructible_mapped', 'source': 'harness/C16_probe_get_or_insert_ndc.cpp'},
                    {'name': 'hetero_equal_range_binary_search', 'source': 'harness/C16_probe_hetero.cpp', 'flags': ['-DC16_PROBE_KIND=1']},
                    {'name': 'hetero_contains_find_opt_find_by_opt', 'source': 'harness/C16_probe_hetero.cpp', 'flags': ['-DC16_PROBE_KIND=2']},
                    {'name': 'hetero_index_of', 'source': 'harness/C16_probe_hetero.cpp', 'flags': ['-DC16_PROBE_KIND=3']},
                    {'name': 'hetero_remove', 'source': 'harness/C16_probe_hetero.cpp', 'flags': ['-DC16_PROBE_KIND=4']},
                    {'name': 'hetero_fold_fold_break', 'source': 'harness/C16_probe_hetero.cpp', 'flags': ['-DC16_PROBE_KIND=5']},
                    {'name': 'hetero_at_optional_index', 'source': 'harness/C16_probe_hetero.cpp', 'flags': ['-DC16_PROBE_KIND=6']},
                    {'name': 'hetero_find_opt_mapped_key', 'source': 'harness/C16_probe_hetero.cpp', 'flags': ['-DC16_PROBE_KIND=7']},
                    {'name': 'hetero_get_or_insert_key', 'source': 'harness/C16_probe_hetero.cpp', 'flags': ['-DC16_PROBE_KIND=8']},
                    {'name': 'hetero_string_delimiters', 'source': 'harness/C16_probe_hetero.cpp', 'flags': ['-DC16_PROBE_KIND=9']}],
 'deadline': {'quick': 240, 'thorough': 1200},
 'rule': 'nested loops over explicit domains: every sequence over {0,1,2} up to the length bound (as vector, list, deque, set, multiset, '
         'string, fcppt array, tuple, sized / unsized custom range, passed as const lvalue, lvalue and rvalue) x every parameter of the '
         'function (27 element functions, 8 predicates, 64 partial functions, every value -1..3, every break position, every removal '
         'mask); every string over {a,b,#} x 3 delimiters; every map with keys in 0..5 and values in {0,1,2}; every pair of subsets of a '
         '7-element universe; heterogeneous types: every sequence up to length 4 (thorough 5) over a 4-letter alphabet of unsigned char / '
         'short / int elements (vector, deque, list) x every value of type int / long long / double / short / unsigned char from a '
         'boundary list (-1, 0, 1, 2, 2.5, 255, 256, 258, 65535, 65536, 2^32-1, 2^32+5, type minima/maxima, ...) for equal_range, '
         'binary_search, contains, find_opt, index_of, find_by_opt, remove, fold and fold_break (state of the other type); at_optional '
         'with 7 index types; find_opt_iterator / find_opt / find_opt_mapped / get_or_insert with keys of another type on maps with and '
         'without a transparent comparator (int keys vs short / long long / double, string keys vs string_view / char const*); '
         'join_strings / split_string with delimiters of another type; iterator categories: map (targets vector, string, deque, list, set), '
         'map_optional, map_concat, fold, fold_break, loop, loop_break, all_of, contains(_if), find_opt / find_if_opt / find_by_opt over a '
         'really single-pass input range (shared cursor, every traversal counted), forward, bidirectional and random-access ranges without '
         'size(); callback behaviours: get_or_insert(_with_result) on all maps over 3 keys x all key sequences up to length 3 x create '
         'throwing at its call 1..3, create observing size()/count(key) of the container, the interning idiom over all sequences, create '
         're-entering get_or_insert on the same std::map; every range algorithm with a callback throwing at call 1..3 over all sequences '
         'up to length 4; sequence_iteration / map_iteration with a throwing action; a case is one (instantiation, input, parameter) tuple and is non-trivial when the range has at least two '
         'elements / the early stop, removal, duplicate or boundary that the function is about actually occurs (per-function predicate '
         'in the harness sources)',
 'assumptions': ['std::equal_range precondition: cases where the sequence is not partitioned with respect to the searched value are skipped '
                 '(all sorted and some unsorted sequences remain)',
                 'unique_if is run with the 5 equivalence relations on {0,1,2} only (std::unique requires an equivalence relation)',
                 'all_of / contains_if / find_if_opt / find_by_opt: the callback must be applied to a prefix of the range in order that '
                 'reaches the deciding element; calls after the decision are counted, not asserted (not documented)',
                 'get_or_insert_with_result: inserted() is read as documented at get_or_insert_result::inserted (true = inserted); the '
                 'function\'s own doc comment states the opposite and is taken to be a typo',
                 'array::append / join / push_back and tuple::concat: contents are enumerated with rvalue arguments; lvalue and mixed '
                 'lvalue/rvalue arguments are compile probes plus a value-category check with std::string elements (lvalues unchanged)',
                 'lvalue arguments must be left unchanged (checked with std::string elements); that rvalue arguments are really moved from is '
                 'not asserted',
                 'an exception escaping from an fcppt call is recorded as crash:<fn>:terminate for the announced case',
                 'demoted to information counters (recorded in the evidence, never a verdict) because the documentation does not promise them: '
                 'info:<fn>:source_read_twice (a single-pass source whose begin() is called twice or whose stale iterator copy is advanced; a '
                 'second traversal that really consumes the source is seen by the result and visit-order checks), '
                 'info:index_map:insert_calls_or_order (how often index_map::get calls insert() and which result fills which gap; verdicts are: '
                 'size grows to index+1, old elements stay, every new element is a result of insert() resp. T()), info:array::init<N>:index_order '
                 '(order of the calls over the indices; verdict: every index exactly once), all_of/contains_if/find_by_opt calls after the '
                 'decision',
                 'kept as verdicts because the property says so: callbacks are applied to the elements in range order, once per element '
                 '("visit elements in order"; map: "For every element e in _source, _function(e) is inserted"), early stops of loop_break / '
                 'fold_break exactly as their documentation defines them, lvalue arguments unchanged, returned references / iterators refer '
                 'to the documented element, return types as declared',
                 'heterogeneous values are compared with the elements exactly as given (exact comparison in long double = the usual '
                 'arithmetic conversions for the types used), never after narrowing to the element type; where the documented signature '
                 'itself converts the argument (remove: const_reference, get_or_insert: key_type, split_string: value_type delimiter, '
                 'std::map::find without a transparent comparator) only values representable in the target type are used',
                 'a single-pass source must give the result of the plain loop with the callback applied once per element in order',
                 'get_or_insert: the documentation says the mapped object is created and then inserted, hence: a throwing create leaves no '
                 'entry for the key, a later call creates it, create sees the container without the new key, and the mapped type need not be '
                 'default-constructible (compile probe)',
                 'throwing callbacks of range algorithms: only propagation, the number of invocations (exactly k) and an unchanged lvalue source '
                 'are asserted; for sequence_iteration / map_iteration the container must remain a sub-sequence of the original that still holds '
                 'everything the action did not ask to remove (whether removals already decided are applied is not asserted)',
                 'throwing comparators of the set operations and throwing predicates of remove_if / unique_if are not exercised (nothing '
                 'documented beyond what std gives)',
                 'every heterogeneous instantiation is also a compile probe (compile:hetero_<family>): a change that makes it ill-formed '
                 'is reported as a violation']}

PROP['rule'] += ' range::empty / singular / size / begin / end / from_pair for every sequence over vector, list, deque, set, multiset (from_pair also on equal_range pairs).'

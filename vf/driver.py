"""Driver for the fcppt verification harnesses: build (from /repo's working tree,
content-hash cached), run, judge violations against known_findings.json, write
evidence and replay files."""
import concurrent.futures
import glob
import hashlib
import json
import os
import re
import shutil
import subprocess
import sys
import time

VERIF = os.path.dirname(os.path.dirname(os.path.abspath(__file__)))
REPO = os.environ.get("VERIF_REPO", "/repo")
BUILD = os.path.join(VERIF, "build")
GEN = os.path.join(BUILD, "gen")
OBJ = os.path.join(BUILD, "obj")
BIN = os.path.join(BUILD, "bin")
RUN = os.path.join(BUILD, "run")
REPLAYS = os.path.join(VERIF, "replays")
EVIDENCE = os.path.join(VERIF, "evidence")
JOBS = int(os.environ.get("VERIF_JOBS", "16"))

CXX = os.environ.get("VERIF_CXX", "g++")

FLAVOURS = {
    # default: ASan + UBSan (abort on first report; the coordinator attributes it
    # to the announced case and resumes after it)
    "asan": ["-O1", "-g1", "-fsanitize=address,undefined", "-fno-sanitize-recover=all",
             "-fno-omit-frame-pointer", "-D_GLIBCXX_ASSERTIONS"],
    # for the very large enumerations: UBSan only, optimised
    "ubsan": ["-O2", "-g1", "-fsanitize=undefined", "-fno-sanitize-recover=all",
              "-D_GLIBCXX_ASSERTIONS"],
    "plain": ["-O2", "-g1", "-D_GLIBCXX_ASSERTIONS"],
    # engine S: ThreadSanitizer *instrumentation only* (our own runtime implements the ABI, rt/sched/sched.cpp)
    "tsanhook": ["-O1", "-g1", "-fsanitize=thread", "-D_GLIBCXX_ASSERTIONS"],
}

HOOK_REDEFINE = {
    "pthread_mutex_lock": "vsched_mutex_lock",
    "pthread_mutex_unlock": "vsched_mutex_unlock",
    "pthread_mutex_trylock": "vsched_mutex_trylock",
    "pthread_rwlock_rdlock": "vsched_rwlock_rdlock",
    "pthread_rwlock_wrlock": "vsched_rwlock_wrlock",
    "pthread_rwlock_unlock": "vsched_rwlock_unlock",
    "pthread_rwlock_tryrdlock": "vsched_rwlock_tryrdlock",
    "pthread_rwlock_trywrlock": "vsched_rwlock_trywrlock",
    # libc memory functions: their accesses belong to the calling thread (libc is not instrumented)
    "memcpy": "vsched_memcpy",
    "memmove": "vsched_memmove",
    "memset": "vsched_memset",
    "memcmp": "vsched_memcmp",
}
# blocking primitives the scheduler does not model: each gets its own stub that stops the run
# with a harness error (objcopy wants distinct targets)
for _n in (["pthread_mutex_timedlock", "pthread_mutex_clocklock"] +
           ["pthread_rwlock_" + x for x in ("timedrdlock", "timedwrlock", "clockrdlock", "clockwrlock")] +
           ["pthread_cond_" + x for x in ("wait", "timedwait", "clockwait", "signal", "broadcast")] +
           ["pthread_spin_" + x for x in ("lock", "trylock", "unlock")]):
    HOOK_REDEFINE[_n] = "vsched_unsupported_" + _n


def hook_object(obj):
    """objcopy --redefine-sym: route the blocking pthread calls of an instrumented object to the scheduler."""
    mapsig = hashlib.sha256(repr(sorted(HOOK_REDEFINE.items())).encode()).hexdigest()[:10]
    out = obj[:-2] + "." + mapsig + ".hook.o"
    try:
        if os.stat(out).st_mtime_ns >= os.stat(obj).st_mtime_ns:
            return out
    except OSError:
        pass
    symfile = os.path.join(OBJ, "hook_redefine.syms")
    write_if_changed(symfile, "".join("%s %s\n" % kv for kv in sorted(HOOK_REDEFINE.items())))
    tmp = out + ".tmp%d" % os.getpid()
    r = subprocess.run(["objcopy", "--redefine-syms=" + symfile, obj, tmp], stdout=subprocess.PIPE, stderr=subprocess.STDOUT, text=True)
    if r.returncode != 0:
        raise BuildError("objcopy failed: " + r.stdout)
    os.replace(tmp, out)
    return out
COMMON = ["-std=c++20", "-pthread", "-DFCPPT_STATIC_LINK", "-DENABLE_THREADS", "-w",
          "-fdiagnostics-color=never"]

LIBS = ["core", "filesystem", "log", "options", "parse", "boost", "catch"]


def include_dirs():
    d = [os.path.join(GEN, "include"), os.path.join(GEN, "impl", "include")]
    for l in LIBS:
        for sub in ("include", "impl/include"):
            p = os.path.join(REPO, "libs", l, sub)
            if os.path.isdir(p):
                d.append(p)
    d += [os.path.join(VERIF, "rt"), os.path.join(VERIF, "harness")]
    return d


SYMBOL_TMPL = """#ifndef {G}_HPP_INCLUDED
#define {G}_HPP_INCLUDED
#if defined(FCPPT_STATIC_LINK)
#	define {G}
#else
#	include <fcppt/symbol/import.hpp>
#	define {G} FCPPT_SYMBOL_IMPORT
#endif
#endif
"""


def write_if_changed(path, text):
    os.makedirs(os.path.dirname(path), exist_ok=True)
    try:
        if open(path).read() == text:
            return
    except OSError:
        pass
    with open(path, "w") as f:
        f.write(text)


def gen_headers():
    """The configure-time headers (normally produced by cmake).  version.hpp is
    rendered from /repo/cmake/version.hpp.in, the others are trivial."""
    inc = os.path.join(GEN, "include", "fcppt")
    try:
        ver = open(os.path.join(REPO, "cmake", "version.hpp.in")).read().replace("@FCPPT_INT_VERSION@", "4000000")
    except OSError:
        ver = "#ifndef FCPPT_VERSION_HPP_INCLUDED\n#define FCPPT_VERSION_HPP_INCLUDED\n#define FCPPT_VERSION 4000000UL\n#endif\n"
    write_if_changed(os.path.join(inc, "version.hpp"), ver)
    write_if_changed(os.path.join(inc, "public_config.hpp"),
                     "#ifndef FCPPT_PUBLIC_CONFIG_HPP_INCLUDED\n#define FCPPT_PUBLIC_CONFIG_HPP_INCLUDED\n#define FCPPT_NARROW_STRING\n#endif\n")
    write_if_changed(os.path.join(GEN, "impl", "include", "fcppt", "impl", "private_config.hpp"),
                     "#ifndef FCPPT_IMPL_PRIVATE_CONFIG_HPP_INCLUDED\n#define FCPPT_IMPL_PRIVATE_CONFIG_HPP_INCLUDED\n#define FCPPT_HAVE_GCC_DEMANGLE\n#endif\n")
    for sub, g in (("detail", "FCPPT_DETAIL_SYMBOL"), ("log/detail", "FCPPT_LOG_DETAIL_SYMBOL"),
                   ("options/detail", "FCPPT_OPTIONS_DETAIL_SYMBOL"),
                   ("filesystem/detail", "FCPPT_FILESYSTEM_DETAIL_SYMBOL")):
        write_if_changed(os.path.join(inc, sub, "symbol.hpp"), SYMBOL_TMPL.format(G=g))


_hash_cache = {}


def file_hash(path):
    try:
        st = os.stat(path)
    except OSError:
        return None
    k = (path, st.st_mtime_ns, st.st_size)
    h = _hash_cache.get(k)
    if h is None:
        with open(path, "rb") as f:
            h = hashlib.sha256(f.read()).hexdigest()
        _hash_cache[k] = h
    return h


def parse_depfile(path):
    txt = open(path).read().replace("\\\n", " ")
    txt = txt.split(":", 1)[1]
    return [t for t in txt.split() if t]


class BuildError(Exception):
    pass


def compile_tu(src, flags, tag=""):
    """Compile one TU; returns object path.  Cached by flags + contents of every
    dependency."""
    os.makedirs(OBJ, exist_ok=True)
    # the tree the headers come from is part of the key: an object built against another checkout (VERIF_REPO) must
    # never be taken for this one's, even though its recorded dependencies are all unchanged
    key = hashlib.sha256((" ".join(flags) + "|" + src + "|" + tag + "|" + " ".join(include_dirs())).encode()).hexdigest()[:24]
    obj = os.path.join(OBJ, key + ".o")
    meta = os.path.join(OBJ, key + ".json")
    if os.path.exists(obj) and os.path.exists(meta):
        try:
            m = json.load(open(meta))
            if all(file_hash(p) == h for p, h in m["deps"].items()):
                return obj
        except Exception:
            pass
    dep = os.path.join(OBJ, key + ".d")
    cmd = [CXX] + COMMON + flags + ["-I" + d for d in include_dirs()] + ["-MD", "-MF", dep, "-c", src, "-o", obj]
    r = subprocess.run(cmd, stdout=subprocess.PIPE, stderr=subprocess.STDOUT, text=True)
    if r.returncode != 0:
        for p in (obj, meta):
            try:
                os.unlink(p)
            except OSError:
                pass
        raise BuildError("compile failed: %s\n%s" % (src, r.stdout[-6000:]))
    deps = {p: file_hash(p) for p in parse_depfile(dep) if not p.startswith("/usr/")}
    json.dump({"deps": deps, "src": src}, open(meta, "w"))
    return obj


def lib_sources(lib):
    out = []
    for sub in ("src", "impl/src"):
        out += glob.glob(os.path.join(REPO, "libs", lib, sub, "**", "*.cpp"), recursive=True)
    return sorted(out)


def build(name, sources, libs, flavour="asan", extra_flags=(), link_flags=(), hook_libs=(), hook_sources=()):
    """Build build/bin/<name> from harness sources + the fcppt library sources
    (compiled from /repo) named in libs.  Libraries in hook_libs are compiled with
    TSan instrumentation and get their pthread calls redirected (engine S); their
    objects come first on the link line so that their (instrumented) copies of inline
    functions win."""
    gen_headers()
    flags = FLAVOURS[flavour] + list(extra_flags)
    hflags = FLAVOURS["tsanhook"] + list(extra_flags)
    tus = []
    for l in hook_libs:
        tus += [(s, hflags, True) for s in lib_sources(l)]
    # harness-side sources that must be instrumented like the hooked libraries (rt/sched/visible_std.cpp)
    tus += [(os.path.join(VERIF, s), hflags, True) for s in hook_sources]
    tus += [((os.path.join(VERIF, s) if not os.path.isabs(s) else s), flags, False) for s in sources]
    for l in libs:
        tus += [(s, flags, False) for s in lib_sources(l)]
    objs = [None] * len(tus)
    errs = []
    with concurrent.futures.ThreadPoolExecutor(max_workers=JOBS) as ex:
        futs = {ex.submit(compile_tu, s, f): i for i, (s, f, _) in enumerate(tus)}
        for f in concurrent.futures.as_completed(futs):
            try:
                objs[futs[f]] = f.result()
            except BuildError as e:
                errs.append(str(e))
    if errs:
        raise BuildError("\n".join(errs))
    objs = [hook_object(o) if tus[i][2] else o for i, o in enumerate(objs)]
    os.makedirs(BIN, exist_ok=True)
    out = os.path.join(BIN, name)
    san = [f for f in flags if f.startswith("-fsanitize=")]
    cmd = [CXX, "-pthread"] + san + objs + ["-o", out, "-ldl"] + list(link_flags)
    r = subprocess.run(cmd, stdout=subprocess.PIPE, stderr=subprocess.STDOUT, text=True)
    if r.returncode != 0:
        raise BuildError("link failed: %s\n%s" % (name, r.stdout[-6000:]))
    return out


def prune_cache(max_bytes=3 << 30):
    try:
        ents = [(os.stat(os.path.join(OBJ, f)).st_atime, os.stat(os.path.join(OBJ, f)).st_size, f)
                for f in os.listdir(OBJ)]
    except OSError:
        return
    tot = sum(e[1] for e in ents)
    for at, sz, f in sorted(ents):
        if tot <= max_bytes:
            break
        try:
            os.unlink(os.path.join(OBJ, f))
        except OSError:
            pass
        tot -= sz


SAN_ENV = {
    "ASAN_OPTIONS": "detect_leaks=0:abort_on_error=0:exitcode=99:allocator_may_return_null=1:"
                    "detect_stack_use_after_return=0:handle_abort=0:print_summary=1",
    "UBSAN_OPTIONS": "halt_on_error=1:exitcode=96:print_stacktrace=0",
    "LC_ALL": "C.UTF-8",
}


def load_findings():
    p = os.path.join(VERIF, "known_findings.json")
    try:
        return json.load(open(p))["findings"]
    except OSError:
        return []


def match_finding(prop, v, findings):
    for f in findings:
        if f.get("property") != prop or f.get("status") != "open":
            continue
        if not re.search(f["sig"], v["sig"]):
            continue
        if f.get("case") and not re.search(f["case"], v.get("case", "")):
            continue
        return f
    return None


def collect_violations(res):
    vs = list(res.get("crash_violations", []))
    for line in res.get("violation_lines", "").splitlines():
        line = line.strip()
        if not line:
            continue
        try:
            vs.append(json.loads(line))
        except ValueError:
            pass
    return vs


def merge_shards(res):
    tot = {"evaluations": 0, "nontrivial": 0, "complete": True, "restarts": 0, "samples": [],
           "counters": {}, "info": {}, "shards": []}
    for sh in res.get("shards", []):
        raw = sh.get("info", {}).get("raw")
        ev, nt = sh.get("evaluations", 0), sh.get("nontrivial", 0)
        complete = sh.get("complete", False)
        if raw:
            ev += raw.get("evaluations", 0)
            nt += raw.get("nontrivial", 0)
            complete = complete and raw.get("complete", False)
            for s in raw.get("samples", []):
                tot["samples"].append(s)
            for k, v in raw.get("counters", {}).items():
                tot["counters"][k] = tot["counters"].get(k, 0) + v
            for k, v in raw.get("info", {}).items():
                tot["info"].setdefault(k, v)
        else:
            complete = False
        tot["evaluations"] += ev
        tot["nontrivial"] += nt
        tot["restarts"] += sh.get("restarts", 0)
        tot["complete"] = tot["complete"] and complete
        tot["shards"].append({"name": sh.get("name"), "evaluations": ev, "nontrivial": nt,
                              "complete": complete, "wall_s": sh.get("wall_s")})
    return tot


def write_replay(prop, v, extra):
    os.makedirs(REPLAYS, exist_ok=True)
    h = hashlib.sha256((v["sig"] + "|" + v.get("case", "")).encode()).hexdigest()[:12]
    path = os.path.join(REPLAYS, "%s-%s.json" % (prop, h))
    d = {"property": prop, "sig": v["sig"], "what": v.get("what", ""), "case": v.get("case", ""),
         "shard": v.get("shard", ""), "index": v.get("index", 0)}
    d.update(extra)
    with open(path, "w") as f:
        json.dump(d, f, indent=1)
    return path


def validate_evidence(ev):
    """Validate against the official schema with python3-vt's jsonschema when it is
    available, and always with a small built-in check."""
    cov = ev.get("coverage", {})
    for k in ("property_id", "tier", "seed", "level", "coverage", "wall_s"):
        if k not in ev:
            return "missing " + k
    if ev["level"] == "model_checking" and all(k in cov for k in ("states", "transitions", "traces_validated_against_impl", "samples")):
        if cov["states"] < 1 or cov["transitions"] < 1 or not cov["samples"]:
            return "model_checking counts"
    elif cov.get("evaluations", 0) < 1 or cov.get("distinct_nontrivial", 0) < 2 or not cov.get("samples"):
        return "generic counts: evaluations=%s distinct_nontrivial=%s samples=%d" % (
            cov.get("evaluations"), cov.get("distinct_nontrivial"), len(cov.get("samples", [])))
    vt = shutil.which("python3-vt")
    schema_path = "/root/.vp/EVIDENCE.schema.json"
    if vt and os.path.exists(schema_path):
        code = ("import json,sys,jsonschema\n"
                "jsonschema.validate(json.load(sys.stdin), json.load(open(%r)))\n" % schema_path)
        r = subprocess.run([vt, "-c", code], input=json.dumps(ev), text=True, stdout=subprocess.PIPE,
                           stderr=subprocess.STDOUT)
        if r.returncode != 0 and "ValidationError" in r.stdout:
            return r.stdout[-600:]
    return None


def write_evidence(prop, ev):
    os.makedirs(EVIDENCE, exist_ok=True)
    err = validate_evidence(ev)
    path = os.path.join(EVIDENCE, prop + ".json")
    with open(path, "w") as f:
        json.dump(ev, f, indent=1)
        f.write("\n")
    return err


def judge(prop, violations, replay_extra):
    """Print KNOWN-FINDING / VIOLATION lines; return (n_unlisted, n_known)."""
    findings = load_findings()
    seen_known = {}
    unlisted = {}
    for v in violations:
        f = match_finding(prop, v, findings)
        if f:
            seen_known.setdefault(f["id"], (f, v))
        else:
            unlisted.setdefault(v["sig"], v)
    for fid, (f, v) in sorted(seen_known.items()):
        print("KNOWN-FINDING: property=%s %s: %s [e.g. %s]" % (prop, fid, f["what"], v.get("case", "")[:200]))
    for sig, v in sorted(unlisted.items()):
        path = write_replay(prop, v, replay_extra)
        print("  violation sig=%s case=%s what=%s" % (sig, v.get("case", "")[:300], v.get("what", "")[:300].replace("\n", " | ")))
        print("VIOLATION property=%s replay=%s" % (prop, path))
    return len(unlisted), len(seen_known)


def run_harness(prop, binary, tier, seed, deadline, extra_args=(), env_extra=None):
    rd = os.path.join(RUN, prop)
    shutil.rmtree(rd, ignore_errors=True)
    os.makedirs(rd, exist_ok=True)
    out = os.path.join(rd, "result.json")
    env = dict(os.environ)
    env.update(SAN_ENV)
    if env_extra:
        env.update(env_extra)
    cmd = [binary, "--tier", tier, "--seed", str(seed), "--out", out, "--tmp", rd,
           "--deadline", str(deadline), "--jobs", str(JOBS)] + list(extra_args)
    t0 = time.time()
    try:
        r = subprocess.run(cmd, env=env, stdout=subprocess.PIPE, stderr=subprocess.STDOUT, text=True,
                           timeout=deadline + 300)
        rc, outtxt = r.returncode, r.stdout
    except subprocess.TimeoutExpired as e:
        rc, outtxt = -9, (e.stdout or "") if isinstance(e.stdout, str) else ""
    wall = time.time() - t0
    res = None
    try:
        res = json.load(open(out))
    except Exception:
        pass
    return rc, outtxt, res, wall

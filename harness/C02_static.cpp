// C02: statically typed grammar family.  Each entry is a real, fully typed fcppt.parse
// expression (so tuple flattening, unit elision, variant de-duplication, construct,
// as_struct, lexeme, named, recursive/base/grammar are exercised), the AST that the reference
// interpreter evaluates, and a renderer that maps the typed result to the reference's
// canonical rendering of the *un-elided* derivation.
#include "C02_family.hpp"

#include <fcppt/make_cref.hpp>
#include <fcppt/nonmovable.hpp>
#include <fcppt/recursive_impl.hpp>
#include <fcppt/strong_typedef.hpp>
#include <fcppt/make_strong_typedef.hpp>
#include <fcppt/parse/as_struct.hpp>
#include <fcppt/parse/char.hpp>
#include <fcppt/parse/char_set.hpp>
#include <fcppt/parse/construct.hpp>
#include <fcppt/parse/float.hpp>
#include <fcppt/parse/make_lexeme.hpp>
#include <fcppt/parse/make_success.hpp>
#include <fcppt/parse/phrase_parse_string.hpp>
#include <fcppt/parse/make_convert.hpp>
#include <fcppt/parse/make_convert_if.hpp>
#include <fcppt/parse/fatal_tag.hpp>
#include <fcppt/parse/parse_string.hpp>
#include <fcppt/parse/convert_const.hpp>
#include <fcppt/parse/grammar.hpp>
#include <fcppt/parse/grammar_parse_string.hpp>
#include <fcppt/parse/literal.hpp>
#include <fcppt/parse/make_recursive.hpp>
#include <fcppt/parse/string.hpp>
#include <fcppt/parse/skipper/literal.hpp>
#include <fcppt/parse/skipper/space.hpp>
#include <fcppt/variant/match.hpp>
#include <fcppt/variant/object_impl.hpp>

#include <cmath>
#include <limits>
#include <sstream>

namespace
{
using namespace c02;
namespace p = fcppt::parse;

ast L(int k) { return ast{k, {}}; }
ast U(int k, ast a) { return ast{k, {std::move(a)}}; }
ast B(int k, ast a, ast b) { return ast{k, {std::move(a), std::move(b)}}; }

std::string ch(char c) { return std::string(1, c); }

std::vector<std::string> const &inputs()
{
  static std::vector<std::string> const v = all_strings("ab 1-", vrt::thorough() ? 5 : 4);
  return v;
}

template <class Parser, class Render>
void check_one(char const *name, Parser const &parser, ast const &a, Render const &render)
{
  auto run_sk = [&](int skk, auto const &skipper) {
    for (std::string const &in : inputs())
    {
      if (!vrt::begin_text("static", std::string("grammar ") + name + " = " + show(a) + " skipper " + skipper_name(skk) + " input \"" + in + "\""))
        continue;
      reference ref(in);
      rres const want = ref.phrase(a, skk);
      auto res = p::phrase_parse_string(parser, std::string(in), skipper);
      rres const got = fcppt::either::match(
          res, [](p::error<char> const &e) { return rres{e.is_fatal() ? 2 : 1, 0, ""}; },
          [&render](auto const &v) { return rres{0, 0, render(v)}; });
      vrt::nontrivial(want.status != 1);
      vrt::maybe_sample();
      if (got.status != want.status)
        vrt::fail(std::string("static:outcome:") + name, vrt::fmt("status %d, reference %d; value '%s' vs '%s'", got.status, want.status, got.val.c_str(), want.val.c_str()));
      else if (got.status == 0 && got.val != want.val)
        vrt::fail(std::string("static:value:") + name, "value '" + got.val + "', reference '" + want.val + "'");
    }
  };
  run_sk(SK_EPSILON, p::skipper::epsilon{});
  run_sk(SK_SPACE, p::skipper::space());
  run_sk(SK_LIT_SPACE, p::skipper::literal{' '});
}

// a recursive grammar through fcppt::parse::grammar / base / recursive:  P = lit(a) >> -P >> lit(b),
// result = nesting depth
template <class Skipper> class nest_grammar : public p::grammar<unsigned, char, Skipper>
{
  FCPPT_NONMOVABLE(nest_grammar);
  using gb = p::grammar<unsigned, char, Skipper>;

public:
  explicit nest_grammar(Skipper sk)
      : gb{fcppt::make_cref(this->start_), std::move(sk)},
        start_{gb::make_base(p::make_convert(
            p::literal{'a'} >> -p::make_recursive(fcppt::make_cref(this->start_)) >> p::literal{'b'},
            [](fcppt::optional::object<fcppt::recursive<unsigned>> &&o) { return 1U + (o.has_value() ? o.get_unsafe().get() : 0U); }))}
  {
  }
  ~nest_grammar() = default;

private:
  typename gb::template base_type<unsigned> start_;
};

std::string nest_render(unsigned d) { return d <= 1 ? std::string("((u,N),u)") : "((u,S" + nest_render(d - 1) + "),u)"; }

template <class Skipper> void recursive_one(int skk, Skipper const &sk)
{
  ast const root = B(B_SEQ, B(B_SEQ, L(L_LIT_A), U(U_OPT, L(L_REC))), L(L_LIT_B));
  nest_grammar<Skipper> const g{Skipper(sk)};
  for (std::string const &in : all_strings("ab ", vrt::thorough() ? 8 : 6))
  {
    if (!vrt::begin_text("static", std::string("grammar nest: P = lit(a) >> -P >> lit(b) skipper ") + skipper_name(skk) + " input \"" + in + "\""))
      continue;
    reference ref(in);
    ref.rec_root = &root;
    rres const want = ref.phrase(root, skk);
    auto res = p::grammar_parse_string(std::string(in), g);
    rres const got = fcppt::either::match(
        res, [](p::error<char> const &e) { return rres{e.is_fatal() ? 2 : 1, 0, ""}; }, [](unsigned d) { return rres{0, 0, nest_render(d)}; });
    vrt::nontrivial(want.status == 0);
    vrt::maybe_sample();
    if (got.status != want.status)
      vrt::fail("static:outcome:nest_grammar", vrt::fmt("status %d, reference %d", got.status, want.status));
    else if (got.status == 0 && got.val != want.val)
      vrt::fail("static:value:nest_grammar", "value '" + got.val + "', reference '" + want.val + "'");
  }
}

void recursive_grammars()
{
  recursive_one(SK_EPSILON, p::skipper::epsilon{});
  recursive_one(SK_SPACE, p::skipper::space());
  recursive_one(SK_LIT_SPACE, p::skipper::literal{' '});
}

struct two_chars
{
  char first;
  char second;
};
FCPPT_MAKE_STRONG_TYPEDEF(char, strong_char);

template <class Seq, class F> std::string join_chars(Seq const &v, F f)
{
  std::string o = "[";
  for (std::size_t i = 0; i < v.size(); ++i)
    o += (i ? ";" : "") + f(v[i]);
  return o + "]";
}

void typed_results()
{
  // unit elision inside a sequence: lit(a) >> char_ >> lit(b)  ->  char
  check_one("unit_elision", p::literal{'a'} >> p::char_{} >> p::literal{'b'}, B(B_SEQ, B(B_SEQ, L(L_LIT_A), L(L_CHAR)), L(L_LIT_B)),
            [](char c) { return "((u," + ch(c) + "),u)"; });
  // all units: lit(a) >> lit(b) -> unit
  check_one("all_units", p::literal{'a'} >> p::literal{'b'}, B(B_SEQ, L(L_LIT_A), L(L_LIT_B)), [](fcppt::unit) { return std::string("(u,u)"); });
  // tuple flattening, left nested
  check_one("flatten_left", p::char_{} >> p::char_{} >> p::char_{}, B(B_SEQ, B(B_SEQ, L(L_CHAR), L(L_CHAR)), L(L_CHAR)),
            [](fcppt::tuple::object<char, char, char> const &t) {
              return "((" + ch(fcppt::tuple::get<0>(t)) + "," + ch(fcppt::tuple::get<1>(t)) + ")," + ch(fcppt::tuple::get<2>(t)) + ")";
            });
  // tuple flattening, both sides nested
  check_one("flatten_both", (p::char_{} >> p::char_{}) >> (p::char_{} >> p::char_{}),
            B(B_SEQ, B(B_SEQ, L(L_CHAR), L(L_CHAR)), B(B_SEQ, L(L_CHAR), L(L_CHAR))), [](fcppt::tuple::object<char, char, char, char> const &t) {
              return "((" + ch(fcppt::tuple::get<0>(t)) + "," + ch(fcppt::tuple::get<1>(t)) + "),(" + ch(fcppt::tuple::get<2>(t)) + "," +
                     ch(fcppt::tuple::get<3>(t)) + "))";
            });
  // right nested with a unit in the middle
  check_one("flatten_right_unit", p::char_{} >> (p::literal{'a'} >> p::char_{}), B(B_SEQ, L(L_CHAR), B(B_SEQ, L(L_LIT_A), L(L_CHAR))),
            [](fcppt::tuple::object<char, char> const &t) { return "(" + ch(fcppt::tuple::get<0>(t)) + ",(u," + ch(fcppt::tuple::get<1>(t)) + "))"; });
  // alternative of different types -> variant; ordered choice visible in the alternative taken
  check_one("variant", p::uint<unsigned>{} | p::char_{}, B(B_ALT, L(L_UINT), L(L_CHAR)), [](fcppt::variant::object<unsigned, char> const &v) {
    return fcppt::variant::match(
        v, [](unsigned u) { return std::to_string(u); }, [](char c) { return ch(c); });
  });
  // variant de-duplication: (char_set | uint) | char_  -> variant<char, unsigned>
  check_one("variant_dedup", (p::char_set{'a', 'b'} | p::uint<unsigned>{}) | p::char_{}, B(B_ALT, B(B_ALT, L(L_CS_AB), L(L_UINT)), L(L_CHAR)),
            [](fcppt::variant::object<char, unsigned> const &v) {
              return fcppt::variant::match(
                  v, [](char c) { return ch(c); }, [](unsigned u) { return std::to_string(u); });
            });
  // alternative of equal types collapses to the type
  check_one("variant_collapse", p::char_set{'a', 'b'} | p::char_{}, B(B_ALT, L(L_CS_AB), L(L_CHAR)), [](char c) { return ch(c); });
  // repetition of a sequence with an elided unit
  check_one("rep_seq", *(p::literal{'a'} >> p::char_{}), U(U_REP, B(B_SEQ, L(L_LIT_A), L(L_CHAR))),
            [](auto const &v) { return join_chars(v, [](char c) { return "(u," + ch(c) + ")"; }); });
  // optional unit next to a value
  check_one("opt_unit", -p::literal{'a'} >> p::char_{}, B(B_SEQ, U(U_OPT, L(L_LIT_A)), L(L_CHAR)),
            [](fcppt::tuple::object<fcppt::optional::object<fcppt::unit>, char> const &t) {
              return "(" + std::string(fcppt::tuple::get<0>(t).has_value() ? "Su" : "N") + "," + ch(fcppt::tuple::get<1>(t)) + ")";
            });
  // lexeme switches the skipper off inside, and on again outside
  check_one("lexeme", p::make_lexeme(p::char_{} >> p::char_{}) >> p::char_{}, B(B_SEQ, U(U_LEXEME, B(B_SEQ, L(L_CHAR), L(L_CHAR))), L(L_CHAR)),
            [](fcppt::tuple::object<char, char, char> const &t) {
              return "((" + ch(fcppt::tuple::get<0>(t)) + "," + ch(fcppt::tuple::get<1>(t)) + ")," + ch(fcppt::tuple::get<2>(t)) + ")";
            });
  check_one("lexeme_rep", p::make_lexeme(+p::char_set{'a', 'b'}) >> *p::literal{'a'}, B(B_SEQ, U(U_LEXEME, U(U_PLUS, L(L_CS_AB))), U(U_REP, L(L_LIT_A))),
            [](auto const &t) {
              std::string r = "(" + join_chars(fcppt::tuple::get<0>(t), [](char c) { return ch(c); }) + ",[";
              for (std::size_t i = 0; i < fcppt::tuple::get<1>(t).size(); ++i)
                r += i ? ";u" : "u";
              return r + "])";
            });
  // negative lookahead consumes nothing
  check_one("not", !p::literal{'a'} >> p::char_{}, B(B_SEQ, U(U_NOT, L(L_LIT_A)), L(L_CHAR)), [](char c) { return "(u," + ch(c) + ")"; });
  // the operand of a negative lookahead is parsed with the skipper in effect
  check_one("not_sequence", !(p::literal{'a'} >> p::literal{'b'}) >> *p::char_{}, B(B_SEQ, U(U_NOT, B(B_SEQ, L(L_LIT_A), L(L_LIT_B))), U(U_REP, L(L_CHAR))),
            [](auto const &v) { return "(u," + join_chars(v, [](char c) { return ch(c); }) + ")"; });
  check_one("not_repetition_then", !(p::make_ignore(*p::literal{'a'}) >> p::literal{'b'}) >> *p::char_{},
            B(B_SEQ, U(U_NOT, B(B_SEQ, U(U_IGNORE, U(U_REP, L(L_LIT_A))), L(L_LIT_B))), U(U_REP, L(L_CHAR))),
            [](auto const &v) { return "(u," + join_chars(v, [](char c) { return ch(c); }) + ")"; });
  // fatal stops backtracking; fatal under not_ is absorbed
  check_one("fatal_alt", (p::literal{'a'} >> p::make_fatal(p::literal{'b'})) | (p::literal{'a'} >> p::literal{'a'}),
            B(B_ALT, B(B_SEQ, L(L_LIT_A), U(U_FATAL, L(L_LIT_B))), B(B_SEQ, L(L_LIT_A), L(L_LIT_A))), [](fcppt::unit) { return std::string("(u,u)"); });
  check_one("fatal_under_not", !p::make_fatal(p::literal{'a'}) >> p::char_{}, B(B_SEQ, U(U_NOT, U(U_FATAL, L(L_LIT_A))), L(L_CHAR)),
            [](char c) { return "(u," + ch(c) + ")"; });
  check_one("named_fatal_alt", p::named{p::make_fatal(p::literal{'a'}), std::string{"x"}} | p::literal{'b'},
            B(B_ALT, U(U_NAMED, U(U_FATAL, L(L_LIT_A))), L(L_LIT_B)), [](fcppt::unit) { return std::string("u"); });
  check_one("fatal_in_rep", *(p::literal{'a'} >> p::make_fatal(p::char_set{'a', 'b'})), U(U_REP, B(B_SEQ, L(L_LIT_A), U(U_FATAL, L(L_CS_AB)))),
            [](auto const &v) { return join_chars(v, [](char c) { return "(u," + ch(c) + ")"; }); });
  check_one("fatal_in_opt", -(p::literal{'a'} >> p::make_fatal(p::literal{'b'})) >> *p::char_{},
            B(B_SEQ, U(U_OPT, B(B_SEQ, L(L_LIT_A), U(U_FATAL, L(L_LIT_B)))), U(U_REP, L(L_CHAR))),
            [](auto const &t) {
              return "(" + std::string(fcppt::tuple::get<0>(t).has_value() ? "S(u,u)" : "N") + "," +
                     join_chars(fcppt::tuple::get<1>(t), [](char c) { return ch(c); }) + ")";
            });
  // a conversion function that reports a FATAL error: like make_fatal, it stops backtracking in every enclosing
  // alternative, optional and repetition (the error's flag is the callback's, not the combinator's)
  {
    auto const fatal_if_b = [](char c) -> p::result<char, std::string> {
      if (c == 'b')
        return p::result<char, std::string>{p::error<char>{std::string("no b"), p::fatal_tag{}}};
      return p::make_success<char>("<" + ch(c) + ">");
    };
    check_one("convert_if_fatal_alt", p::make_convert_if(p::char_set{'a', 'b'}, fatal_if_b) | p::make_convert(p::char_{}, [](char c) { return ch(c); }),
              B(B_ALT, U(U_CONVERT_IF_FATAL, L(L_CS_AB)), L(L_CHAR)), [](std::string const &v) { return v; });
    check_one("convert_if_fatal_opt", -p::make_convert_if(p::char_set{'a', 'b'}, fatal_if_b) >> *p::char_{},
              B(B_SEQ, U(U_OPT, U(U_CONVERT_IF_FATAL, L(L_CS_AB))), U(U_REP, L(L_CHAR))), [](auto const &t) {
                return "(" + (fcppt::tuple::get<0>(t).has_value() ? "S" + fcppt::tuple::get<0>(t).get_unsafe() : std::string("N")) + "," +
                       join_chars(fcppt::tuple::get<1>(t), [](char c) { return ch(c); }) + ")";
              });
    check_one("convert_if_fatal_rep", *p::make_convert_if(p::char_set{'a', 'b'}, fatal_if_b) >> *p::char_{},
              B(B_SEQ, U(U_REP, U(U_CONVERT_IF_FATAL, L(L_CS_AB))), U(U_REP, L(L_CHAR))), [](auto const &t) {
                return "(" + join_chars(fcppt::tuple::get<0>(t), [](std::string const &x) { return x; }) + "," +
                       join_chars(fcppt::tuple::get<1>(t), [](char c) { return ch(c); }) + ")";
              });
    // the same three with a conversion function that fails NON-fatally: backtracking goes on
    auto const fail_if_b = [](char c) -> p::result<char, std::string> {
      if (c == 'b')
        return p::result<char, std::string>{p::error<char>{std::string("no b")}};
      return p::make_success<char>("<" + ch(c) + ">");
    };
    check_one("convert_if_alt", p::make_convert_if(p::char_set{'a', 'b'}, fail_if_b) | p::make_convert(p::char_{}, [](char c) { return ch(c); }),
              B(B_ALT, U(U_CONVERT_IF, L(L_CS_AB)), L(L_CHAR)), [](std::string const &v) { return v; });
    check_one("convert_if_rep", *p::make_convert_if(p::char_set{'a', 'b'}, fail_if_b) >> *p::char_{},
              B(B_SEQ, U(U_REP, U(U_CONVERT_IF, L(L_CS_AB))), U(U_REP, L(L_CHAR))), [](auto const &t) {
                return "(" + join_chars(fcppt::tuple::get<0>(t), [](std::string const &x) { return x; }) + "," +
                       join_chars(fcppt::tuple::get<1>(t), [](char c) { return ch(c); }) + ")";
              });
    // a conversion function that itself runs a string parse (same character type, same thread) while the outer string
    // parse is in progress: the nested parse decides "contains no b" by parsing the token with *cs{a}
    auto const nested = [](std::string &&v) -> p::result<char, std::string> {
      std::string const tok(v);
      auto const inner = p::parse_string(*p::char_set{'a'}, std::string(tok));
      if (inner.has_failure())
        return p::result<char, std::string>{p::error<char>{std::string("inner parse failed")}};
      return p::make_success<char>("<" + join_chars(v, [](char c) { return ch(c); }) + ">");
    };
    check_one("nested_string_parse_in_callback", *p::make_convert_if(p::make_lexeme(+p::char_set{'a', 'b'}), nested) >> *p::char_{},
              B(B_SEQ, U(U_REP, U(U_CONVERT_IF, U(U_LEXEME, U(U_PLUS, L(L_CS_AB))))), U(U_REP, L(L_CHAR))), [](auto const &t) {
                return "(" + join_chars(fcppt::tuple::get<0>(t), [](std::string const &x) { return x; }) + "," +
                       join_chars(fcppt::tuple::get<1>(t), [](char c) { return ch(c); }) + ")";
              });
    auto const nested_phrase = [](std::string &&v) -> p::result<char, std::string> {
      std::string const tok(v);
      auto const inner = p::phrase_parse_string(*p::char_set{'a'}, " " + tok + " ", p::skipper::space());
      if (inner.has_failure())
        return p::result<char, std::string>{p::error<char>{std::string("inner parse failed")}};
      return p::make_success<char>("<" + join_chars(v, [](char c) { return ch(c); }) + ">");
    };
    check_one("nested_phrase_parse_in_callback", p::make_convert_if(p::make_lexeme(+p::char_set{'a', 'b'}), nested_phrase) >> *p::char_{},
              B(B_SEQ, U(U_CONVERT_IF, U(U_LEXEME, U(U_PLUS, L(L_CS_AB)))), U(U_REP, L(L_CHAR))), [](auto const &t) {
                return "(" + fcppt::tuple::get<0>(t) + "," + join_chars(fcppt::tuple::get<1>(t), [](char c) { return ch(c); }) + ")";
              });
  }
  // failure after partial consumption deep inside a sequence, rescued by an outer alternative
  check_one("deep_rewind", ((p::char_{} >> p::char_{} >> p::literal{'a'}) | (p::char_{} >> p::literal{'b'})) >> *p::char_{},
            B(B_SEQ, B(B_ALT, B(B_SEQ, B(B_SEQ, L(L_CHAR), L(L_CHAR)), L(L_LIT_A)), B(B_SEQ, L(L_CHAR), L(L_LIT_B))), U(U_REP, L(L_CHAR))),
            [](auto const &t) {
              std::string first = fcppt::variant::match(
                  fcppt::tuple::get<0>(t),
                  [](fcppt::tuple::object<char, char> const &x) { return "((" + ch(fcppt::tuple::get<0>(x)) + "," + ch(fcppt::tuple::get<1>(x)) + "),u)"; },
                  [](char c) { return "(" + ch(c) + ",u)"; });
              return "(" + first + "," + join_chars(fcppt::tuple::get<1>(t), [](char c) { return ch(c); }) + ")";
            });
  // optional in repetition in alternative
  check_one("opt_in_rep_in_alt", *(p::literal{'a'} >> -p::literal{'b'}) | *p::char_{},
            B(B_ALT, U(U_REP, B(B_SEQ, L(L_LIT_A), U(U_OPT, L(L_LIT_B)))), U(U_REP, L(L_CHAR))),
            [](auto const &v) {
              return fcppt::variant::match(
                  v,
                  [](std::vector<fcppt::optional::object<fcppt::unit>> const &x) {
                    std::string o = "[";
                    for (std::size_t i = 0; i < x.size(); ++i)
                      o += std::string(i ? ";" : "") + "(u," + (x[i].has_value() ? "Su" : "N") + ")";
                    return o + "]";
                  },
                  [](std::string const &x) { return join_chars(x, [](char c) { return ch(c); }); });
            });
  // construct / as_struct / convert_const keep the derivation's values
  check_one("construct", p::construct<strong_char>(p::char_{}) >> p::literal{'a'}, B(B_SEQ, L(L_CHAR), L(L_LIT_A)),
            [](strong_char const &c) { return "(" + ch(c.get()) + ",u)"; });
  check_one("as_struct", p::as_struct<two_chars>(p::char_{} >> p::char_{}), B(B_SEQ, L(L_CHAR), L(L_CHAR)),
            [](two_chars const &t) { return "(" + ch(t.first) + "," + ch(t.second) + ")"; });
  check_one("convert_const", p::convert_const{p::literal{'a'}, 7} | p::convert_const{p::literal{'b'}, 8}, B(B_ALT, L(L_LIT_A), L(L_LIT_B)),
            [](int) { return std::string("u"); });
  // numbers with the skipper between them
  check_one("int_int", p::int_<int>{} >> p::int_<int>{}, B(B_SEQ, L(L_INT), L(L_INT)),
            [](fcppt::tuple::object<int, int> const &t) { return "(" + std::to_string(fcppt::tuple::get<0>(t)) + "," + std::to_string(fcppt::tuple::get<1>(t)) + ")"; });
  check_one("sep_typed", p::separator{p::char_set{'a', 'b'}, p::literal{'b'}}, U(U_SEP, L(L_CS_AB)),
            [](auto const &v) { return join_chars(v, [](char c) { return ch(c); }); });
  check_one("list_typed", p::list{p::literal{'a'}, p::uint<unsigned>{}, p::literal{'b'}, p::literal{'a'}}, U(U_LIST, L(L_UINT)),
            [](std::vector<unsigned> const &v) {
              std::string o = "[";
              for (std::size_t i = 0; i < v.size(); ++i)
                o += (i ? ";" : "") + std::to_string(v[i]);
              return o + "]";
            });
}

// ---------------------------------------------------------------- numeric leaves on long inputs
// The enumerated families use strings of length <= 5; the numeric parsers have their interesting
// inputs at the limits of the result type.  Reference for the *conversion* of the matched digits is
// the classic-locale stream extraction into exactly the parser's result type (trusted here, checked
// by C15/C01); the reference for *what is matched* is the documented grammar.
template <class T> std::optional<T> stream_extract(std::string const &text)
{
  std::istringstream is(text);
  is.imbue(std::locale::classic());
  T v{};
  is >> v;
  if (is.fail() || is.peek() != std::istringstream::traits_type::eof())
    return std::nullopt;
  return v;
}

template <class T> bool same_float(T a, T b) { return (a == b && std::signbit(a) == std::signbit(b)) || (std::isnan(a) && std::isnan(b)); }

// grammar of float_: lexeme( -'-' >> +digit >> '.' >> +digit ); the whole input must be consumed
static bool match_float(std::string const &in, bool &neg, std::string &digits)
{
  std::size_t i = 0;
  neg = false;
  if (i < in.size() && in[i] == '-')
  {
    neg = true;
    ++i;
  }
  std::size_t const a = i;
  while (i < in.size() && in[i] >= '0' && in[i] <= '9')
    ++i;
  if (i == a || i >= in.size() || in[i] != '.')
    return false;
  ++i;
  std::size_t const b = i;
  while (i < in.size() && in[i] >= '0' && in[i] <= '9')
    ++i;
  if (i == b || i != in.size())
    return false;
  digits = in.substr(a);
  return true;
}

template <class T> void float_type(char const *tname, std::vector<std::string> const &inputs)
{
  static std::string tag;
  tag = std::string("float_<") + tname + ">";
  p::float_<T> const parser{};
  for (std::string const &in : inputs)
  {
    if (!vrt::begin_text(tag.c_str(), tag + " input \"" + in + "\""))
      continue;
    bool neg = false;
    std::string digits;
    std::optional<T> want;
    if (match_float(in, neg, digits))
    {
      want = stream_extract<T>(digits);
      if (want && neg)
        want = -*want;
    }
    vrt::nontrivial(want.has_value());
    vrt::maybe_sample();
    auto res = p::parse_string(parser, std::string(in));
    std::optional<T> const got = fcppt::either::match(
        res, [](p::error<char> const &) { return std::optional<T>(); }, [](T v) { return std::optional<T>(v); });
    if (got.has_value() != want.has_value())
      vrt::fail("static:outcome:" + tag, got ? "parser succeeds, reference fails" : "parser fails, reference succeeds");
    else if (got && !same_float(*got, *want))
      vrt::fail("static:value:" + tag, vrt::fmt("value %.25Lg, reference %.25Lg", static_cast<long double>(*got), static_cast<long double>(*want)));
  }
}

void float_leaves()
{
  std::vector<std::string> inputs = all_strings("105.-", vrt::thorough() ? 6 : 5);
  // values that separate float / double / long double and sit at the limits of each type
  for (char const *s : {"0.1", "0.3", "1.1", "123456789.123456789", "16777217.0", "9007199254740993.0", "18446744073709551617.0",
                        "1.0000000596046447753906250000001", "1.00000005960464477539062500000000", "0.000000000000000000000000000000000000000000001",
                        "340282346638528859811704183484516925440.0", "340282356779733661637539395458142568448.0", "340282366920938463463374607431768211456.0",
                        "-340282366920938463463374607431768211456.0", "1.7976931348623157", "0.30000000000000004", "4.9406564584124654",
                        "3.4028234663852886", "-0.0", "00.50", "-000.125"})
    inputs.push_back(s);
  {
    std::string big = "1";
    for (int i = 0; i < 310; ++i)
      big += "0";
    inputs.push_back(big + ".0");   // above DBL_MAX
    inputs.push_back("-" + big + ".5");
    inputs.push_back("0." + big.substr(1) + "1"); // far below DBL_MIN
  }
  float_type<float>("float", inputs);
  float_type<double>("double", inputs);
  float_type<long double>("long double", inputs);
}

static std::vector<std::string> integer_boundary_strings()
{
  std::vector<std::string> v;
  unsigned __int128 const one = 1;
  for (int bits : {7, 8, 15, 16, 31, 32, 63, 64})
    for (int d = -2; d <= 2; ++d)
    {
      unsigned __int128 x = (one << bits) + static_cast<unsigned __int128>(d + 2) - 2;
      std::string sx;
      do
      {
        sx.insert(sx.begin(), static_cast<char>('0' + static_cast<int>(x % 10)));
        x /= 10;
      } while (x != 0);
      v.push_back(sx);
      v.push_back("-" + sx);
      for (std::size_t pad : {std::size_t(1), std::size_t(2), std::size_t(8), std::size_t(20), std::size_t(40)})
      {
        v.push_back(std::string(pad, '0') + sx); // leading zeros never change the value, however long the token gets
        if (bits == 31 && d == 0)
          v.push_back("-" + std::string(pad, '0') + sx);
      }
      v.push_back(sx + "0");
    }
  for (std::size_t pad : {std::size_t(9), std::size_t(10), std::size_t(11), std::size_t(19), std::size_t(20), std::size_t(21), std::size_t(64)})
  {
    v.push_back(std::string(pad, '0') + "42");
    v.push_back(std::string(pad, '0'));
  }
  for (char const *s : {"0", "-0", "1", "-1", "007", "-007", "99999999999999999999999999999999999999", "-", "--1", "+1", "1-"})
    v.push_back(s);
  return v;
}

template <class T> void int_type(char const *tname)
{
  static std::string tag;
  tag = std::string("int_<") + tname + ">";
  p::int_<T> const parser{};
  for (std::string const &in : integer_boundary_strings())
  {
    if (!vrt::begin_text(tag.c_str(), tag + " input \"" + in + "\""))
      continue;
    // grammar: lexeme( -'-' >> +digit ), the magnitude is converted to T, then negated
    std::size_t i = (!in.empty() && in[0] == '-') ? 1 : 0;
    bool all = i < in.size();
    for (std::size_t k = i; k < in.size(); ++k)
      all = all && in[k] >= '0' && in[k] <= '9';
    std::optional<T> want;
    if (all)
    {
      want = stream_extract<T>(in.substr(i));
      if (want && i == 1)
        want = static_cast<T>(-*want);
    }
    vrt::nontrivial(want.has_value());
    vrt::maybe_sample();
    auto res = p::parse_string(parser, std::string(in));
    std::optional<T> const got = fcppt::either::match(
        res, [](p::error<char> const &) { return std::optional<T>(); }, [](T v) { return std::optional<T>(v); });
    if (got.has_value() != want.has_value())
      vrt::fail("static:outcome:" + tag, got ? "parser succeeds, reference fails" : "parser fails, reference succeeds");
    else if (got && *got != *want)
      vrt::fail("static:value:" + tag, "value " + std::to_string(*got) + ", reference " + std::to_string(*want));
  }
}

template <class T> void uint_type(char const *tname)
{
  static std::string tag;
  tag = std::string("uint<") + tname + ">";
  p::uint<T> const parser{};
  for (std::string const &in : integer_boundary_strings())
  {
    if (!vrt::begin_text(tag.c_str(), tag + " input \"" + in + "\""))
      continue;
    bool all = !in.empty();
    for (char ch : in)
      all = all && ch >= '0' && ch <= '9';
    std::optional<T> const want = all ? stream_extract<T>(in) : std::nullopt;
    vrt::nontrivial(want.has_value());
    auto res = p::parse_string(parser, std::string(in));
    std::optional<T> const got = fcppt::either::match(
        res, [](p::error<char> const &) { return std::optional<T>(); }, [](T v) { return std::optional<T>(v); });
    if (got.has_value() != want.has_value())
      vrt::fail("static:outcome:" + tag, got ? "parser succeeds, reference fails" : "parser fails, reference succeeds");
    else if (got && *got != *want)
      vrt::fail("static:value:" + tag, "value " + std::to_string(*got) + ", reference " + std::to_string(*want));
  }
}

void integer_boundaries()
{
  int_type<int>("int");
  int_type<long>("long");
  int_type<long long>("long long");
  uint_type<unsigned short>("unsigned short");
  uint_type<unsigned>("unsigned");
  uint_type<unsigned long>("unsigned long");
}
}

namespace c02
{
// ---------------------------------------------------------------- long repetitions (scale lattice)
// "repetitions ... are greedy and never fail": *char_ on n characters yields those n characters, and the space skipper
// in front of a literal skips n blanks, for n up to 2^20 (a repetition whose stack use grows with n dies under ASan)
static void long_repetitions()
{
  namespace fp = fcppt::parse;
  for (std::size_t n : {std::size_t(0), std::size_t(1), std::size_t(17), std::size_t(4096), std::size_t(65536), std::size_t(1) << 20})
  {
    if (vrt::begin("long_repetition:*char_", n))
    {
      vrt::nontrivial(n >= 4096);
      std::string in(n, 'a');
      if (n > 2)
        in[n / 2] = 'b';
      auto const parser = *fp::char_{};
      auto const r = fp::parse_string(parser, std::string(in));
      bool const ok = r.has_success() && std::string(r.get_success_unsafe().begin(), r.get_success_unsafe().end()) == in;
      VRT_CHECK(ok, "static:outcome:long_repetition:*char_", "*char_ on %zu characters: %s", n, r.has_success() ? "wrong value" : "failed");
    }
    if (vrt::begin("long_repetition:space_skipper", n))
    {
      vrt::nontrivial(n >= 4096);
      std::string const in = std::string(n, ' ') + "x";
      auto const parser = fp::literal{'x'};
      auto const r = fp::phrase_parse_string(parser, std::string(in), fp::skipper::space());
      VRT_CHECK(r.has_success(), "static:outcome:long_repetition:space_skipper", "space() did not skip %zu blanks", n);
    }
  }
}

void register_static()
{
  vrt::shard("static/typed_results", [] { typed_results(); }, 120);
  vrt::shard("static/recursive_grammar", [] { recursive_grammars(); }, 120);
  vrt::shard("static/long_repetitions", [] { long_repetitions(); }, 120);
  vrt::shard("static/float", [] { float_leaves(); }, 120);
  vrt::shard("static/integer_boundaries", [] { integer_boundaries(); }, 120);
}
}

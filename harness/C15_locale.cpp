// C15 -- the *_locale entry points must use the GIVEN locale, for writing and for reading:
// output_to_string_locale / output_to_std_string_locale / output_to_std_wstring_locale /
// output_to_fcppt_string_locale -> extract_from_string_locale, with locales that group digits
// and/or use a different decimal point (classic + custom numpunct facets, since only C and
// C.UTF-8 are installed), under several *global* locales; and the non-_locale forms
// (insert_extract_locale() == the global locale) under a grouping global locale.
//
// Reference: the decimal printer of C15_common.hpp plus a hand-written digit grouping
// (groups counted from the right, sizes taken from grouping(), last size repeated).
// Oracle: (a) the text written with loc is the loc-formatted number, narrow and wide,
// (b) reading that text with the same loc gives the value back, whatever the global locale is,
// (c) reading a text that contains a separator with the classic locale does not give the value
//     (the classic locale stops at the separator and the string must be consumed completely).
#include "C15_common.hpp"

#include <fcppt/extract_from_string.hpp>
#include <fcppt/extract_from_string_locale.hpp>
#include <fcppt/output_to_fcppt_string.hpp>
#include <fcppt/output_to_fcppt_string_locale.hpp>
#include <fcppt/output_to_std_string.hpp>
#include <fcppt/output_to_std_string_locale.hpp>
#include <fcppt/output_to_std_wstring.hpp>
#include <fcppt/output_to_std_wstring_locale.hpp>
#include <fcppt/output_to_string.hpp>
#include <fcppt/output_to_string_locale.hpp>
#include <fcppt/string.hpp>
#include <fcppt/optional/object_impl.hpp>

#include <cstdio>
#include <cstdlib>
#include <cstring>
#include <locale>
#include <string>

namespace
{
using namespace c15;

struct locspec
{
  char const *name;
  char const *base;     // "C" or "C.UTF-8"
  char sep;             // 0: no numpunct facet installed
  char dp;
  char const *grouping; // numpunct::grouping()
};

constexpr locspec specs[] = {
    {"classic", "C", 0, '.', ""},
    {"C.UTF-8", "C.UTF-8", 0, '.', ""},
    {"comma3", "C", ',', '.', "\3"},        // 1,234,567.5   (en_US like)
    {"dot3", "C", '.', ',', "\3"},          // 1.234.567,5   (de_DE like)
    {"indian", "C.UTF-8", '\'', '.', "\3\2"}, // 12'34'567
    {"under1", "C", '_', ',', "\1"},        // 1_2_3_4
};
constexpr int n_specs = sizeof(specs) / sizeof(specs[0]);

template <class Ch> struct punct : std::numpunct<Ch>
{
  locspec sp;
  explicit punct(locspec const &s) : std::numpunct<Ch>(std::size_t{0}), sp(s) {}
  Ch do_thousands_sep() const override { return static_cast<Ch>(sp.sep); }
  Ch do_decimal_point() const override { return static_cast<Ch>(sp.dp); }
  std::string do_grouping() const override { return sp.grouping; }
};

std::locale make_locale(locspec const &s)
{
  std::locale const base(s.base);
  if (s.sep == 0)
    return base;
  return std::locale(std::locale(base, new punct<char>(s)), new punct<wchar_t>(s));
}

// digits (no sign) grouped per numpunct semantics
std::string group_digits(std::string const &digits, locspec const &s)
{
  if (s.sep == 0 || s.grouping[0] == 0)
    return digits;
  std::string r;
  std::size_t gi = 0;
  int left = s.grouping[0];
  for (std::size_t i = digits.size(); i-- > 0;)
  {
    if (left == 0)
    {
      r.insert(r.begin(), s.sep);
      if (s.grouping[gi + 1] != 0)
        ++gi;
      left = s.grouping[gi];
    }
    r.insert(r.begin(), digits[i]);
    --left;
  }
  return r;
}

std::string ref_int_text(i128 v, locspec const &s)
{
  std::string const d = dec(v);
  return v < 0 ? "-" + group_digits(d.substr(1), s) : group_digits(d, s);
}

std::wstring wide(std::string const &s)
{
  std::wstring r;
  for (char c : s)
    r += static_cast<wchar_t>(static_cast<unsigned char>(c));
  return r;
}
std::string narrow_ascii(std::wstring const &s)
{
  std::string r;
  for (wchar_t c : s)
    r += (c >= 0x20 && c < 0x7f) ? static_cast<char>(c) : '?';
  return r;
}

template <class T> std::string val_text(T v)
{
  if constexpr (std::is_floating_point_v<T>)
    return vrt::fmt("%.17g", static_cast<double>(v));
  else
    return dec(static_cast<i128>(v));
}

template <class T> std::string opt_text(fcppt::optional::object<T> const &r) { return r.has_value() ? val_text(r.get_unsafe()) : "nothing"; }

// one (value, locale) pair through every *_locale entry point
template <class T>
void locale_case(std::string const &name, T v, locspec const &sp, std::locale const &loc, std::string const &want /* empty: not asserted */)
{
  std::locale const classic = std::locale::classic();
  std::string const vt = val_text(v);
  // ---- narrow producers
  std::string const outs[3] = {fcppt::output_to_std_string_locale(v, loc), fcppt::output_to_string_locale<std::string>(v, loc),
                               fcppt::output_to_fcppt_string_locale(v, loc)};
  char const *const outn[3] = {"output_to_std_string_locale", "output_to_string_locale<std::string>", "output_to_fcppt_string_locale"};
  for (int k = 0; k < 3; ++k)
  {
    std::string const &s = outs[k];
    // output_to_string_locale: "Convert an arbitrary type to a string, using a custom locale" through the type's
    // operator<<: for an integer that is the locale's num_put text (digits grouped per numpunct)
    if (!want.empty())
      VRT_CHECK(s == want, name + ":output_not_in_locale", "%s(%s, %s) = \"%s\" want \"%s\"", outn[k], vt.c_str(), sp.name, s.c_str(),
                want.c_str());
    fcppt::optional::object<T> const r = fcppt::extract_from_string_locale<T>(s, loc);
    VRT_CHECK(r.has_value() && r.get_unsafe() == v, name + ":roundtrip",
              "%s(%s, %s) = \"%s\"; extract_from_string_locale with the same locale gives %s", outn[k], vt.c_str(), sp.name, s.c_str(),
              opt_text(r).c_str());
  }
  // ---- wide producers
  std::wstring const wouts[2] = {fcppt::output_to_std_wstring_locale(v, loc), fcppt::output_to_string_locale<std::wstring>(v, loc)};
  char const *const woutn[2] = {"output_to_std_wstring_locale", "output_to_string_locale<std::wstring>"};
  for (int k = 0; k < 2; ++k)
  {
    std::wstring const &s = wouts[k];
    if (!want.empty())
      VRT_CHECK(s == wide(want), name + ":woutput_not_in_locale", "%s(%s, %s) = L\"%s\" want \"%s\"", woutn[k], vt.c_str(), sp.name,
                narrow_ascii(s).c_str(), want.c_str());
    fcppt::optional::object<T> const r = fcppt::extract_from_string_locale<T>(s, loc);
    VRT_CHECK(r.has_value() && r.get_unsafe() == v, name + ":wroundtrip",
              "%s(%s, %s) = L\"%s\"; extract_from_string_locale with the same locale gives %s", woutn[k], vt.c_str(), sp.name,
              narrow_ascii(s).c_str(), opt_text(r).c_str());
  }
  // ---- the locale-formatted text is not classic text: the classic locale must not read the value from it
  std::string const &s = outs[0];
  std::string const ctext = fcppt::output_to_std_string_locale(v, classic);
  if constexpr (std::is_integral_v<T>)
    VRT_CHECK(ctext == dec(static_cast<i128>(v)), name + ":classic_output", "output_to_std_string_locale(%s, classic) = \"%s\"", vt.c_str(),
              ctext.c_str());
  {
    fcppt::optional::object<T> const r = fcppt::extract_from_string_locale<T>(ctext, classic);
    VRT_CHECK(r.has_value() && r.get_unsafe() == v, name + ":classic_roundtrip", "classic text \"%s\" reads back with classic as %s",
              ctext.c_str(), opt_text(r).c_str());
  }
  bool has_punct = false;
  if (sp.sep != 0)
    for (char c : s)
      has_punct = has_punct || c == sp.sep || (c == sp.dp && sp.dp != '.');
  if (has_punct)
  {
    fcppt::optional::object<T> const r = fcppt::extract_from_string_locale<T>(s, classic);
    VRT_CHECK(!(r.has_value() && r.get_unsafe() == v), name + ":classic_reads_grouped",
              "extract_from_string_locale(\"%s\", classic) gives %s although the text is in locale %s", s.c_str(), opt_text(r).c_str(),
              sp.name);
    fcppt::optional::object<T> const wr = fcppt::extract_from_string_locale<T>(wide(s), classic);
    VRT_CHECK(!(wr.has_value() && wr.get_unsafe() == v), name + ":classic_reads_grouped",
              "extract_from_string_locale(L\"%s\", classic) gives %s although the text is in locale %s", s.c_str(), opt_text(wr).c_str(),
              sp.name);
  }
}

// The plain forms use fcppt::insert_extract_locale().  Its documentation says "This locale is the
// C locale", its implementation returns std::locale{} (the global locale).  Only the round trip
// of the plain pair is asserted (it holds under either reading); whether the text follows the
// global locale is recorded as information.
template <class T> void global_case(std::string const &name, T v, locspec const &gsp, std::string const &classic_text)
{
  std::string const vt = val_text(v);
  std::string const outs[3] = {fcppt::output_to_std_string(v), fcppt::output_to_string<std::string>(v), fcppt::output_to_fcppt_string(v)};
  for (int k = 0; k < 3; ++k)
  {
    if (!classic_text.empty() && outs[k] != classic_text)
      vrt::count("info:plain_output_follows_global_locale_not_C");
    fcppt::optional::object<T> const r = fcppt::extract_from_string<T>(outs[k]);
    VRT_CHECK(r.has_value() && r.get_unsafe() == v, name + ":global_roundtrip",
              "plain output of %s under global %s = \"%s\"; extract_from_string gives %s", vt.c_str(), gsp.name, outs[k].c_str(),
              opt_text(r).c_str());
  }
  std::wstring const wouts[2] = {fcppt::output_to_std_wstring(v), fcppt::output_to_string<std::wstring>(v)};
  for (int k = 0; k < 2; ++k)
  {
    if (!classic_text.empty() && wouts[k] != wide(classic_text))
      vrt::count("info:plain_output_follows_global_locale_not_C");
    fcppt::optional::object<T> const r = fcppt::extract_from_string<T>(wouts[k]);
    VRT_CHECK(r.has_value() && r.get_unsafe() == v, name + ":global_wroundtrip",
              "plain wide output of %s under global %s = L\"%s\"; extract_from_string gives %s", vt.c_str(), gsp.name,
              narrow_ascii(wouts[k]).c_str(), opt_text(r).c_str());
  }
}

// (global locale, given locale) combinations: the given locale differs from the global one
struct combo
{
  int global, given;
};
constexpr combo combos[] = {{0, 2}, {0, 3}, {1, 4}, {0, 5}, {3, 2}, {2, 3}, {2, 0}, {3, 1}, {4, 5}, {2, 2}};
constexpr int n_combos = sizeof(combos) / sizeof(combos[0]);

template <class T> void locale_ints(char const *tname, std::vector<T> const &dom, int ci, unsigned part = 0, unsigned nparts = 1)
{
  static std::string const name = std::string("text_locale<") + tname + ">";
  combo const c = combos[ci];
  std::locale const saved; // the global locale at entry
  std::locale::global(make_locale(specs[c.global]));
  std::locale const loc = make_locale(specs[c.given]);
  std::size_t idx = 0;
  for (T const v : dom)
  {
    if (idx++ % nparts != part)
      continue;
    if ((idx & 0x3ff) == 0 && vrt::out_of_time())
      break;
    if (!vrt::begin(name.c_str(), static_cast<long long>(v), c.given, c.global))
      continue;
    i128 const x = static_cast<i128>(v);
    vrt::nontrivial(x >= 1000 || x <= -1000);
    vrt::maybe_sample();
    locale_case<T>(name, v, specs[c.given], loc, ref_int_text(x, specs[c.given]));
    global_case<T>(name, v, specs[c.global], dec(x));
  }
  std::locale::global(saved);
}

// floating point values whose default-precision (6 significant digits) text is exact
template <class T> std::vector<T> exact_floats()
{
  std::vector<T> r;
  for (double n : {0.0, 1.0, 12.0, 123.0, 999.0, 1000.0, 1234.0, 12345.0, 99999.0, 100000.0, 123456.0, 999999.0, 1e6, 1.5e6, 1e9, 1e-3,
                   0.001953125})
    for (double f : {0.0, 0.5, 0.25, 0.125, 0.75})
      for (double sgn : {1.0, -1.0})
      {
        double const d = sgn * (n + f);
        char buf[64];
        std::snprintf(buf, sizeof buf, "%g", d); // C locale: what the classic stream prints
        if (std::strtod(buf, nullptr) == d && static_cast<double>(static_cast<T>(d)) == d)
          r.push_back(static_cast<T>(d));
      }
  return r;
}

template <class T> void locale_floats(char const *tname, int ci)
{
  static std::string const name = std::string("text_locale<") + tname + ">";
  combo const c = combos[ci];
  std::locale const saved;
  std::locale::global(make_locale(specs[c.global]));
  std::locale const loc = make_locale(specs[c.given]);
  std::vector<T> const dom = exact_floats<T>();
  for (std::size_t i = 0; i < dom.size(); ++i)
  {
    if (!vrt::begin(name.c_str(), i, c.given, c.global))
      continue;
    vrt::describe(name + "(" + val_text(dom[i]) + ", " + specs[c.given].name + ", global " + specs[c.global].name + ")");
    vrt::nontrivial(dom[i] >= T(1000) || dom[i] <= T(-1000) || dom[i] != static_cast<T>(static_cast<long long>(dom[i])));
    vrt::maybe_sample();
    locale_case<T>(name, dom[i], specs[c.given], loc, std::string());
    global_case<T>(name, dom[i], specs[c.global], std::string());
  }
  std::locale::global(saved);
}

template <class T> std::vector<T> all_values()
{
  std::vector<T> r;
  for (i128 v = lo<T>(); v <= hi<T>(); ++v)
    r.push_back(static_cast<T>(v));
  return r;
}
}

void c15::register_locale()
{
  for (int ci = 0; ci < n_combos; ++ci)
  {
    std::string const tag = std::string(specs[combos[ci].given].name) + "@" + specs[combos[ci].global].name;
    vrt::shard("locale_i16/" + tag, [ci] { locale_ints<short>("i16", all_values<short>(), ci); });
    vrt::shard("locale_u16/" + tag, [ci] { locale_ints<unsigned short>("u16", all_values<unsigned short>(), ci); });
    vrt::shard("locale_32_64/" + tag, [ci] {
      locale_ints<int>("i32", lattice<int>(), ci);
      locale_ints<unsigned>("u32", lattice<unsigned>(), ci);
      locale_ints<long>("i64", lattice<long>(), ci);
      locale_ints<unsigned long>("u64", lattice<unsigned long>(), ci);
      locale_ints<long long>("long long", lattice<long long>(), ci);
      locale_ints<unsigned long long>("unsigned long long", lattice<unsigned long long>(), ci);
      locale_floats<float>("float", ci);
      locale_floats<double>("double", ci);
    });
  }
}

// C11 -- intrusive list / signal membership equals the set of live connections.
// Engine H.  Two systems:
//  * list_sys: real fcppt::intrusive::list<elem> objects and heap-allocated movable elements,
//    reference model = explicit rings (circular sequences of node ids; a list's members are
//    the nodes that follow its head in the head's ring).  Uniform model rule for every move
//    operation "X takes over from Y": X leaves its ring, X replaces Y in Y's ring, Y becomes a
//    singleton ring.  (For a singleton Y this makes X a singleton: an element moved from an
//    unlinked element is unlinked, a list move-assigned from an empty list is empty and its
//    previous members are detached -- DESIGN.md section 5.)
//  * signal_sys<Base>: real fcppt::signal::object<int(int)> with plain and unregister bases.
// Canonical state: the set of rings, each rotated to its smallest node id (exactly the
// information that determines all future observations), plus pending counters for signals.
#include <hist.hpp>

#include <fcppt/function_impl.hpp>
#include <fcppt/intrusive/base_impl.hpp>
#include <fcppt/intrusive/iterator_impl.hpp>
#include <fcppt/intrusive/list_impl.hpp>
#include <fcppt/signal/auto_connection.hpp>
#include <fcppt/signal/base.hpp>
#include <fcppt/signal/connection.hpp>
#include <fcppt/signal/object.hpp>
#include <fcppt/signal/optional_auto_connection.hpp>
#include <fcppt/optional/object_impl.hpp>
#include <fcppt/signal/unregister/base.hpp>
#include <fcppt/signal/unregister/function.hpp>

#include <algorithm>
#include <memory>
#include <optional>
#include <vector>

using vrt::hist::op;

// ---------------------------------------------------------------- ring model
struct rings
{
  std::vector<std::vector<int>> r;

  std::pair<int, int> find(int n) const
  {
    for (std::size_t i = 0; i < r.size(); ++i)
      for (std::size_t j = 0; j < r[i].size(); ++j)
        if (r[i][j] == n)
          return {static_cast<int>(i), static_cast<int>(j)};
    return {-1, -1};
  }
  bool has(int n) const { return find(n).first >= 0; }
  void add_singleton(int n) { r.push_back({n}); }
  void remove(int n) // node disappears
  {
    auto [i, j] = find(n);
    if (i < 0)
      return;
    r[static_cast<std::size_t>(i)].erase(r[static_cast<std::size_t>(i)].begin() + j);
    if (r[static_cast<std::size_t>(i)].empty())
      r.erase(r.begin() + i);
  }
  void make_singleton(int n)
  {
    remove(n);
    add_singleton(n);
  }
  void insert_before(int head, int n) // n is new
  {
    auto [i, j] = find(head);
    r[static_cast<std::size_t>(i)].insert(r[static_cast<std::size_t>(i)].begin() + j, n);
  }
  // x (already present or new) takes y's place, y becomes a singleton
  void take_over(int x, int y)
  {
    remove(x);
    auto [i, j] = find(y);
    r[static_cast<std::size_t>(i)][static_cast<std::size_t>(j)] = x;
    add_singleton(y);
  }
  std::vector<int> members(int head) const
  {
    auto [i, j] = find(head);
    std::vector<int> out;
    std::vector<int> const &ring = r[static_cast<std::size_t>(i)];
    for (std::size_t k = 1; k < ring.size(); ++k)
      out.push_back(ring[(static_cast<std::size_t>(j) + k) % ring.size()]);
    return out;
  }
  std::string canon() const
  {
    std::vector<std::string> parts;
    for (auto const &ring : r)
    {
      std::size_t m = static_cast<std::size_t>(std::min_element(ring.begin(), ring.end()) - ring.begin());
      std::string s;
      for (std::size_t k = 0; k < ring.size(); ++k)
        s += std::to_string(ring[(m + k) % ring.size()]) + ",";
      parts.push_back(s);
    }
    std::sort(parts.begin(), parts.end());
    std::string o;
    for (auto const &p : parts)
      o += "{" + p + "}";
    return o;
  }
};

// ---------------------------------------------------------------- intrusive list
struct elem : fcppt::intrusive::base<elem>
{
  using base_t = fcppt::intrusive::base<elem>;
  int id;
  elem(fcppt::intrusive::list<elem> &l, int i) : base_t(l), id(i) {}
  elem(elem &&o, int i) noexcept : base_t(std::move(static_cast<base_t &>(o))), id(i) {}
  elem(elem &&) noexcept = default;
  elem &operator=(elem &&o) noexcept
  {
    base_t::operator=(std::move(static_cast<base_t &>(o)));
    return *this; // the id stays with the slot
  }
};
using ilist = fcppt::intrusive::list<elem>;

static int N_LISTS = 2, N_ELEMS = 4;
static constexpr int HEAD = 100;

enum lkind
{
  NEW_ELEM = 1, // a=list
  DEL_ELEM,     // a=elem
  UNLINK,       // a=elem
  MOVE_CONSTRUCT_ELEM, // a=source elem -> lowest free slot
  MOVE_ASSIGN_ELEM,    // a=dest b=source
  SWAP_ELEMS,          // a,b via std::swap
  LIST_MOVE_CONSTRUCT, // a=source list -> lowest free list slot
  LIST_MOVE_ASSIGN,    // a=dest b=source
  DEL_LIST,            // a
  NEW_LIST,
  LKIND_END
};

struct list_sys
{
  std::vector<std::unique_ptr<ilist>> lists;
  std::vector<std::unique_ptr<elem>> elems;
  rings m;

  list_sys()
  {
    lists.resize(static_cast<std::size_t>(N_LISTS));
    elems.resize(static_cast<std::size_t>(N_ELEMS));
    lists[0] = std::make_unique<ilist>();
    m.add_singleton(HEAD + 0);
  }
  ~list_sys()
  {
    // destroy lists first, then elements (the harder order)
    for (auto &l : lists)
      l.reset();
    for (auto &e : elems)
      e.reset();
  }

  int free_elem() const
  {
    for (int i = 0; i < N_ELEMS; ++i)
      if (!elems[static_cast<std::size_t>(i)])
        return i;
    return -1;
  }
  int free_list() const
  {
    for (int i = 0; i < N_LISTS; ++i)
      if (!lists[static_cast<std::size_t>(i)])
        return i;
    return -1;
  }

  std::vector<op> enabled() const
  {
    std::vector<op> r;
    int const fe = free_elem(), fl = free_list();
    for (int l = 0; l < N_LISTS; ++l)
      if (lists[static_cast<std::size_t>(l)] && fe >= 0)
        r.push_back(op{NEW_ELEM, l, 0, 0, 0});
    for (int e = 0; e < N_ELEMS; ++e)
    {
      if (!elems[static_cast<std::size_t>(e)])
        continue;
      r.push_back(op{DEL_ELEM, e, 0, 0, 0});
      r.push_back(op{UNLINK, e, 0, 0, 0});
      if (fe >= 0)
        r.push_back(op{MOVE_CONSTRUCT_ELEM, e, 0, 0, 0});
      for (int f = 0; f < N_ELEMS; ++f)
        if (elems[static_cast<std::size_t>(f)])
        {
          r.push_back(op{MOVE_ASSIGN_ELEM, e, f, 0, 0}); // includes self assignment
          if (e < f)
            r.push_back(op{SWAP_ELEMS, e, f, 0, 0});
        }
    }
    for (int l = 0; l < N_LISTS; ++l)
    {
      if (!lists[static_cast<std::size_t>(l)])
        continue;
      if (fl >= 0)
        r.push_back(op{LIST_MOVE_CONSTRUCT, l, 0, 0, 0});
      for (int k = 0; k < N_LISTS; ++k)
        if (lists[static_cast<std::size_t>(k)])
          r.push_back(op{LIST_MOVE_ASSIGN, l, k, 0, 0}); // includes self assignment
      r.push_back(op{DEL_LIST, l, 0, 0, 0});
    }
    if (fl >= 0)
      r.push_back(op{NEW_LIST, 0, 0, 0, 0});
    return r;
  }

  static std::string show(op const &o)
  {
    static char const *n[] = {"?", "new elem in list", "destroy elem", "unlink elem", "new elem(move(elem))", "elem=move(elem)",
                              "std::swap(elem,elem)", "new list(move(list))", "list=move(list)", "destroy list", "new list"};
    return std::string((o.k > 0 && o.k < LKIND_END) ? n[o.k] : "?") + "[" + std::to_string(o.a) + "," + std::to_string(o.b) + "]";
  }

  void apply(op const &o)
  {
    auto E = [&](int i) -> std::unique_ptr<elem> & { return elems[static_cast<std::size_t>(i)]; };
    auto L = [&](int i) -> std::unique_ptr<ilist> & { return lists[static_cast<std::size_t>(i)]; };
    switch (o.k)
    {
    case NEW_ELEM:
    {
      int const s = free_elem();
      E(s) = std::make_unique<elem>(*L(o.a), s);
      m.insert_before(HEAD + o.a, s);
      break;
    }
    case DEL_ELEM:
      E(o.a).reset();
      m.remove(o.a);
      break;
    case UNLINK:
      E(o.a)->unlink();
      m.make_singleton(o.a);
      break;
    case MOVE_CONSTRUCT_ELEM:
    {
      int const s = free_elem();
      E(s) = std::make_unique<elem>(std::move(*E(o.a)), s);
      m.take_over(s, o.a);
      break;
    }
    case MOVE_ASSIGN_ELEM:
      *E(o.a) = std::move(*E(o.b));
      if (o.a != o.b)
        m.take_over(o.a, o.b);
      break;
    case SWAP_ELEMS:
    {
      elem &x = *E(o.a), &y = *E(o.b);
      // std::swap: tmp(move(x)); x = move(y); y = move(tmp)
      {
        elem tmp(std::move(x), 99);
        m.take_over(99, o.a);
        x = std::move(y);
        m.take_over(o.a, o.b);
        y = std::move(tmp);
        m.take_over(o.b, 99);
      }
      m.remove(99);
      break;
    }
    case LIST_MOVE_CONSTRUCT:
    {
      int const s = free_list();
      L(s) = std::make_unique<ilist>(std::move(*L(o.a)));
      m.take_over(HEAD + s, HEAD + o.a);
      break;
    }
    case LIST_MOVE_ASSIGN:
      *L(o.a) = std::move(*L(o.b));
      if (o.a != o.b)
        m.take_over(HEAD + o.a, HEAD + o.b);
      break;
    case DEL_LIST:
      L(o.a).reset();
      m.remove(HEAD + o.a);
      break;
    case NEW_LIST:
    {
      int const s = free_list();
      L(s) = std::make_unique<ilist>();
      m.add_singleton(HEAD + s);
      break;
    }
    default:
      vrt::fail("harness:bad_op", "unknown op");
    }
  }

  static std::string showv(std::vector<int> const &v)
  {
    std::string s = "[";
    for (int x : v)
      s += std::to_string(x) + " ";
    return s + "]";
  }

  void check()
  {
    for (int l = 0; l < N_LISTS; ++l)
    {
      if (!lists[static_cast<std::size_t>(l)])
        continue;
      ilist &li = *lists[static_cast<std::size_t>(l)];
      ilist const &cli = li;
      std::vector<int> const want = m.members(HEAD + l);
      std::vector<int> fwd, cfwd, bwd;
      int fuel = N_ELEMS + 3;
      for (auto it = li.begin(); it != li.end() && fuel > 0; ++it, --fuel)
        fwd.push_back(it->id);
      if (fuel == 0)
      {
        vrt::fail("list:iteration_does_not_terminate", "forward iteration did not reach end() after " + showv(fwd));
        continue;
      }
      fuel = N_ELEMS + 3;
      for (auto it = cli.begin(); it != cli.end() && fuel > 0; ++it, --fuel)
        cfwd.push_back(it->id);
      fuel = N_ELEMS + 3;
      for (auto it = li.end(); it != li.begin() && fuel > 0; --fuel)
      {
        --it;
        bwd.push_back(it->id);
      }
      std::reverse(bwd.begin(), bwd.end());
      VRT_CHECK(fwd == want, "list:members", "list %d iterates %s, model %s", l, showv(fwd).c_str(), showv(want).c_str());
      VRT_CHECK(cfwd == want, "list:members_const", "list %d const iteration %s, model %s", l, showv(cfwd).c_str(), showv(want).c_str());
      VRT_CHECK(bwd == want, "list:members_backward", "list %d backward iteration %s, model %s", l, showv(bwd).c_str(), showv(want).c_str());
      VRT_CHECK(li.empty() == want.empty(), "list:empty", "list %d empty() wrong", l);
      // every member must be a live element object at the slot's address
      for (auto it = li.begin(); it != li.end() && fwd == want; ++it)
        VRT_CHECK(it->id >= 0 && it->id < N_ELEMS && elems[static_cast<std::size_t>(it->id)].get() == &*it, "list:member_identity",
                  "list %d refers to an object that is not the live element %d", l, it->id);
    }
  }

  std::string canon() const { return m.canon(); }
};

// ---------------------------------------------------------------- signals
static int N_SIGNALS = 2, N_CONNS = 3;

enum skind
{
  CONNECT = 1, // a=signal
  DROP,        // a=connection
  CALL,        // a=signal b=argument
  SIG_MOVE_CONSTRUCT, // a=source -> lowest free slot
  SIG_MOVE_ASSIGN,    // a=dest b=source
  DEL_SIG,
  NEW_SIG,
  SKIND_END
};

template <template <typename> class Base, bool Unregister> struct signal_sys
{
  using sig = fcppt::signal::object<int(int), Base>;
  std::vector<std::unique_ptr<sig>> sigs;
  std::vector<fcppt::signal::optional_auto_connection> conns;
  rings m;
  std::vector<int> calls;          // log of callback invocations (connection slot) during the last CALL
  std::vector<int> unregistered;   // how often each slot's unregister callback ran since it was connected
  std::vector<int> generation;     // distinguishes re-used slots in callback identity checks
  std::vector<char> moved_from;    // a moved-from signal has no combiner any more: it may only be destroyed or assigned to
  std::vector<int> own_count;      // what each callback's own by-value counter said at its last invocation
  std::vector<int> model_count;    // how often each connection's callback has been invoked since it was connected

  static typename sig::combiner_function combiner()
  {
    return typename sig::combiner_function{[](int a, int b) { return a * 10 + b; }}; // not commutative, not associative
  }

  signal_sys()
  {
    sigs.resize(static_cast<std::size_t>(N_SIGNALS));
    conns.resize(static_cast<std::size_t>(N_CONNS));
    unregistered.assign(static_cast<std::size_t>(N_CONNS), 0);
    generation.assign(static_cast<std::size_t>(N_CONNS), 0);
    moved_from.assign(static_cast<std::size_t>(N_SIGNALS), 0);
    own_count.assign(static_cast<std::size_t>(N_CONNS), 0);
    model_count.assign(static_cast<std::size_t>(N_CONNS), 0);
    sigs[0] = std::make_unique<sig>(combiner());
    m.add_singleton(HEAD + 0);
  }
  ~signal_sys()
  {
    for (auto &s : sigs)
      s.reset();
    for (std::size_t c = 0; c < conns.size(); ++c)
      if (conns[c].has_value())
        drop(static_cast<int>(c));
  }

  int free_conn() const
  {
    for (int i = 0; i < N_CONNS; ++i)
      if (!conns[static_cast<std::size_t>(i)].has_value())
        return i;
    return -1;
  }
  int free_sig() const
  {
    for (int i = 0; i < N_SIGNALS; ++i)
      if (!sigs[static_cast<std::size_t>(i)])
        return i;
    return -1;
  }

  void drop(int c)
  {
    int const before = unregistered[static_cast<std::size_t>(c)];
    conns[static_cast<std::size_t>(c)] = fcppt::signal::optional_auto_connection();
    if (Unregister)
      VRT_CHECK(unregistered[static_cast<std::size_t>(c)] == before + 1, "signal:unregister_count",
                "unregister callback of connection %d ran %d times when the connection died", c,
                unregistered[static_cast<std::size_t>(c)] - before);
  }

  std::vector<op> enabled() const
  {
    std::vector<op> r;
    int const fc = free_conn(), fs = free_sig();
    for (int s = 0; s < N_SIGNALS; ++s)
    {
      if (!sigs[static_cast<std::size_t>(s)])
        continue;
      bool const usable = !moved_from[static_cast<std::size_t>(s)];
      if (fc >= 0 && usable)
        r.push_back(op{CONNECT, s, 0, 0, 0});
      if (usable)
        r.push_back(op{CALL, s, 1, 0, 0});
      if (fs >= 0 && usable)
        r.push_back(op{SIG_MOVE_CONSTRUCT, s, 0, 0, 0});
      for (int k = 0; k < N_SIGNALS; ++k)
        if (sigs[static_cast<std::size_t>(k)] && !moved_from[static_cast<std::size_t>(k)] && (k != s || usable))
          r.push_back(op{SIG_MOVE_ASSIGN, s, k, 0, 0}); // includes self assignment (through a second name)
      r.push_back(op{DEL_SIG, s, 0, 0, 0});
    }
    for (int c = 0; c < N_CONNS; ++c)
      if (conns[static_cast<std::size_t>(c)].has_value())
        r.push_back(op{DROP, c, 0, 0, 0});
    if (fs >= 0)
      r.push_back(op{NEW_SIG, 0, 0, 0, 0});
    return r;
  }

  static std::string show(op const &o)
  {
    static char const *n[] = {"?", "connect to signal", "drop connection", "call signal", "new signal(move(signal))", "signal=move(signal)",
                              "destroy signal", "new signal"};
    return std::string((o.k > 0 && o.k < SKIND_END) ? n[o.k] : "?") + "[" + std::to_string(o.a) + "," + std::to_string(o.b) + "]";
  }

  void apply(op const &o)
  {
    auto Sg = [&](int i) -> std::unique_ptr<sig> & { return sigs[static_cast<std::size_t>(i)]; };
    switch (o.k)
    {
    case CONNECT:
    {
      int const c = free_conn();
      unregistered[static_cast<std::size_t>(c)] = 0;
      own_count[static_cast<std::size_t>(c)] = 0;
      model_count[static_cast<std::size_t>(c)] = 0;
      // the callback carries state of its own (by value): the connection's callback object itself is what gets invoked
      auto cb = typename sig::function{[this, c, n = 0](int arg) mutable {
        ++n;
        own_count[static_cast<std::size_t>(c)] = n;
        calls.push_back(c);
        return (c + 1) * arg;
      }};
      if constexpr (Unregister)
        conns[static_cast<std::size_t>(c)] = fcppt::signal::optional_auto_connection(
            Sg(o.a)->connect(std::move(cb), fcppt::signal::unregister::function{[this, c] { ++unregistered[static_cast<std::size_t>(c)]; }}));
      else
        conns[static_cast<std::size_t>(c)] = fcppt::signal::optional_auto_connection(Sg(o.a)->connect(std::move(cb)));
      m.insert_before(HEAD + o.a, c);
      break;
    }
    case DROP:
      drop(o.a);
      m.remove(o.a);
      break;
    case CALL:
    {
      calls.clear();
      int const got = (*Sg(o.a))(typename sig::initial_value{7}, o.b);
      std::vector<int> const want = m.members(HEAD + o.a);
      int expect = 7;
      for (int c : want)
        expect = expect * 10 + (c + 1) * o.b;
      std::string g, w;
      for (int c : calls)
        g += std::to_string(c) + " ";
      for (int c : want)
        w += std::to_string(c) + " ";
      VRT_CHECK(calls == want, "signal:callbacks", "signal %d invoked callbacks [%s], live connections in order [%s]", o.a, g.c_str(), w.c_str());
      VRT_CHECK(got == expect, "signal:fold", "signal %d returned %d, left fold gives %d", o.a, got, expect);
      // a second emission right away: same callbacks, and each callback's own counter has advanced twice
      calls.clear();
      int const got2 = (*Sg(o.a))(typename sig::initial_value{7}, o.b);
      VRT_CHECK(calls == want && got2 == expect, "signal:second_emission", "a second emission of signal %d differs from the first", o.a);
      for (int c : want)
      {
        model_count[static_cast<std::size_t>(c)] += 2;
        VRT_CHECK(own_count[static_cast<std::size_t>(c)] == model_count[static_cast<std::size_t>(c)], "signal:callback_state",
                  "the callback of connection %d has seen %d invocations by its own count, the signal invoked it %d times", c,
                  own_count[static_cast<std::size_t>(c)], model_count[static_cast<std::size_t>(c)]);
      }
      break;
    }
    case SIG_MOVE_CONSTRUCT:
    {
      int const s = free_sig();
      Sg(s) = std::make_unique<sig>(std::move(*Sg(o.a)));
      m.take_over(HEAD + s, HEAD + o.a);
      moved_from[static_cast<std::size_t>(s)] = 0;
      moved_from[static_cast<std::size_t>(o.a)] = 1;
      break;
    }
    case SIG_MOVE_ASSIGN:
    {
      sig &source = *Sg(o.b);
      *Sg(o.a) = std::move(source);
      if (o.a != o.b)
      {
        m.take_over(HEAD + o.a, HEAD + o.b);
        moved_from[static_cast<std::size_t>(o.a)] = 0;
        moved_from[static_cast<std::size_t>(o.b)] = 1;
      }
      break;
    }
    case DEL_SIG:
      Sg(o.a).reset();
      m.remove(HEAD + o.a);
      moved_from[static_cast<std::size_t>(o.a)] = 0;
      break;
    case NEW_SIG:
    {
      int const s = free_sig();
      Sg(s) = std::make_unique<sig>(combiner());
      m.add_singleton(HEAD + s);
      moved_from[static_cast<std::size_t>(s)] = 0;
      break;
    }
    default:
      vrt::fail("harness:bad_op", "unknown op");
    }
  }

  void check()
  {
    for (int s = 0; s < N_SIGNALS; ++s)
    {
      if (!sigs[static_cast<std::size_t>(s)])
        continue;
      sig &sg = *sigs[static_cast<std::size_t>(s)];
      std::vector<int> const want = m.members(HEAD + s);
      VRT_CHECK(sg.empty() == want.empty(), "signal:empty", "signal %d empty() wrong", s);
      // a moved-from signal has lost its combiner: only call signals that still have one?  The
      // combiner is an fcppt::function (std::function): calling a moved-from signal with live
      // connections cannot happen (its connections moved away with it), so calling is safe
      // exactly when the fold never invokes the combiner, i.e. always for empty signals.
      calls.clear();
      bool const moved_from_possible = want.empty();
      if (!moved_from_possible || true)
      {
        if (want.empty())
        {
          int const got = sg(typename sig::initial_value{3}, 1);
          VRT_CHECK(got == 3 && calls.empty(), "signal:empty_call", "calling an empty signal returned %d / invoked %zu callbacks", got, calls.size());
        }
      }
    }
    for (int c = 0; c < N_CONNS; ++c)
      if (conns[static_cast<std::size_t>(c)].has_value() && Unregister)
        VRT_CHECK(unregistered[static_cast<std::size_t>(c)] == 0, "signal:unregister_early", "unregister callback of live connection %d already ran", c);
  }

  std::string canon() const
  {
    std::string o = m.canon() + "mf:";
    for (char c : moved_from)
      o += c ? '1' : '0';
    return o;
  }
};

template <typename T> using plain_base = fcppt::signal::base<T>;
template <typename T> using unreg_base = fcppt::signal::unregister::base<T>;

// ---------------------------------------------------------------- re-entrant use of signals
// Callbacks that act on the signal they are called from: callback i may destroy another connection
// j != i while the signal is being emitted (the emission must then not invoke j if j's turn has not
// come, and must go on with the connection after it); an unregister callback may look at the signal
// (empty(), emitting it again): the dying connection is not part of the signal any more.  A
// connection whose callback is executing is never destroyed (that would destroy a running
// std::function: outside any contract), which both sides get from the same `active` counters.
// Exhaustive over: number of connections, one behaviour per callback, one behaviour per unregister
// callback, the first operation (emit / drop c), and whether the signal was moved before.
// Reference: a recursive interpreter over the alive set.
template <typename Sig> struct emit_traits;
template <> struct emit_traits<int(int)>
{
  static constexpr bool is_void = false;
};
template <> struct emit_traits<void(int)>
{
  static constexpr bool is_void = true;
};

template <typename Signature, template <typename> class Base, bool Unregister> struct reentrant
{
  using sig = fcppt::signal::object<Signature, Base>;
  static constexpr bool is_void = emit_traits<Signature>::is_void;
  enum { U_NONE, U_OBSERVE, U_EMIT, U_END };

  int n = 0;
  std::vector<int> beh;   // beh[i] == i: nothing; else: destroy connection beh[i]
  std::vector<int> ubeh;  // U_*
  // real side
  std::unique_ptr<sig> s;
  std::vector<fcppt::signal::optional_auto_connection> conns;
  std::vector<char> alive;
  std::vector<int> active;
  std::vector<int> unreg;
  std::vector<int> log; // encoded events
  // model side
  std::vector<char> m_alive;
  std::vector<int> m_active;
  std::vector<int> m_log;
  bool quiet = false; // final observation: behaviours switched off

  static int ev_call(int i) { return 100 + i; }
  static int ev_unreg(int i, bool empty) { return 200 + i * 2 + (empty ? 1 : 0); }
  static int ev_ret(int v) { return 100000 + v; }

  static std::unique_ptr<sig> make()
  {
    if constexpr (is_void)
      return std::make_unique<sig>();
    else
      return std::make_unique<sig>(typename sig::combiner_function{[](int a, int b) { return (a * 7 + b) % 9973; }});
  }

  void real_emit()
  {
    if constexpr (is_void)
      (*s)(1);
    else
      log.push_back(ev_ret((*s)(typename sig::initial_value{3}, 1)));
  }

  void real_drop(int j)
  {
    auto tmp = std::move(conns[static_cast<std::size_t>(j)]);
    conns[static_cast<std::size_t>(j)] = fcppt::signal::optional_auto_connection();
    alive[static_cast<std::size_t>(j)] = 0;
    tmp = fcppt::signal::optional_auto_connection(); // the connection dies here
  }

  void connect(int i)
  {
    auto body = [this, i](int) {
      log.push_back(ev_call(i));
      ++active[static_cast<std::size_t>(i)];
      int const j = beh[static_cast<std::size_t>(i)];
      if (!quiet && j != i && alive[static_cast<std::size_t>(j)] && active[static_cast<std::size_t>(j)] == 0)
        real_drop(j);
      --active[static_cast<std::size_t>(i)];
    };
    typename sig::function cb = [&] {
      if constexpr (is_void)
        return typename sig::function{[body](int a) { body(a); }};
      else
        return typename sig::function{[body, i](int a) {
          body(a);
          return i + 1;
        }};
    }();
    if constexpr (Unregister)
      conns[static_cast<std::size_t>(i)] = fcppt::signal::optional_auto_connection(s->connect(
          std::move(cb), fcppt::signal::unregister::function{[this, i] {
            ++unreg[static_cast<std::size_t>(i)];
            int const u = quiet ? U_NONE : ubeh[static_cast<std::size_t>(i)];
            if (u != U_NONE)
              log.push_back(ev_unreg(i, s->empty()));
            if (u == U_EMIT)
              real_emit();
          }}));
    else
      conns[static_cast<std::size_t>(i)] = fcppt::signal::optional_auto_connection(s->connect(std::move(cb)));
  }

  // ---- model
  void model_drop(int j)
  {
    m_alive[static_cast<std::size_t>(j)] = 0;
    if (!Unregister || quiet)
      return;
    int const u = ubeh[static_cast<std::size_t>(j)];
    if (u != U_NONE)
      m_log.push_back(ev_unreg(j, std::count(m_alive.begin(), m_alive.end(), char(1)) == 0));
    if (u == U_EMIT)
      model_emit();
  }
  void model_emit()
  {
    int acc = 3;
    for (int i = 0; i < n; ++i)
    {
      if (!m_alive[static_cast<std::size_t>(i)])
        continue;
      m_log.push_back(ev_call(i));
      ++m_active[static_cast<std::size_t>(i)];
      int const j = beh[static_cast<std::size_t>(i)];
      if (!quiet && j != i && m_alive[static_cast<std::size_t>(j)] && m_active[static_cast<std::size_t>(j)] == 0)
        model_drop(j);
      --m_active[static_cast<std::size_t>(i)];
      acc = (acc * 7 + (i + 1)) % 9973;
    }
    if (!is_void)
      m_log.push_back(ev_ret(acc));
  }

  static std::string show(std::vector<int> const &l)
  {
    std::string o;
    for (int e : l)
    {
      if (e >= 100000)
        o += "ret=" + std::to_string(e - 100000) + " ";
      else if (e >= 200)
        o += "unreg" + std::to_string((e - 200) / 2) + ((e & 1) ? "(empty) " : "(non-empty) ");
      else
        o += "call" + std::to_string(e - 100) + " ";
    }
    return o;
  }

  // first: -1 = emit, otherwise drop that connection; pre: 0 nothing, 1 move-construct, 2 move-assign into a fresh signal
  void one(int first, int pre)
  {
    s = make();
    conns.clear();
    conns.resize(static_cast<std::size_t>(n));
    alive.assign(static_cast<std::size_t>(n), 1);
    active.assign(static_cast<std::size_t>(n), 0);
    unreg.assign(static_cast<std::size_t>(n), 0);
    log.clear();
    m_alive.assign(static_cast<std::size_t>(n), 1);
    m_active.assign(static_cast<std::size_t>(n), 0);
    m_log.clear();
    quiet = false;
    for (int i = 0; i < n; ++i)
      connect(i);
    if (pre == 1)
      s = std::make_unique<sig>(std::move(*s));
    else if (pre == 2)
    {
      std::unique_ptr<sig> t = make();
      *t = std::move(*s);
      s = std::move(t);
    }
    if (first < 0)
    {
      real_emit();
      model_emit();
    }
    else
    {
      real_drop(first);
      model_drop(first);
    }
    VRT_CHECK(log == m_log, "signal:reentrant", "events [%s], expected [%s]", show(log).c_str(), show(m_log).c_str());
    // quiet observation of what is left
    quiet = true;
    log.clear();
    m_log.clear();
    real_emit();
    model_emit();
    VRT_CHECK(log == m_log, "signal:reentrant_after", "afterwards events [%s], expected [%s]", show(log).c_str(), show(m_log).c_str());
    VRT_CHECK(s->empty() == (std::count(m_alive.begin(), m_alive.end(), char(1)) == 0), "signal:reentrant_empty", "empty() wrong afterwards");
    for (int i = 0; i < n; ++i)
    {
      VRT_CHECK(bool(alive[static_cast<std::size_t>(i)]) == bool(m_alive[static_cast<std::size_t>(i)]), "signal:reentrant_alive", "connection %d alive=%d, model %d", i,
                int(alive[static_cast<std::size_t>(i)]), int(m_alive[static_cast<std::size_t>(i)]));
      if (Unregister)
        VRT_CHECK(unreg[static_cast<std::size_t>(i)] == (alive[static_cast<std::size_t>(i)] ? 0 : 1), "signal:reentrant_unregister_count",
                  "unregister callback of connection %d ran %d times (alive=%d)", i, unreg[static_cast<std::size_t>(i)], int(alive[static_cast<std::size_t>(i)]));
    }
    // the signal dies before the remaining connections on even cases, after them on odd ones
    if ((first + pre) & 1)
    {
      s.reset();
      conns.clear();
    }
    else
    {
      conns.clear();
      s.reset();
    }
  }

  static void run_all(char const *name, int max_n)
  {
    for (int n = 1; n <= max_n; ++n)
    {
      reentrant r;
      r.n = n;
      long nb = 1, nu = 1;
      for (int i = 0; i < n; ++i)
      {
        nb *= n;
        nu *= Unregister ? U_END : 1;
      }
      for (long b = 0; b < nb; ++b)
        for (long u = 0; u < nu; ++u)
        {
          r.beh.assign(static_cast<std::size_t>(n), 0);
          r.ubeh.assign(static_cast<std::size_t>(n), 0);
          long bb = b, uu = u;
          bool trivial = true;
          for (int i = 0; i < n; ++i)
          {
            r.beh[static_cast<std::size_t>(i)] = int(bb % n);
            bb /= n;
            r.ubeh[static_cast<std::size_t>(i)] = int(uu % U_END);
            uu /= U_END;
            if (r.beh[static_cast<std::size_t>(i)] != i)
              trivial = false;
          }
          for (int first = -1; first < n; ++first)
            for (int pre = 0; pre < 3; ++pre)
            {
              std::string const text = [&] {
                std::string d = std::string(name) + " n=" + std::to_string(n) + " callbacks:";
                for (int i = 0; i < n; ++i)
                  d += r.beh[static_cast<std::size_t>(i)] == i ? " -" : " drop" + std::to_string(r.beh[static_cast<std::size_t>(i)]);
                d += " unregister:";
                for (int i = 0; i < n; ++i)
                  d += r.ubeh[static_cast<std::size_t>(i)] == U_NONE ? " -" : r.ubeh[static_cast<std::size_t>(i)] == U_OBSERVE ? " observe" : " emit";
                d += first < 0 ? " first=emit" : " first=drop" + std::to_string(first);
                d += pre == 0 ? "" : pre == 1 ? " after move-construction" : " after move-assignment";
                return d;
              }();
              if (!vrt::begin_text("signal_reentrant", text))
                continue;
              vrt::maybe_sample();
              r.one(first, pre);
              vrt::count("reentrant_scenarios");
              if (!trivial)
                vrt::nontrivial();
            }
        }
    }
  }
};

int main(int argc, char **argv)
{
  vrt::parse_args(argc, argv);
  bool const th = vrt::thorough();
  vrt::shard("intrusive_list", [th] {
    N_LISTS = 3;
    N_ELEMS = th ? 6 : 5;
    vrt::hist::limits l;
    l.max_depth = 50;
    vrt::hist::explorer<list_sys> e("intrusive_list", l);
    e.run();
  }, 7200);
  vrt::shard("signal_plain", [th] {
    N_SIGNALS = 3;
    N_CONNS = th ? 5 : 4;
    vrt::hist::limits l;
    l.max_depth = 50;
    vrt::hist::explorer<signal_sys<plain_base, false>> e("signal_plain", l);
    e.run();
  }, 7200);
  vrt::shard("signal_unregister", [th] {
    N_SIGNALS = 3;
    N_CONNS = th ? 5 : 4;
    vrt::hist::limits l;
    l.max_depth = 50;
    vrt::hist::explorer<signal_sys<unreg_base, true>> e("signal_unregister", l);
    e.run();
  }, 7200);
  vrt::shard("signal_reentrant_plain", [th] {
    reentrant<void(int), plain_base, false>::run_all("void(int)/plain", th ? 6 : 5);
    reentrant<int(int), plain_base, false>::run_all("int(int)/plain", th ? 6 : 5);
  });
  vrt::shard("signal_reentrant_unregister_void", [th] { reentrant<void(int), unreg_base, true>::run_all("void(int)/unregister", th ? 5 : 4); });
  vrt::shard("signal_reentrant_unregister_int", [th] { reentrant<int(int), unreg_base, true>::run_all("int(int)/unregister", th ? 5 : 4); });
  return vrt::run(argc, argv);
}

// C01, part 5: functions that consume an *environment object* are driven with every answer that object can give.
//
// (1) Locales.  Every public entry point that goes through fcppt::impl::codecvt and takes a locale (widen_locale,
//     narrow_locale and, in the narrow-string configuration, to_std_wstring_locale / from_std_wstring_locale) is run with
//     locales built as std::locale(std::locale::classic(), new F):
//       F = std::codecvt_utf8<wchar_t>
//       F = scripted: a strict UTF-8 <-> UCS-4 codecvt<wchar_t,char,mbstate_t> written here which, on its k-th call,
//           answers from a menu (partial without progress, partial after one character, error, noconv, ok after one
//           character) and reports max_length() 1, 4 or 6.
//     Oracle: the call returns or throws the documented std::runtime_error (widen direction) within the watchdog time;
//     when every answer was a correct conversion the result equals the strict UTF-8 reference.
// (2) User callbacks / element types that throw: the exception propagates unchanged, nothing is leaked or destroyed
//     twice (instance counting), containers stay valid.
#include "C01_common.hpp"

#include <fcppt/const.hpp>
#include <fcppt/extract_from_string.hpp>
#include <fcppt/from_std_wstring_locale.hpp>
#include <fcppt/narrow_locale.hpp>
#include <fcppt/optional_std_string.hpp>
#include <fcppt/optional_string.hpp>
#include <fcppt/runtime_index.hpp>
#include <fcppt/to_std_wstring_locale.hpp>
#include <fcppt/widen_locale.hpp>
#include <fcppt/array/from_range.hpp>
#include <fcppt/array/object_impl.hpp>
#include <fcppt/container/find_opt.hpp>
#include <fcppt/container/find_opt_mapped.hpp>
#include <fcppt/container/pop_back.hpp>
#include <fcppt/container/pop_front.hpp>
#include <fcppt/optional/object_impl.hpp>

#include <codecvt>
#include <cwchar>
#include <deque>
#include <istream>
#include <list>
#include <locale>
#include <map>
#include <stdexcept>
#include <string>
#include <type_traits>
#include <vector>

using namespace c01;

namespace
{
// ------------------------------------------------------------ strict UTF-8 (the reference and the base of the scripted facet)
enum class dec
{
  ok,
  incomplete, // the input ends inside a sequence that is valid so far
  invalid
};

// decodes one scalar value from [p,end), p < end
dec decode_one(unsigned char const *p, unsigned char const *end, char32_t &cp, std::size_t &len)
{
  unsigned const b0 = p[0];
  std::size_t n;
  unsigned lo = 0x80, hi = 0xbf; // range of the second byte
  if (b0 < 0x80)
  {
    cp = b0;
    len = 1;
    return dec::ok;
  }
  else if (b0 >= 0xc2 && b0 <= 0xdf)
    n = 2;
  else if (b0 >= 0xe0 && b0 <= 0xef)
  {
    n = 3;
    if (b0 == 0xe0)
      lo = 0xa0;
    if (b0 == 0xed)
      hi = 0x9f;
  }
  else if (b0 >= 0xf0 && b0 <= 0xf4)
  {
    n = 4;
    if (b0 == 0xf0)
      lo = 0x90;
    if (b0 == 0xf4)
      hi = 0x8f;
  }
  else
    return dec::invalid;
  char32_t v = b0 & (n == 2 ? 0x1fU : n == 3 ? 0x0fU : 0x07U);
  for (std::size_t i = 1; i < n; ++i)
  {
    if (p + i == end)
      return dec::incomplete;
    unsigned const b = p[i];
    if (i == 1 ? (b < lo || b > hi) : (b < 0x80 || b > 0xbf))
      return dec::invalid;
    v = (v << 6) | (b & 0x3fU);
  }
  cp = v;
  len = n;
  return dec::ok;
}

// number of bytes of the encoding of c, 0 if c is not a Unicode scalar value
std::size_t encode_one(char32_t c, unsigned char out[4])
{
  if (c < 0x80)
  {
    out[0] = static_cast<unsigned char>(c);
    return 1;
  }
  if (c < 0x800)
  {
    out[0] = static_cast<unsigned char>(0xc0 | (c >> 6));
    out[1] = static_cast<unsigned char>(0x80 | (c & 0x3f));
    return 2;
  }
  if (c < 0x10000)
  {
    if (c >= 0xd800 && c <= 0xdfff)
      return 0;
    out[0] = static_cast<unsigned char>(0xe0 | (c >> 12));
    out[1] = static_cast<unsigned char>(0x80 | ((c >> 6) & 0x3f));
    out[2] = static_cast<unsigned char>(0x80 | (c & 0x3f));
    return 3;
  }
  if (c <= 0x10ffff)
  {
    out[0] = static_cast<unsigned char>(0xf0 | (c >> 18));
    out[1] = static_cast<unsigned char>(0x80 | ((c >> 12) & 0x3f));
    out[2] = static_cast<unsigned char>(0x80 | ((c >> 6) & 0x3f));
    out[3] = static_cast<unsigned char>(0x80 | (c & 0x3f));
    return 4;
  }
  return 0;
}

// reference results: the whole string or nothing
bool ref_widen(std::string const &s, std::wstring &out)
{
  auto const *p = reinterpret_cast<unsigned char const *>(s.data());
  auto const *const end = p + s.size();
  out.clear();
  while (p != end)
  {
    char32_t cp;
    std::size_t len;
    if (decode_one(p, end, cp, len) != dec::ok)
      return false;
    out.push_back(static_cast<wchar_t>(cp));
    p += len;
  }
  return true;
}

bool ref_narrow(std::wstring const &s, std::string &out)
{
  out.clear();
  for (wchar_t w : s)
  {
    unsigned char b[4];
    std::size_t const n = encode_one(static_cast<char32_t>(w), b);
    if (n == 0)
      return false;
    out.append(reinterpret_cast<char const *>(b), n);
  }
  return true;
}

// ------------------------------------------------------------ the scripted facet
enum class answer
{
  normal,
  partial_zero,  // partial, nothing consumed, nothing produced
  partial_short, // converts one character, partial if input remains (a correct, merely incremental conversion)
  error,         // error, nothing consumed
  noconv,        // noconv, nothing consumed
  ok_short       // converts one character and claims ok
};
char const *const answer_names[] = {"normal", "partial_zero", "partial_short", "error", "noconv", "ok_short"};

class scripted_codecvt : public std::codecvt<wchar_t, char, std::mbstate_t>
{
public:
  scripted_codecvt(answer a, int k, int maxlen) : a_(a), k_(k), maxlen_(maxlen) {}

protected:
  result do_in(state_type &, extern_type const *from, extern_type const *from_end, extern_type const *&from_next, intern_type *to,
               intern_type *to_end, intern_type *&to_next) const override
  {
    return script([&](std::size_t limit) { return in(from, from_end, from_next, to, to_end, to_next, limit); }, from, from_end, from_next,
                  to, to_next);
  }
  result do_out(state_type &, intern_type const *from, intern_type const *from_end, intern_type const *&from_next, extern_type *to,
                extern_type *to_end, extern_type *&to_next) const override
  {
    return script([&](std::size_t limit) { return out(from, from_end, from_next, to, to_end, to_next, limit); }, from, from_end, from_next,
                  to, to_next);
  }
  result do_unshift(state_type &, extern_type *to, extern_type *, extern_type *&to_next) const override
  {
    to_next = to;
    return noconv;
  }
  int do_encoding() const noexcept override { return 0; }
  bool do_always_noconv() const noexcept override { return false; }
  int do_length(state_type &, extern_type const *from, extern_type const *end, std::size_t max) const override
  {
    auto const *p = reinterpret_cast<unsigned char const *>(from);
    auto const *const e = reinterpret_cast<unsigned char const *>(end);
    std::size_t n = 0;
    while (p != e && n < max)
    {
      char32_t cp;
      std::size_t len;
      if (decode_one(p, e, cp, len) != dec::ok)
        break;
      p += len;
      ++n;
    }
    return static_cast<int>(p - reinterpret_cast<unsigned char const *>(from));
  }
  int do_max_length() const noexcept override { return maxlen_; }

private:
  template <class Convert, class From, class To>
  result script(Convert const &convert, From const *from, From const *from_end, From const *&from_next, To *to, To *&to_next) const
  {
    ++calls_;
    answer const a = calls_ == k_ ? a_ : answer::normal;
    switch (a)
    {
    case answer::normal:
      return convert(static_cast<std::size_t>(-1));
    case answer::partial_zero:
      from_next = from;
      to_next = to;
      return partial;
    case answer::error:
      from_next = from;
      to_next = to;
      return error;
    case answer::noconv:
      from_next = from;
      to_next = to;
      return noconv;
    case answer::partial_short:
    {
      result const r = convert(1);
      return r == ok && from_next != from_end ? partial : r;
    }
    case answer::ok_short:
    {
      result const r = convert(1);
      return r == partial ? ok : r;
    }
    }
    return error;
  }

  static result in(extern_type const *from, extern_type const *from_end, extern_type const *&from_next, intern_type *to, intern_type *to_end,
                   intern_type *&to_next, std::size_t limit)
  {
    auto const *p = reinterpret_cast<unsigned char const *>(from);
    auto const *const e = reinterpret_cast<unsigned char const *>(from_end);
    result r = ok;
    for (std::size_t n = 0; p != e && n < limit; ++n)
    {
      char32_t cp;
      std::size_t len;
      dec const d = decode_one(p, e, cp, len);
      if (d == dec::invalid)
      {
        r = error;
        break;
      }
      if (d == dec::incomplete || to == to_end)
      {
        r = partial;
        break;
      }
      *to++ = static_cast<wchar_t>(cp);
      p += len;
    }
    from_next = reinterpret_cast<extern_type const *>(p);
    to_next = to;
    return r;
  }

  static result out(intern_type const *from, intern_type const *from_end, intern_type const *&from_next, extern_type *to, extern_type *to_end,
                    extern_type *&to_next, std::size_t limit)
  {
    result r = ok;
    for (std::size_t n = 0; from != from_end && n < limit; ++n)
    {
      unsigned char b[4];
      std::size_t const len = encode_one(static_cast<char32_t>(*from), b);
      if (len == 0)
      {
        r = error;
        break;
      }
      if (static_cast<std::size_t>(to_end - to) < len)
      {
        r = partial;
        break;
      }
      for (std::size_t i = 0; i < len; ++i)
        *to++ = static_cast<char>(b[i]);
      ++from;
    }
    from_next = from;
    to_next = to;
    return r;
  }

  answer a_;
  int k_;
  int maxlen_;
  mutable int calls_ = 0;
};

// ------------------------------------------------------------ inputs
// all concatenations of up to n tokens, duplicates (different token sequences, same characters) removed, shortest first
template <class Ch> std::vector<std::basic_string<Ch>> concatenations(std::vector<std::basic_string<Ch>> const &tokens, unsigned n)
{
  std::vector<std::basic_string<Ch>> r{std::basic_string<Ch>{}};
  std::set<std::basic_string<Ch>> seen{std::basic_string<Ch>{}};
  std::size_t from = 0;
  for (unsigned l = 1; l <= n; ++l)
  {
    std::size_t const to = r.size();
    for (std::size_t i = from; i < to; ++i)
      for (auto const &t : tokens)
      {
        auto s = r[i] + t;
        if (seen.insert(s).second)
          r.push_back(std::move(s));
      }
    from = to;
  }
  return r;
}

// 'a', the 2-, 3- and 4-byte sequences and all their truncated prefixes, a lone continuation byte, an impossible byte
std::vector<std::string> narrow_inputs()
{
  std::vector<std::string> const tokens{"a",    "\xc3\xa9", "\xe2\x82\xac", "\xf0\x9f\x98\x80", "\xc3", "\xe2", "\xe2\x82", "\xf0", "\xf0\x9f",
                                        "\xf0\x9f\x98", "\xff", "\x80"};
  return concatenations<char>(tokens, vrt::thorough() ? 4U : 3U);
}

std::vector<std::wstring> wide_inputs()
{
  std::vector<std::wstring> tokens;
  for (long c : {0x61L, 0xe9L, 0x20acL, 0x1f600L, 0xd800L, 0x110000L, -1L})
    tokens.push_back(std::wstring(1, static_cast<wchar_t>(c)));
  return concatenations<wchar_t>(tokens, vrt::thorough() ? 5U : 4U);
}

struct script
{
  answer a;
  int k;
  int maxlen;
};

std::vector<script> scripts(int maxlen)
{
  std::vector<script> r{{answer::normal, 0, maxlen}};
  for (answer a : {answer::partial_zero, answer::partial_short, answer::error, answer::noconv, answer::ok_short})
    for (int k = 1; k <= 4; ++k)
      r.push_back({a, k, maxlen});
  return r;
}

std::string show_script(script const &s)
{
  return std::string(", facet scripted(max_length ") + std::to_string(s.maxlen) +
         (s.a == answer::normal ? std::string(")") : std::string(", call ") + std::to_string(s.k) + " answers " + answer_names[static_cast<int>(s.a)] + ")");
}

// ------------------------------------------------------------ widen direction
// which = 0: widen_locale, 1: to_std_wstring_locale
// reference: 2 = verdict, 1 = information only, 0 = not compared
void widen_case(entry &e, int which, std::string const &s, std::locale const &loc, std::string const &descr, int reference)
{
  if (!e.begin_text(show(s) + descr))
    return;
  std::wstring want;
  bool const valid = ref_widen(s, want);
  vrt::nontrivial(!valid || s.size() != want.size());
  vrt::maybe_sample();
  exact<char> const buf(s);
  std::wstring r;
  int const how = guarded_allow<std::runtime_error>(e.name, [&] {
    r = which == 0 ? fcppt::widen_locale(buf.view(), loc) : fcppt::to_std_wstring_locale(buf.view(), loc);
  });
  if (how == 0)
    vrt::count("documented_exception:widen_locale");
  if (reference == 2 && how >= 0)
  {
    // widen_locale.hpp: "Converts _string to std::wstring using _locale. \\throw std::runtime_error If the conversion fails"
    VRT_CHECK((how == 1) == valid, e.name + (valid ? ":missing" : ":spurious"), "%s UTF-8, but %s", valid ? "valid" : "invalid or truncated",
              how == 1 ? "a string was returned" : "std::runtime_error was thrown");
    if (valid && how == 1)
      VRT_CHECK(r == want, e.name + ":wrong_value", "got %s want %s", show(r).c_str(), show(want).c_str());
  }
  else if (reference == 1 && how >= 0)
    C01_INFO((how == 1) == valid && (!valid || how != 1 || r == want), e.name + ":differs_from_reference");
}

void widen_shard(int which, int maxlen)
{
  char const *const fn = which == 0 ? "widen_locale" : "to_std_wstring_locale";
  if (too_many_restarts(std::string(fn) + "_" + std::to_string(maxlen)))
    return;
  auto const inputs = narrow_inputs();
  if (maxlen == 4)
  {
    entry e(std::string(fn) + "[codecvt_utf8<wchar_t>]");
    std::locale const loc(std::locale::classic(), new std::codecvt_utf8<wchar_t>);
    for (auto const &s : inputs)
      widen_case(e, which, s, loc, ", facet std::codecvt_utf8<wchar_t>", 2);
  }
  entry e(std::string(fn) + "[scripted codecvt, max_length " + std::to_string(maxlen) + "]", nullptr);
  for (auto const &sc : scripts(maxlen))
    for (auto const &s : inputs)
    {
      if (vrt::out_of_time())
        return;
      std::locale const loc(std::locale::classic(), new scripted_codecvt(sc.a, sc.k, sc.maxlen));
      // The reference is a verdict only for a facet that honours the codecvt contract in the way real facets do: every
      // answer is the complete conversion and max_length() is truthful.  A `partial` although input and room were left
      // (partial_short) or a max_length() of 1 for UTF-8 are things a consumer may legitimately treat as a failed
      // conversion: information only.  All other scripts: totality and the exception type only.
      int const reference = sc.a == answer::normal ? (maxlen >= 4 ? 2 : 1) : sc.a == answer::partial_short ? 1 : 0;
      widen_case(e, which, s, loc, show_script(sc), reference);
    }
}

// ------------------------------------------------------------ narrow direction
// which = 0: narrow_locale, 1: from_std_wstring_locale
// reference: 2 = verdict, 1 = information only, 0 = not compared; only_valid: compared for encodable input only
void narrow_case(entry &e, int which, std::wstring const &s, std::locale const &loc, std::string const &descr, int reference, bool only_valid)
{
  if (!e.begin_text(show(s) + descr))
    return;
  std::string want;
  bool const valid = ref_narrow(s, want);
  vrt::nontrivial(!valid || s.size() != want.size());
  vrt::maybe_sample();
  exact<wchar_t> const buf(s);
  guarded(e.name, [&] {
    fcppt::optional_std_string const r = which == 0 ? fcppt::narrow_locale(buf.view(), loc) : fcppt::from_std_wstring_locale(buf.view(), loc);
    if (only_valid && !valid) // codecvt_utf8 is not strict about non-characters
      return;
    if (reference == 2)
    {
      // narrow_locale.hpp: "Converts _string to std::string using _locale", failure = empty optional
      VRT_CHECK(r.has_value() == valid, e.name + (valid ? ":missing" : ":spurious"), "%s input, has_value=%d", valid ? "encodable" : "not encodable",
                (int)r.has_value());
      if (valid && r.has_value())
        VRT_CHECK(r.get_unsafe() == want, e.name + ":wrong_value", "got %s want %s", show(r.get_unsafe()).c_str(), show(want).c_str());
    }
    else if (reference == 1)
      C01_INFO(r.has_value() == valid && (!valid || !r.has_value() || r.get_unsafe() == want), e.name + ":differs_from_reference");
  });
}

void narrow_shard(int which, int maxlen)
{
  char const *const fn = which == 0 ? "narrow_locale" : "from_std_wstring_locale";
  if (too_many_restarts(std::string(fn) + "_" + std::to_string(maxlen)))
    return;
  auto const inputs = wide_inputs();
  if (maxlen == 4)
  {
    entry e(std::string(fn) + "[codecvt_utf8<wchar_t>]");
    std::locale const loc(std::locale::classic(), new std::codecvt_utf8<wchar_t>);
    for (auto const &s : inputs)
      narrow_case(e, which, s, loc, ", facet std::codecvt_utf8<wchar_t>", 2, true);
  }
  entry e(std::string(fn) + "[scripted codecvt, max_length " + std::to_string(maxlen) + "]",
          maxlen < 4 ? "result not compared when max_length() understates the 4 bytes a character can need" : nullptr);
  for (auto const &sc : scripts(maxlen))
    for (auto const &s : inputs)
    {
      if (vrt::out_of_time())
        return;
      std::locale const loc(std::locale::classic(), new scripted_codecvt(sc.a, sc.k, sc.maxlen));
      // as in the widen direction: verdict only for complete conversions with a truthful max_length()
      int const reference = sc.a == answer::normal ? (maxlen >= 4 ? 2 : 1) : sc.a == answer::partial_short ? 1 : 0;
      narrow_case(e, which, s, loc, show_script(sc), reference, false);
    }
}

// ------------------------------------------------------------ throwing callbacks and element types
struct boom
{
  int n;
};

struct counters
{
  long live = 0;
  int copies = 0;
  int throw_at = 0;
};
counters cnt;

struct tracked
{
  int v;
  explicit tracked(int x) : v(x) { ++cnt.live; }
  tracked(tracked const &o) : v(o.v)
  {
    if (++cnt.copies == cnt.throw_at)
      throw boom{cnt.copies};
    ++cnt.live;
  }
  tracked(tracked &&o) : v(o.v)
  {
    if (++cnt.copies == cnt.throw_at)
      throw boom{cnt.copies};
    ++cnt.live;
  }
  tracked &operator=(tracked const &o)
  {
    if (++cnt.copies == cnt.throw_at)
      throw boom{cnt.copies};
    v = o.v;
    return *this;
  }
  ~tracked() { --cnt.live; }
};

// runs f with the throw armed at the k-th copy; returns 1: returned, 0: boom{k} propagated unchanged, -1: violation
template <class F> int neutral(std::string const &fn, int k, F &&f)
{
  cnt.copies = 0;
  cnt.throw_at = k;
  int r = -1;
  try
  {
    f();
    r = 1;
  }
  catch (boom const &b)
  {
    if (b.n == k)
      r = 0;
    else
      vrt::fail("exception:" + fn + ":changed", "the callback's exception arrived with another value");
  }
  catch (std::exception const &x)
  {
    vrt::fail("exception:" + fn + ":" + vrt::demangle(typeid(x).name()), x.what());
  }
  catch (...)
  {
    vrt::fail("exception:" + fn + ":unknown", "the callback's exception was replaced");
  }
  cnt.throw_at = 0;
  return r;
}

template <class C> C make_tracked(std::vector<int> const &s)
{
  C c;
  for (int v : s)
    c.emplace_back(v);
  return c;
}

template <class C, bool Front> void pop_throwing(char const *cname)
{
  entry e(std::string(Front ? "container::pop_front<" : "container::pop_back<") + cname + "> with a throwing element type");
  for (auto const &s : all_seqs(3))
    for (int k = 0; k <= 3; ++k)
    {
      if (!e.begin_text(show_seq(s) + ", copy " + std::to_string(k) + " throws"))
        continue;
      vrt::nontrivial(k > 0 && !s.empty());
      vrt::maybe_sample();
      long const base = cnt.live;
      {
        C c = make_tracked<C>(s);
        int got = -1;
        bool has = false;
        int const how = neutral(e.name, k, [&] {
          auto r = [&] {
            if constexpr (Front)
              return fcppt::container::pop_front(c);
            else
              return fcppt::container::pop_back(c);
          }();
          has = r.has_value();
          if (has)
            got = r.get_unsafe().v;
        });
        // the container is valid: what is left is the original without at most the popped element
        std::vector<int> rest;
        for (auto const &t : c)
          rest.push_back(t.v);
        std::vector<int> popped = s;
        if (!popped.empty())
        {
          if (Front)
            popped.erase(popped.begin());
          else
            popped.pop_back();
        }
        if (how == 1)
        {
          VRT_CHECK(has == !s.empty() && rest == popped, e.name + ":wrong", "returned normally with a wrong result");
          if (has)
            VRT_CHECK(got == (Front ? s.front() : s.back()), e.name + ":wrong_value", "popped %d", got);
        }
        else if (how == 0)
          // which of the valid states the container is left in after the element type threw is not documented (memory errors
          // are the sanitizer's business): information only
          C01_INFO(rest == s || rest == popped, e.name + ":container_state_after_exception");
      }
      VRT_CHECK(cnt.live == base, e.name + ":instances", "%ld element objects leaked or destroyed twice", cnt.live - base);
    }
}

template <std::size_t N> void from_range_throwing()
{
  entry e("array::from_range<" + std::to_string(N) + "> with a throwing element type");
  for (auto const &s : all_seqs(3))
    for (int k = 0; k <= 4; ++k)
      for (int rv = 0; rv < 2; ++rv)
      {
        if (!e.begin_text(std::string(rv ? "rvalue " : "lvalue ") + show_seq(s) + ", copy " + std::to_string(k) + " throws"))
          continue;
        vrt::nontrivial(k > 0 && s.size() == N);
        vrt::maybe_sample();
        long const base = cnt.live;
        {
          std::vector<tracked> src = make_tracked<std::vector<tracked>>(s);
          int const how = neutral(e.name, k, [&] {
            auto const r = rv ? fcppt::array::from_range<N>(std::move(src)) : fcppt::array::from_range<N>(src);
            VRT_CHECK(r.has_value() == (s.size() == N), e.name + ":guard", "size %zu has_value=%d", s.size(), (int)r.has_value());
            if (r.has_value() && s.size() == N)
              for (std::size_t i = 0; i < N; ++i)
                VRT_CHECK(r.get_unsafe().get_unsafe(i).v == s[i], e.name + ":wrong_value", "element %zu", i);
          });
          // whether elements are copied before the size is compared is an implementation detail: information only
          if (s.size() != N)
            C01_INFO(how == 1, e.name + ":copied_before_size_check");
        }
        VRT_CHECK(cnt.live == base, e.name + ":instances", "%ld element objects leaked or destroyed twice", cnt.live - base);
      }
}

void runtime_index_throwing()
{
  entry e("runtime_index<u8,3> with throwing callbacks");
  using max_c = std::integral_constant<u8, 3>;
  for (int i = 0; i <= 5; ++i)
    for (int who = 0; who <= 4; ++who) // the function throws for index who (0..2), 3: the fail function throws, 4: nobody
    {
      if (!e.begin(i, who))
        continue;
      bool const thrown = (i < 3 && who == i) || (i >= 3 && who == 3);
      vrt::nontrivial(thrown);
      vrt::maybe_sample();
      int r = -2;
      int const how = neutral(e.name, 77, [&] {
        r = fcppt::runtime_index<max_c>(
            static_cast<u8>(i),
            [who]<u8 I>(std::integral_constant<u8, I>) -> int {
              if (who == static_cast<int>(I))
                throw boom{77};
              return static_cast<int>(I);
            },
            [who]() -> int {
              if (who == 3)
                throw boom{77};
              return -1;
            });
      });
      VRT_CHECK(how == (thrown ? 0 : 1), e.name + ":propagation", "throwing=%d but outcome %d", (int)thrown, how);
      if (!thrown && how == 1)
        VRT_CHECK(r == (i < 3 ? i : -1), e.name + ":wrong", "got %d", r);
    }
}

struct throwing_less
{
  int *calls;
  int throw_at;
  bool operator()(int a, int b) const
  {
    if (++*calls == throw_at)
      throw boom{throw_at};
    return a < b;
  }
};

void find_opt_throwing()
{
  entry e("container::find_opt / find_opt_mapped with a throwing comparison");
  for (auto const &s : all_seqs(3))
    for (int key = -1; key <= 3; ++key)
      for (int k = 0; k <= 4; ++k)
        for (int mapped = 0; mapped < 2; ++mapped)
        {
          if (!e.begin_text(show_seq(s) + ", key " + std::to_string(key) + ", comparison " + std::to_string(k) + " throws" + (mapped ? ", mapped" : "")))
            continue;
          vrt::nontrivial(k > 0 && !s.empty());
          int calls = -1000; // not armed while the map is built
          std::map<int, int, throwing_less> m(throwing_less{&calls, k});
          for (int v : s)
            m.insert(std::make_pair(v, v + 10));
          bool const in = m.size() != 0 && [&] {
            for (int v : s)
              if (v == key)
                return true;
            return false;
          }();
          calls = 0;
          bool has = false;
          int const how = neutral(e.name, k, [&] {
            if (mapped)
              has = fcppt::container::find_opt_mapped(m, key).has_value();
            else
              has = fcppt::container::find_opt(m, key).has_value();
          });
          calls = -1000;
          if (how == 1)
            VRT_CHECK(has == in, e.name + ":wrong", "has_value=%d", (int)has);
          VRT_CHECK(how >= 0, e.name + ":propagation", "exception replaced");
        }
}

// a type whose extraction operator throws, fails, or succeeds
struct extractee
{
  int v = 0;
};
int extract_mode = 0; // 0 ok, 1 failbit, 2 throws boom, 3 throws std::ios_base::failure
template <class Ch, class Tr> std::basic_istream<Ch, Tr> &operator>>(std::basic_istream<Ch, Tr> &s, extractee &x)
{
  switch (extract_mode)
  {
  case 0:
    return s >> x.v;
  case 1:
    s.setstate(std::ios_base::failbit);
    return s;
  case 2:
    throw boom{5};
  default:
    throw std::ios_base::failure("user operator>>");
  }
}

void extract_throwing()
{
  entry e("extract_from_string<user type> with a throwing operator>>");
  for (auto const &s : all_strings<char>("1 a", 3))
    for (int mode = 0; mode < 4; ++mode)
    {
      if (!e.begin_text(show(s) + ", operator>> mode " + std::to_string(mode)))
        continue;
      vrt::nontrivial(mode >= 2);
      vrt::maybe_sample();
      extract_mode = mode;
      bool has = false;
      int how = -1;
      try
      {
        has = fcppt::extract_from_string<extractee>(s).has_value();
        how = 1;
      }
      catch (boom const &b)
      {
        how = b.n == 5 ? 0 : -1;
      }
      catch (std::ios_base::failure const &)
      {
        how = 2;
      }
      catch (...)
      {
        how = -1;
      }
      extract_mode = 0;
      // the user's exception propagates unchanged; without one the call returns
      int const want = mode == 2 ? 0 : mode == 3 ? 2 : 1;
      VRT_CHECK(how == want, e.name + ":propagation", "mode %d outcome %d", mode, how);
      if (mode == 1 && how == 1)
        VRT_CHECK(!has, e.name + ":spurious", "failed extraction gave a value");
    }
}
}

void c01::register_env()
{
  for (int which = 0; which < 2; ++which)
    for (int maxlen : {1, 4, 6})
    {
      vrt::shard(std::string(which ? "to_std_wstring_locale" : "widen_locale") + "/facets/max_length" + std::to_string(maxlen),
                 [which, maxlen] { widen_shard(which, maxlen); }, 10);
      vrt::shard(std::string(which ? "from_std_wstring_locale" : "narrow_locale") + "/facets/max_length" + std::to_string(maxlen),
                 [which, maxlen] { narrow_shard(which, maxlen); }, 10);
    }
  vrt::shard("throwing_callbacks", [] {
    pop_throwing<std::vector<tracked>, false>("std::vector");
    pop_throwing<std::deque<tracked>, false>("std::deque");
    pop_throwing<std::list<tracked>, false>("std::list");
    pop_throwing<std::deque<tracked>, true>("std::deque");
    pop_throwing<std::list<tracked>, true>("std::list");
    from_range_throwing<0>();
    from_range_throwing<1>();
    from_range_throwing<2>();
    from_range_throwing<3>();
    runtime_index_throwing();
    find_opt_throwing();
    extract_throwing();
  });
}

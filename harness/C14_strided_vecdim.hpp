// C14_strided_vecdim.hpp (used by C14_strided_vec.cpp, C14_strided_vec4.cpp, C14_strided_dim.cpp) -- vectors and dims over non-contiguous view storages (strided,
// reversed; see C14_strided.hpp): every generic entry point against plain arrays.
// Exhaustive over all pairs (u,v) of a small value set, two decoy modes, three storages.
#pragma once
#include "C14_strided.hpp"
#include "C14_vecdim.hpp"

#include <fcppt/math/vector/cross.hpp>
#include <fcppt/math/vector/dim.hpp>
#include <fcppt/math/vector/dot.hpp>
#include <fcppt/math/vector/length_square.hpp>

namespace c14
{
namespace noncontig
{
template <class K, sz N, class Kind> using kobj = typename K::template ob<I, N, typename Kind::storage>;

// X: the operand u behind storage kind KX; Y: the operand w behind storage kind KY
template <class K, sz N, class KX, class KY> void strided_pair(rvec<N> const &u, rvec<N> const &w, int mode)
{
  static std::string const fn = std::string("noncontiguous_") + K::name + "<" + std::to_string(N) + "," + KX::name() + "," + KY::name() + ">";
  static std::string const sg = std::string("noncontiguous_") + K::name; // signatures: function group only; dimension and storages are in the case text
  if (!vrt::begin_text(fn.c_str(), fn + " decoys=" + (mode == 0 ? "differ" : "mirror") + " u=" + show(u) + " v=" + show(w)))
    return;
  int differing = 0;
  for (sz i = 0; i < N; ++i)
    differing += u[i] != w[i];
  vrt::nontrivial(differing <= 1 || (!rvzero(u) && !rvzero(w)));
  vrt::maybe_sample();
  KX bx;
  KY by;
  bx.b.fill(u, mode, w);
  by.b.fill(w, mode, u);
  std::vector<long> const rawx = bx.b.raw(), rawy = by.b.raw();
  kobj<K, N, KX> const X{bx.make()};
  kobj<K, N, KY> const Y{by.make()};
  kst<K, N> const su = mk_sv<kst<K, N>>(u), sw = mk_sv<kst<K, N>>(w);
  buf<N> const pw(w);
  kvw<K, N> const vw = kview<K, N>(pw);
  bool const eq = u == w;
  bool less = false;
  for (sz i = 0; i < N; ++i)
    if (u[i] != w[i])
    {
      less = u[i] < w[i];
      break;
    }
  // ---- comparison
  C14_TRUE((X == sw) == eq, sg + ":eq", "X==v wrong");
  C14_TRUE((sw == X) == eq, sg + ":eq", "v==X wrong");
  C14_TRUE((X == vw) == eq, sg + ":eq", "X==v (pointer view) wrong");
  C14_TRUE((vw == X) == eq, sg + ":eq", "v (pointer view)==X wrong");
  C14_TRUE((X == Y) == eq, sg + ":eq", "X==Y wrong");
  C14_TRUE((Y == X) == eq, sg + ":eq", "Y==X wrong");
  C14_TRUE(X == X && X == su && su == X, sg + ":eq", "X != its own elements");
  C14_TRUE((X != sw) == !eq, sg + ":ne", "X!=v wrong");
  C14_TRUE((sw != X) == !eq, sg + ":ne", "v!=X wrong");
  C14_TRUE((X != Y) == !eq, sg + ":ne", "X!=Y wrong");
  C14_TRUE(!(X != su), sg + ":ne", "X != its own elements");
  C14_TRUE((X < Y) == less, sg + ":lt", "X<Y wrong");
  C14_TRUE((X < sw) == less, sg + ":lt", "X<v wrong");
  C14_TRUE((su < Y) == less, sg + ":lt", "u<Y wrong");
  C14_TRUE((X <= Y) == (less || eq), sg + ":le", "X<=Y wrong");
  C14_TRUE((X > Y) == (!less && !eq), sg + ":gt", "X>Y wrong");
  C14_TRUE((X >= sw) == !less, sg + ":ge", "X>=v wrong");
  // ---- arithmetic (results are static objects)
  rvec<N> const sum = rvadd(u, w), diff = rvsub(u, w), prod = rvmul(u, w);
  C14_EQ(rdv(X + sw), sum, sg + ":add", "X+v");
  C14_EQ(rdv(sw + X), sum, sg + ":add", "v+X");
  C14_EQ(rdv(X + Y), sum, sg + ":add", "X+Y");
  C14_EQ(rdv(X - sw), diff, sg + ":sub", "X-v");
  C14_EQ(rdv(su - Y), diff, sg + ":sub", "u-Y");
  C14_EQ(rdv(X - Y), diff, sg + ":sub", "X-Y");
  C14_EQ(rdv(X * sw), prod, sg + ":mul", "X*v");
  C14_EQ(rdv(su * Y), prod, sg + ":mul", "u*Y");
  C14_EQ(rdv(X * Y), prod, sg + ":mul", "X*Y");
  check_quotient(X / sw, u, w, sg + ":div");
  check_quotient(su / Y, u, w, sg + ":div");
  check_quotient(X / Y, u, w, sg + ":div");
  C14_EQ(rdv(-X), rvscal(-1, u), sg + ":negate", "-X");
  C14_EQ(rdv(X * 3), rvscal(3, u), sg + ":scalar:right", "X*3");
  C14_EQ(rdv(-2 * X), rvscal(-2, u), sg + ":scalar:left", "-2*X");
  {
    rvec<N> den;
    den.fill(2);
    check_quotient(X / 2, u, den, sg + ":scalar:div");
  }
  // ---- conversions and casts
  C14_EQ(rdv(kst<K, N>(X)), u, sg + ":copy:view_to_static", "static constructed from X");
  {
    kst<K, N> t = mk_sv<kst<K, N>>(rvec<N>{});
    t = X;
    C14_EQ(rdv(t), u, sg + ":assign:view_to_static", "static assigned from X");
  }
  using lst = typename K::template st<long, N>;
  C14_EQ(rdv(K::template scast<lst>(X)), u, sg + ":structure_cast", "structure_cast<long>(X)");
  {
    rvec<N + 1> want;
    for (sz i = 0; i < N; ++i)
      want[i] = u[i];
    want[N] = 7;
    C14_EQ(rdv(K::push_back(X, 7)), want, sg + ":push_back", "push_back(X,7)");
  }
  if constexpr (N > 1)
  {
    rvec<N - 1> want;
    for (sz i = 0; i + 1 < N; ++i)
      want[i] = u[i];
    C14_EQ(rdv(K::template narrow<kst<K, N - 1>>(X)), want, sg + ":narrow_cast", "narrow_cast<N-1>(X)");
  }
  static_for<N>([&](auto ii) {
    constexpr sz i = decltype(ii)::value;
    C14_EQ(static_cast<long>(K::template at<i>(X)), u[i], sg + ":at", "at<i>(X)");
    if constexpr (i < K::named_count)
      C14_EQ(static_cast<long>(K::template named<i>(X)), u[i], sg + ":named", "named accessor of X");
    C14_EQ(static_cast<long>(X.get_unsafe(i)), u[i], sg + ":get_unsafe", "X.get_unsafe(i)");
  });
  if constexpr (K::is_vector)
  {
    C14_EQ(rdv(fv::to_dim(X)), u, sg + ":to_dim", "to_dim(X)");
    C14_EQ(static_cast<long>(fv::dot(X, sw)), rvdot(u, w), sg + ":dot", "dot(X,v)");
    C14_EQ(static_cast<long>(fv::dot(su, Y)), rvdot(u, w), sg + ":dot", "dot(u,Y)");
    C14_EQ(static_cast<long>(fv::dot(X, Y)), rvdot(u, w), sg + ":dot", "dot(X,Y)");
    C14_EQ(static_cast<long>(fv::length_square(X)), rvdot(u, u), sg + ":length_square", "length_square(X)");
    if constexpr (N == 3)
    {
      C14_EQ(rdv(fv::cross(X, Y)), rvcross(u, w), sg + ":cross", "cross(X,Y)");
      C14_EQ(rdv(fv::cross(su, Y)), rvcross(u, w), sg + ":cross", "cross(u,Y)");
    }
    // vector (op) dim with the dim behind the second storage kind
    fd::object<I, N, typename KY::storage> const D{by.make()};
    C14_EQ(rdv(X + D), sum, sg + ":vector_dim:add", "X+dim(Y)");
    C14_EQ(rdv(X - D), diff, sg + ":vector_dim:sub", "X-dim(Y)");
    C14_EQ(rdv(X * D), prod, sg + ":vector_dim:mul", "X*dim(Y)");
    check_quotient(X / D, u, w, sg + ":vector_dim:div");
  }
  else
  {
    C14_EQ(rdv(fd::to_vector(X)), u, sg + ":to_vector", "to_vector(X)");
    long want = 1;
    for (long x : u)
      want *= x;
    C14_EQ(static_cast<long>(fd::contents(X)), want, sg + ":contents", "contents(X)");
  }
  // read-only operations must not have written anything
  C14_EQ(bx.b.raw(), rawx, sg + ":readonly_wrote", "a read-only operation changed the buffer behind X");
  C14_EQ(by.b.raw(), rawy, sg + ":readonly_wrote", "a read-only operation changed the buffer behind Y");
  // ---- writes through the view: exactly the viewed positions change
  {
    KX bt;
    bt.b.fill(u, mode, w);
    kobj<K, N, KX> T{bt.make()};
    T += sw;
    C14_EQ(bt.b.raw(), bt.b.with(rawx, sum), sg + ":add_assign:view_static", "X+=v");
    T -= Y;
    C14_EQ(bt.b.raw(), rawx, sg + ":sub_assign:view_view", "(X+=v)-=Y");
    T *= vw;
    C14_EQ(bt.b.raw(), bt.b.with(rawx, prod), sg + ":mul_assign:view_pointer", "X*=v");
    T = sw;
    C14_EQ(bt.b.raw(), bt.b.with(rawx, w), sg + ":assign:static_to_view", "X=v");
    // (assignment between two views of the *same* storage type is the implicit copy assignment,
    //  which rebinds the view instead of copying elements: not part of the property)
    T = Y;
    C14_EQ(bt.b.raw(), bt.b.with(rawx, w), sg + ":assign:other_view_to_view", "X=Y");
    T *= 3;
    C14_EQ(bt.b.raw(), bt.b.with(rawx, rvscal(3, w)), sg + ":scalar_assign", "X*=3");
    if constexpr (int_writes_ok)
    static_for<N>([&](auto ii) {
      constexpr sz i = decltype(ii)::value;
      rvec<N> nv = rvscal(3, w);
      nv[i] = 7;
      K::template at<i>(T) = 7;
      C14_EQ(bt.b.raw(), bt.b.with(rawx, nv), sg + ":write:at", "at<i>(X)=7");
      T.get_unsafe(i) = static_cast<I>(3 * w[i]);
      C14_EQ(bt.b.raw(), bt.b.with(rawx, rvscal(3, w)), sg + ":write:get_unsafe", "X.get_unsafe(i)=...");
    });
    // a static operand combined with a view must not be modified either
    kst<K, N> m = su;
    m += Y;
    C14_EQ(rdv(m), sum, sg + ":add_assign:static_view", "u+=Y");
    m -= X;
    C14_EQ(rdv(m), w, sg + ":sub_assign:static_view", "(u+=Y)-=X");
    m *= X;
    C14_EQ(rdv(m), prod, sg + ":mul_assign:static_view", "v*=X");
  }
}

template <class K, sz N> void all_pairs(std::vector<long> const &vals)
{
  std::vector<rvec<N>> fam;
  for (auto const &m : all_over<1, N>(vals))
    fam.push_back(m.d);
  for (auto const &u : fam)
  {
    if (vrt::out_of_time())
      return;
    for (auto const &w : fam)
      for (int mode = 0; mode < 2; ++mode)
      {
        strided_pair<K, N, strided_kind<N, 2>, strided_kind<N, 3>>(u, w, mode);
        strided_pair<K, N, strided_kind<N, 3>, reversed_kind<N>>(u, w, mode);
        strided_pair<K, N, reversed_kind<N>, strided_kind<N, 2>>(u, w, mode);
      }
  }
}
}
}

// C13 -- axis-aligned boxes behave as half-open point sets (fcppt::math::box).
// Engine E: every box with corners in a small integer range, every pair of such boxes, every
// lattice point; reference = explicit point sets (see C13_impl.hpp).  This TU only registers
// the shards; the instantiations live in C13_int.cpp, C13_unsigned.cpp, C13_wide.cpp,
// C13_float.cpp, C13_double.cpp and C13_heap.cpp (user-defined scalar with observable moves).
#include <C13_impl.hpp>

int main(int argc, char **argv)
{
  c13::reg_int();
  c13::reg_unsigned();
  c13::reg_wide();
  c13::reg_float();
  c13::reg_double();
  c13::reg_heap();
  return vrt::run(argc, argv);
}

// C17 (element semantics): ==, !=, <, hash of wrappers/containers must be the *element type's* ==, <.
// The universes of C17_common.hpp use int/string components, for which "same bytes", "same value" and
// "equal by ==" coincide.  Here the components are of types where they do not:
//   double  : +0.0 == -0.0 (different bytes), NaN != NaN (same bytes), inf
//   padded  : trivially copyable struct {char key; <padding>; int tag}; its == / < look at .key only;
//             values differ in .tag and/or in the padding bytes (written with memset/memcpy)
//   nr      : trivial struct whose == is not reflexive (nr{0} != nr{0}); < is a partial order
// Oracle: shape (sizes / active alternative) equal and std::equal over the plain component values with
// the component type's own operator==; != is the negation; for pairs of totally ordered values < is the
// documented lexicographic order with the component's <, and a == b <=> neither a<b nor b<a.
#pragma once
#include <C17_common.hpp>

#include <algorithm>
#include <cmath>
#include <cstring>
#include <limits>

namespace c17e
{
using c17::key_t;

struct padded
{
  char key;
  int tag;
};
static_assert(sizeof(padded) > sizeof(char) + sizeof(int), "padded has no padding on this platform");
inline bool operator==(padded const &a, padded const &b) { return a.key == b.key; }
inline bool operator!=(padded const &a, padded const &b) { return a.key != b.key; }
inline bool operator<(padded const &a, padded const &b) { return a.key < b.key; }
inline bool operator<=(padded const &a, padded const &b) { return a.key <= b.key; }
inline bool operator>(padded const &a, padded const &b) { return a.key > b.key; }
inline bool operator>=(padded const &a, padded const &b) { return a.key >= b.key; }

struct nr
{
  int v;
};
inline bool operator==(nr const &a, nr const &b) { return a.v == b.v && a.v != 0; } // nr{0} is "unordered" like NaN
inline bool operator!=(nr const &a, nr const &b) { return !(a == b); }
inline bool operator<(nr const &a, nr const &b) { return a.v != 0 && b.v != 0 && a.v < b.v; }
inline bool operator>(nr const &a, nr const &b) { return b < a; }
inline bool operator<=(nr const &a, nr const &b) { return a < b || a == b; }
inline bool operator>=(nr const &a, nr const &b) { return b < a || a == b; }

// byte images of the padded values: (key, tag, fill byte of the padding)
constexpr int n_padded = 5;
inline unsigned char const *padded_image(int idx)
{
  static unsigned char img[n_padded][sizeof(padded)];
  static bool init = false;
  if (!init)
  {
    struct spec
    {
      char key;
      int tag;
      int fill;
    } const specs[n_padded] = {{0, 0, 0x00}, {0, 0, 0xFF}, {0, 1, 0xAA}, {1, 0, 0x00}, {1, 7, 0x55}};
    for (int i = 0; i < n_padded; ++i)
    {
      std::memset(img[i], specs[i].fill, sizeof(padded));
      std::memcpy(img[i] + offsetof(padded, key), &specs[i].key, sizeof(char));
      std::memcpy(img[i] + offsetof(padded, tag), &specs[i].tag, sizeof(int));
    }
    init = true;
  }
  return img[idx];
}
// write value idx including its padding bytes over an existing object
inline void place(padded &dst, int idx) { std::memcpy(static_cast<void *>(&dst), padded_image(idx), sizeof(padded)); }
inline padded padded_value(int idx)
{
  padded p;
  place(p, idx);
  return p;
}

// one plain component value of any of the three types
struct leaf
{
  int kind; // 0 double, 1 padded, 2 nr
  double d;
  int pidx;
  padded p;
  nr n;
};
inline leaf L(double d) { return leaf{0, d, 0, padded{0, 0}, nr{0}}; }
inline leaf LP(int idx) { return leaf{1, 0.0, idx, padded_value(idx), nr{0}}; }
inline leaf L(nr n) { return leaf{2, 0.0, 0, padded{0, 0}, n}; }

// the component type's own operators on the plain values
inline bool leaf_eq(leaf const &a, leaf const &b)
{
  if (a.kind != b.kind)
    return false;
  return a.kind == 0 ? a.d == b.d : a.kind == 1 ? a.p == b.p : a.n == b.n;
}
inline bool leaf_lt(leaf const &a, leaf const &b)
{
  if (a.kind != b.kind)
    return a.kind < b.kind;
  return a.kind == 0 ? a.d < b.d : a.kind == 1 ? a.p < b.p : a.n < b.n;
}
inline bool leaf_total(leaf const &a) { return a.kind == 0 ? !std::isnan(a.d) : a.kind == 1 ? true : a.n.v != 0; }
inline bool leaf_same_bytes(leaf const &a, leaf const &b)
{
  if (a.kind != b.kind)
    return false;
  return a.kind == 0 ? std::memcmp(&a.d, &b.d, sizeof(double)) == 0 : a.kind == 1 ? a.pidx == b.pidx : a.n.v == b.n.v;
}
inline std::string show_leaf(leaf const &a)
{
  if (a.kind == 0)
    return std::isnan(a.d) ? "NaN" : (a.d == 0.0 ? (std::signbit(a.d) ? "-0.0" : "+0.0") : vrt::fmt("%g", a.d));
  if (a.kind == 1)
    return vrt::fmt("padded#%d{key=%d,tag=%d}", a.pidx, (int)a.p.key, a.p.tag);
  return vrt::fmt("nr{%d}", a.n.v);
}

inline std::vector<leaf> doubles()
{
  return {L(0.0), L(-0.0), L(1.0), L(std::numeric_limits<double>::quiet_NaN()), L(std::numeric_limits<double>::infinity())};
}
inline std::vector<leaf> paddeds()
{
  std::vector<leaf> r;
  for (int i = 0; i < n_padded; ++i)
    r.push_back(LP(i));
  return r;
}
inline std::vector<leaf> nrs() { return {L(nr{0}), L(nr{1}), L(nr{2})}; }

// all sequences of length n over dom
inline std::vector<std::vector<leaf>> sequences(std::vector<leaf> const &dom, unsigned n)
{
  std::vector<std::vector<leaf>> r;
  for (key_t const &k : c17::tuples(n, static_cast<long>(dom.size())))
  {
    std::vector<leaf> s;
    for (long i : k)
      s.push_back(dom[static_cast<std::size_t>(i)]);
    r.push_back(std::move(s));
  }
  return r;
}

template <class T> struct eentry
{
  T value;
  key_t shape;             // sizes / active alternative
  std::vector<leaf> elems; // the plain component values, in the documented order
  std::string route;
};
template <class T> using euniverse = std::vector<eentry<T>>;
template <class T> void eadd(euniverse<T> &u, T v, key_t shape, std::vector<leaf> elems, std::string route = "")
{
  u.push_back(eentry<T>{std::move(v), std::move(shape), std::move(elems), std::move(route)});
}
template <class T> std::string eshow(eentry<T> const &e)
{
  std::string r = c17::show_key(e.shape) + "(";
  for (std::size_t i = 0; i < e.elems.size(); ++i)
    r += (i ? ", " : "") + show_leaf(e.elems[i]);
  return r + ")" + (e.route.empty() ? "" : " via " + e.route);
}

template <class T> bool ref_eq(eentry<T> const &a, eentry<T> const &b)
{
  return a.shape == b.shape && a.elems.size() == b.elems.size() &&
         std::equal(a.elems.begin(), a.elems.end(), b.elems.begin(), leaf_eq);
}
template <class T> bool total(eentry<T> const &a) { return std::all_of(a.elems.begin(), a.elems.end(), leaf_total); }
template <class T> bool same_bytes(eentry<T> const &a, eentry<T> const &b)
{
  return a.shape == b.shape && a.elems.size() == b.elems.size() &&
         std::equal(a.elems.begin(), a.elems.end(), b.elems.begin(), leaf_same_bytes);
}

// documented orders, written with the component's <
struct lex_elems // std::lexicographical_compare over the elements (raw_vector, math vector/dim, strong_typedef, ...)
{
  template <class T> bool operator()(eentry<T> const &a, eentry<T> const &b) const
  {
    return std::lexicographical_compare(a.elems.begin(), a.elems.end(), b.elems.begin(), b.elems.end(), leaf_lt);
  }
};
struct shape_then_elems // optional (has_value), variant (type_index), grid (size): shape first, then the elements
{
  template <class T> bool operator()(eentry<T> const &a, eentry<T> const &b) const
  {
    if (a.shape != b.shape)
      return a.shape < b.shape;
    return std::lexicographical_compare(a.elems.begin(), a.elems.end(), b.elems.begin(), b.elems.end(), leaf_lt);
  }
};
struct no_order
{
  template <class T> bool operator()(eentry<T> const &, eentry<T> const &) const { return false; }
};

// All ordered pairs (including i == j: the same object compared with itself).
template <unsigned F, class T, class RefLt = no_order, class Hash = c17::std_hash_of>
void check_elem(std::string const &family, std::string const &inst, euniverse<T> const &u, RefLt const &ref_lt = RefLt{},
                Hash const &hasher = Hash{})
{
  static std::deque<std::string> names;
  names.push_back(family + inst + ":elem_pair");
  char const *const n_pair = names.back().c_str();
  std::size_t const N = u.size();
  vrt::count("universe:" + family + inst + "/elem", N);
  auto sig = [&](char const *check) { return family + ":" + check + "_elem:" + inst; };
  for (std::size_t i = 0; i < N; ++i)
  {
    if (vrt::out_of_time())
      return;
    eentry<T> const &A = u[i];
    for (std::size_t j = 0; j < N; ++j)
    {
      eentry<T> const &B = u[j];
      if (!vrt::begin(n_pair, i, j))
        continue;
      bool const req = ref_eq(A, B);
      bool const tot = total(A) && total(B);
      // non-trivial: element-wise == and "same bytes" disagree (equal with different bytes, or unequal with
      // the same bytes: NaN, nr{0})
      vrt::nontrivial(req != same_bytes(A, B));
      if (c17::pow2(vrt::S().page->evaluations))
      {
        vrt::describe(family + inst + " elem pair: " + eshow(A) + "  vs  " + eshow(B));
        vrt::maybe_sample();
      }
      T const &a = A.value;
      T const &b = B.value;
      bool const eq = a == b;
      if (eq != req)
        vrt::fail(sig("eq"), vrt::fmt("operator== gave %d, element-wise == of the components gives %d: %s  vs  %s", (int)eq,
                                      (int)req, eshow(A).c_str(), eshow(B).c_str()));
      if constexpr ((F & c17::NE) != 0)
      {
        bool const ne = a != b;
        if (ne != !req)
          vrt::fail(sig("ne"), vrt::fmt("operator!= gave %d, element-wise == of the components gives %d: %s  vs  %s", (int)ne,
                                        (int)req, eshow(A).c_str(), eshow(B).c_str()));
      }
      if constexpr ((F & c17::LT) != 0)
      {
        bool const lt = a < b, tl = b < a;
        if (eq && (lt || tl) && tot)
          vrt::fail(sig("lt_compatible"), vrt::fmt("a==b but a<b:%d b<a:%d: %s  vs  %s", (int)lt, (int)tl, eshow(A).c_str(),
                                                    eshow(B).c_str()));
        if (tot) // totally ordered components: exactly one of ==, a<b, b<a
        {
          if ((eq ? 1 : 0) + (lt ? 1 : 0) + (tl ? 1 : 0) != 1)
            vrt::fail(sig("lt_trichotomy"), vrt::fmt("a==b:%d a<b:%d b<a:%d (exactly one expected for totally ordered components): %s  vs  %s",
                                                     (int)eq, (int)lt, (int)tl, eshow(A).c_str(), eshow(B).c_str()));
          if constexpr ((F & c17::LEX_INFO) != 0)
          {
            if (lt != ref_lt(A, B))
              vrt::count("info:" + family + ":lt_lexicographic_elem:" + inst);
          }
          if constexpr ((F & c17::LEX) != 0)
          {
            bool const want = ref_lt(A, B);
            if (lt != want)
              vrt::fail(sig("lt_lexicographic"), vrt::fmt("a<b gave %d, documented order with the component's < gives %d: %s  vs  %s",
                                                           (int)lt, (int)want, eshow(A).c_str(), eshow(B).c_str()));
          }
          if constexpr ((F & c17::REL) != 0)
          {
            bool const gt = a > b, le = a <= b, ge = a >= b;
            if (gt != tl || le != !tl || ge != !lt)
              vrt::fail(sig("rel_derived"), vrt::fmt("a<b:%d b<a:%d but a>b:%d a<=b:%d a>=b:%d: %s  vs  %s", (int)lt, (int)tl, (int)gt,
                                                     (int)le, (int)ge, eshow(A).c_str(), eshow(B).c_str()));
          }
        }
      }
      if constexpr ((F & c17::HASH) != 0)
      {
        if (req || eq)
        {
          std::size_t const ha = hasher(a), hb = hasher(b);
          if (ha != hb)
            vrt::fail(sig("hash"), vrt::fmt("equal values (== gave %d, components equal: %d) hash to %zu and %zu: %s  vs  %s", (int)eq,
                                            (int)req, ha, hb, eshow(A).c_str(), eshow(B).c_str()));
        }
      }
    }
  }
}

} // namespace c17e

void register_elem_sums();       // C17_elem.cpp
void register_elem_containers(); // C17_elem2.cpp

// C05 -- value conservation: fcppt::options flag / option / many constructors (and the values their parsers hand out),
// plus product (apply) and optional around them.  Needs the compiled core and options libraries.
#include "C05_common.hpp"
#include "C05_record_collect.hpp"

#include <fcppt/args_vector.hpp>
#include <fcppt/text.hpp>
#include <fcppt/either/object_impl.hpp>
#include <fcppt/optional/make.hpp>
#include <fcppt/optional/object_impl.hpp>
#include <fcppt/options/apply.hpp>
#include <fcppt/options/argument.hpp>
#include <fcppt/options/exception.hpp>
#include <fcppt/options/flag.hpp>
#include <fcppt/options/long_name.hpp>
#include <fcppt/options/make_active_value.hpp>
#include <fcppt/options/make_default_value.hpp>
#include <fcppt/options/make_inactive_value.hpp>
#include <fcppt/options/make_many.hpp>
#include <fcppt/options/make_optional.hpp>
#include <fcppt/options/no_default_value.hpp>
#include <fcppt/options/option.hpp>
#include <fcppt/options/optional_help_text.hpp>
#include <fcppt/options/optional_short_name.hpp>
#include <fcppt/options/parse.hpp>
#include <fcppt/options/short_name.hpp>
#include <fcppt/record/get.hpp>
#include <fcppt/record/make_label.hpp>

#include <string>

namespace
{
using namespace c05;

FCPPT_RECORD_MAKE_LABEL(l1);
FCPPT_RECORD_MAKE_LABEL(l2);

namespace fo = fcppt::options;

fo::optional_short_name sname(bool with) { return with ? fo::optional_short_name{fo::short_name{FCPPT_TEXT("f")}} : fo::optional_short_name{}; }

// every element of _items was created during the call (id >= first fresh id), ids are distinct, nothing is moved-from,
// payloads are as given: the values a parser extracted from the command line arrive exactly once
void expect_fresh(ctx &x, std::vector<item> const &_items, std::vector<int> const &_payloads, char const *_what = "result")
{
  std::string const w = _what;
  VRT_CHECK(_items.size() == _payloads.size(), x.op() + ":" + w + ":element_count", "%zu elements, expected %zu", _items.size(),
            _payloads.size());
  std::set<int> seen;
  for (std::size_t i = 0; i < _items.size(); ++i)
  {
    item const &it = _items[i];
    VRT_CHECK(!it.moved, x.op() + ":" + w + ":holds_moved_from_element", "element %zu (id %d) is moved-from", i, it.id);
    VRT_CHECK(it.id >= x.first_fresh_id(), x.op() + ":" + w + ":unexpected_element", "element %zu has id %d, not created during the call", i,
              it.id);
    VRT_CHECK(seen.insert(it.id).second, x.op() + ":" + w + ":element_duplicated", "id %d appears twice", it.id);
    if (i < _payloads.size() && !it.moved)
      VRT_CHECK(it.payload == _payloads[i], x.op() + ":" + w + ":payload_changed", "element %zu has payload %d, expected %d", i, it.payload,
                _payloads[i]);
  }
}

// ---------------------------------------------------------------- flag
template <class T> T mkval(int v);
template <> tracked mkval<tracked>(int v) { return tracked(v); }
template <> std::string mkval<std::string>(int v) { return std::string(v == 1 ? "on" : "off-is-a-longer-string-than-any-sso-buffer-holds"); }
template <> int mkval<int>(int v) { return v; }
template <class T> char const *vname();
template <> char const *vname<tracked>() { return "tracked"; }
template <> char const *vname<std::string>() { return "std::string"; }
template <> char const *vname<int>() { return "int"; }

template <class T> void flag_ctor()
{
  using flag_t = fo::flag<l1, T>;
  std::string const op = std::string("options::flag<") + vname<T>() + ">(ctor)";
  for (int with_short = 0; with_short < 2; ++with_short)
    for (int same = 0; same < 2; ++same)
      run_case(op, descr({{"active", cat::rv}, {"inactive", cat::rv}}, std::string(with_short ? "short+long name" : "long name") +
                                                                         (same ? ", equal values" : ", different values")),
               true, [&](ctx &x) {
                 T a = mkval<T>(1), i = mkval<T>(same ? 1 : 0);
                 std::vector<int> const want = ids_of(a) + ids_of(i);
                 x.arg("active", cat::rv, a);
                 x.arg("inactive", cat::rv, i);
                 bool thrown = false;
                 std::string msg;
                 x.arm();
                 try
                 {
                   flag_t f{sname(with_short), fo::long_name{FCPPT_TEXT("flag")}, fo::make_active_value(std::move(a)),
                            fo::make_inactive_value(std::move(i)), fo::optional_help_text{}};
                   x.disarm();
                   if (same) // nothing is promised about a flag with equal values
                     throw 0;
                   // what the parser hands out afterwards: copies of the stored values (the flag is a const lvalue then)
                   auto const on = fo::parse(f, fcppt::args_vector{FCPPT_TEXT("--flag")});
                   auto const off = fo::parse(f, fcppt::args_vector{});
                   VRT_CHECK(on.has_success() && off.has_success(), op + ":parse", "parse failed");
                   if (on.has_success() && off.has_success())
                   {
                     if constexpr (is_tracked<T>::value)
                       x.result_is(std::make_tuple(std::cref(on.get_success_unsafe()), std::cref(off.get_success_unsafe())), want, "parsed");
                     else
                     {
                       VRT_CHECK(fcppt::record::get<l1>(on.get_success_unsafe()) == mkval<T>(1), op + ":parsed:active_value", "wrong active value");
                       VRT_CHECK(fcppt::record::get<l1>(off.get_success_unsafe()) == mkval<T>(0), op + ":parsed:inactive_value",
                                 "wrong inactive value");
                     }
                   }
                 }
                 catch (fo::exception const &e)
                 {
                   x.disarm();
                   thrown = true;
                   msg = e.string();
                 }
                 catch (int)
                 {
                   // equal values were accepted: left the block early
                 }
                 catch (...)
                 {
                   x.disarm();
                   if (!same)
                     throw; // reported by run_case as <op>:exception:<type>
                   thrown = true; // equal values: any exception type is as good as another
                 }
                 // documented: "The active and the inactive value must be different": different values are valid input and must
                 // not throw.  What happens for equal values (a precondition violation) is not promised: information only.
                 if (same)
                 {
                   if (!thrown)
                     vrt::count("info:" + op + ":equal_values_accepted_without_exception");
                 }
                 else
                   VRT_CHECK(!thrown, op + ":spurious_exception", "values different, exception thrown: %s", msg.c_str());
               });
}

// ---------------------------------------------------------------- option
void option_all()
{
  using opt_t = fo::option<l1, tracked>;
  std::string const op = "options::option(ctor)";
  for (int with_short = 0; with_short < 2; ++with_short)
    for (int with_default = 0; with_default < 2; ++with_default)
    {
      run_case(op, descr({{"default_value", cat::rv}}, std::string(with_short ? "short+long name" : "long name") +
                                                           (with_default ? ", default present" : ", default absent")),
               with_default, [&](ctx &x) {
                 using od = fcppt::optional::object<tracked>;
                 od d = with_default ? od{tracked(42)} : od{};
                 std::vector<int> const want = ids_of(d);
                 x.arg("default_value", cat::rv, d);
                 x.arm();
                 opt_t o{sname(with_short), fo::long_name{FCPPT_TEXT("opt")}, fo::make_default_value(std::move(d)), fo::optional_help_text{}};
                 x.disarm();
                 auto const r = fo::parse(o, fcppt::args_vector{});
                 VRT_CHECK(r.has_success() == (with_default != 0), op + ":parse_default", "parse without arguments: success=%d",
                           int(r.has_success()));
                 if (r.has_success())
                   x.result_is(r.get_success_unsafe(), want, "parsed_default");
               });
      // values extracted from the command line: created inside the call, must arrive once, never copied
      for (int form = 0; form < (with_short ? 2 : 1); ++form)
        run_case("options::option::parse", std::string(form ? "-f 5" : "--opt 5") + (with_default ? ", default present" : ", default absent"),
                 true, [&](ctx &x) {
                   using od = fcppt::optional::object<tracked>;
                   opt_t const o{sname(with_short), fo::long_name{FCPPT_TEXT("opt")},
                                 fo::make_default_value(with_default ? od{tracked(42)} : od{}), fo::optional_help_text{}};
                   x.arm();
                   auto r = fo::parse(o, fcppt::args_vector{form ? FCPPT_TEXT("-f") : FCPPT_TEXT("--opt"), FCPPT_TEXT("5")});
                   x.disarm();
                   VRT_CHECK(r.has_success(), x.op() + ":parse", "parse failed");
                   if (r.has_success())
                     expect_fresh(x, items_of(r.get_success_unsafe()), {5});
                 });
    }
}

// ---------------------------------------------------------------- many / product / optional
void many_all()
{
  for (int n : sizes())
  {
    run_case("options::many(option)::parse", "occurrences=" + std::to_string(n), n > 0, [&](ctx &x) {
      using opt_t = fo::option<l1, tracked>;
      x.arm(); // the constructors run armed too: many(Parser&&) must move the parser in
      auto const p = fo::make_many(opt_t{fo::optional_short_name{}, fo::long_name{FCPPT_TEXT("opt")}, fo::no_default_value<tracked>(),
                                         fo::optional_help_text{}});
      fcppt::args_vector args;
      std::vector<int> payloads;
      for (int i = 0; i < n; ++i)
      {
        args.push_back(FCPPT_TEXT("--opt"));
        args.push_back(std::to_string(i + 1));
        payloads.push_back(i + 1);
      }
      auto r = fo::parse(p, args);
      x.disarm();
      VRT_CHECK(r.has_success(), x.op() + ":parse", "parse failed");
      if (r.has_success())
        expect_fresh(x, items_of(r.get_success_unsafe()), payloads);
    });
    run_case("options::many(argument)::parse", "arguments=" + std::to_string(n), n > 0, [&](ctx &x) {
      using arg_t = fo::argument<l1, tracked>;
      x.arm();
      auto const p = fo::make_many(arg_t{fo::long_name{FCPPT_TEXT("arg")}, fo::optional_help_text{}});
      fcppt::args_vector args;
      std::vector<int> payloads;
      for (int i = 0; i < n; ++i)
      {
        args.push_back(std::to_string(i + 1));
        payloads.push_back(i + 1);
      }
      auto r = fo::parse(p, args);
      x.disarm();
      VRT_CHECK(r.has_success(), x.op() + ":parse", "parse failed");
      if (r.has_success())
        expect_fresh(x, items_of(r.get_success_unsafe()), payloads);
    });
  }
  // many around an option with a default value: the constructor receives a parser holding a tracked value as an rvalue
  run_case("options::many(ctor)", descr({{"parser", cat::rv}}, "option with default value"), true, [&](ctx &x) {
    using opt_t = fo::option<l1, tracked>;
    using od = fcppt::optional::object<tracked>;
    od d{tracked(42)};
    x.arg("default_value", cat::rv, d);
    opt_t o{fo::optional_short_name{}, fo::long_name{FCPPT_TEXT("opt")}, fo::make_default_value(std::move(d)), fo::optional_help_text{}};
    x.arm();
    fo::many<opt_t> const m{std::move(o)};
    x.disarm();
  });
  for (int which = 0; which < 4; ++which) // which of the two options are given
    run_case("options::apply(option,optional(option))::parse", std::string("given=") + (which & 1 ? "a" : "") + (which & 2 ? "b" : ""), which != 0,
             [&](ctx &x) {
               using opt_a = fo::option<l1, tracked>;
               using opt_b = fo::option<l2, tracked_b>;
               // built before arming: the stored default value is then an element of an lvalue (the const parser)
               auto const p = fo::apply(
                   opt_a{fo::optional_short_name{}, fo::long_name{FCPPT_TEXT("a")}, fo::make_default_value(fcppt::optional::make(tracked(40))),
                         fo::optional_help_text{}},
                   fo::make_optional(
                       opt_b{fo::optional_short_name{}, fo::long_name{FCPPT_TEXT("b")}, fo::no_default_value<tracked_b>(), fo::optional_help_text{}}));
               fcppt::args_vector args;
               if (which & 1)
               {
                 args.push_back(FCPPT_TEXT("--a"));
                 args.push_back(FCPPT_TEXT("1"));
               }
               if (which & 2)
               {
                 args.push_back(FCPPT_TEXT("--b"));
                 args.push_back(FCPPT_TEXT("2"));
               }
               x.arm();
               auto r = fo::parse(p, args);
               x.disarm();
               VRT_CHECK(r.has_success(), x.op() + ":parse", "parse failed");
               if (r.has_success())
               {
                 std::vector<item> got, dflt;
                 std::vector<int> payloads;
                 if (which & 1)
                 {
                   collect(fcppt::record::get<l1>(r.get_success_unsafe()), got);
                   payloads.push_back(1);
                 }
                 else
                   collect(fcppt::record::get<l1>(r.get_success_unsafe()), dflt);
                 collect(fcppt::record::get<l2>(r.get_success_unsafe()), got);
                 if (which & 2)
                   payloads.push_back(2);
                 expect_fresh(x, got, payloads);
                 if (!(which & 1))
                   VRT_CHECK(dflt.size() == 1 && !dflt[0].moved && dflt[0].payload == 40,
                             x.op() + ":result:default_value", "the default value 40 did not arrive");
               }
             });
}
}

namespace c05
{
void register_options_shards()
{
  vrt::shard("options/flag", [] {
    flag_ctor<tracked>();
    flag_ctor<std::string>();
    flag_ctor<int>();
    flush_info();
  });
  vrt::shard("options/option+many", [] {
    option_all();
    many_all();
    flush_info();
  });
}
}

// C20 compile probe (finding F20): fcppt::random::distribution::basic::operator()(rng, param)
// -- "Draws a random number with parameters" -- instantiated for uniform_int<int>.
// Must compile; it is never run.
#include <fcppt/random/distribution/basic.hpp>
#include <fcppt/random/distribution/parameters/uniform_int.hpp>
#include <fcppt/random/generator/minstd_rand.hpp>

using params = fcppt::random::distribution::parameters::uniform_int<int>;
using distribution = fcppt::random::distribution::basic<params>;

int c20_probe_draw_with_param(distribution &_dist, fcppt::random::generator::minstd_rand &_gen, params const &_param)
{
  return _dist(_gen, _param);
}

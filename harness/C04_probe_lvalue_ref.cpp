// C04 compile probes: continuations that take the held value by NON-CONST LVALUE reference on a
// mutable lvalue optional / either / variant ("match ... invoke exactly that continuation" -- with the
// object's own alternative, so a continuation may modify it in place).  Must compile; never run.
#include <fcppt/either/match.hpp>
#include <fcppt/either/object_impl.hpp>
#include <fcppt/optional/maybe.hpp>
#include <fcppt/optional/maybe_void.hpp>
#include <fcppt/optional/object_impl.hpp>
#include <fcppt/variant/apply.hpp>
#include <fcppt/variant/match.hpp>
#include <fcppt/variant/object_impl.hpp>

#include <string>

#if C04_PROBE_KIND == 1
int c04_probe_variant(fcppt::variant::object<int, std::string> &_v)
{
  return fcppt::variant::match(
      _v,
      [](int &_i) {
        ++_i;
        return _i;
      },
      [](std::string &_s) {
        _s += 'x';
        return static_cast<int>(_s.size());
      });
}
int c04_probe_variant_const(fcppt::variant::object<int, std::string> const &_v)
{
  return fcppt::variant::match(
      _v, [](int const &_i) { return _i; }, [](std::string const &_s) { return static_cast<int>(_s.size()); });
}
#elif C04_PROBE_KIND == 2
int c04_probe_optional(fcppt::optional::object<std::string> &_o)
{
  fcppt::optional::maybe_void(_o, [](std::string &_s) { _s += 'x'; });
  return fcppt::optional::maybe(
      _o, [] { return 0; }, [](std::string &_s) { return static_cast<int>(_s.size()); });
}
#elif C04_PROBE_KIND == 3
int c04_probe_either(fcppt::either::object<int, std::string> &_e)
{
  return fcppt::either::match(
      _e,
      [](int &_f) {
        ++_f;
        return _f;
      },
      [](std::string &_s) {
        _s += 'x';
        return static_cast<int>(_s.size());
      });
}
#endif

// C09 -- tree keeps parent/child links consistent under every operation history.
// Engine H: BFS over histories on a forest of real fcppt::container::tree::object<int>
// (two heap-allocated roots + one detached "spare" tree), plain recursive reference model.
//
// Canonical state = rendering (values and shape) of both roots and the spare.  Links are
// not part of the key: they are *checked* in every state, and a state with a wrong link
// is a violation whose successors are not expanded; so every expanded state has correct
// links and its futures are determined by values and shape alone.
#include <hist.hpp>

#include <fcppt/make_cref.hpp>
#include <fcppt/make_ref.hpp>
#include <fcppt/reference_impl.hpp>
#include <fcppt/container/tree/child_position.hpp>
#include <fcppt/container/tree/comparison.hpp>
#include <fcppt/container/tree/depth.hpp>
#include <fcppt/container/tree/level.hpp>
#include <fcppt/container/tree/make_pre_order.hpp>
#include <fcppt/container/tree/make_to_root.hpp>
#include <fcppt/container/tree/map.hpp>
#include <fcppt/container/tree/object.hpp>
#include <fcppt/container/tree/pre_order.hpp>
#include <fcppt/container/tree/to_root.hpp>
#include <fcppt/optional/object.hpp>
#include <fcppt/optional/reference.hpp>

#include <functional>
#include <limits>
#include <string>
#include <memory>
#include <stdexcept>
#include <optional>
#include <vector>

using vrt::hist::op;
using tree = fcppt::container::tree::object<int>;

struct Ref
{
  int v = 0;
  std::vector<Ref> c;
  bool operator==(Ref const &o) const { return v == o.v && c == o.c; }
};

static std::size_t count(Ref const &r)
{
  std::size_t n = 1;
  for (auto const &x : r.c)
    n += count(x);
  return n;
}
static std::size_t rdepth(Ref const &r)
{
  std::size_t d = 0;
  for (auto const &x : r.c)
    d = std::max(d, rdepth(x));
  return d + 1;
}
static void render(Ref const &r, std::string &o)
{
  o += "(" + std::to_string(r.v);
  for (auto const &x : r.c)
    render(x, o);
  o += ")";
}
static void render_real(tree const &t, std::string &o, int fuel = 100000)
{
  o += "(" + std::to_string(t.value());
  if (fuel > 0)
    for (auto const &x : t.children())
      render_real(x, o, fuel - 1);
  o += ")";
}
static void preorder(Ref const &r, std::vector<int> &o)
{
  o.push_back(r.v);
  for (auto const &x : r.c)
    preorder(x, o);
}

static int NODE_CAP = 5;
static constexpr int K = 2;

enum kind
{
  PUSH_BACK_VAL = 1, // a=node b=value
  PUSH_FRONT_VAL,
  INSERT_VAL, // a=node b=pos c=value
  POP_BACK,   // a=node        -> spare
  POP_FRONT,
  RELEASE, // a=node b=pos   -> spare
  ERASE,   // a=node b=pos
  ERASE_RANGE, // a=node b=i c=j
  CLEAR,
  PUSH_BACK_TREE, // a=node, consumes spare
  PUSH_FRONT_TREE,
  INSERT_TREE, // a=node b=pos
  SORT,
  SWAP,      // a,b unrelated nodes
  SWAP_FREE, // a,b
  COPY_CONSTRUCT, // a=node -> spare
  MOVE_CONSTRUCT, // a=node -> spare
  COPY_ASSIGN,    // a <- b (unrelated or equal)
  MOVE_ASSIGN,    // a <- b (unrelated)
  COPY_ASSIGN_FROM_SPARE, // a <- spare
  MOVE_ASSIGN_FROM_SPARE,
  COPY_ASSIGN_TO_SPARE, // spare <- a
  MOVE_ASSIGN_TO_SPARE,
  SET_VALUE, // a=node b=value
  SPARE_SET_VALUE,
  SPARE_PUSH_BACK, // b=value
  SPARE_DROP,
  KIND_END
};

struct located
{
  tree *t = nullptr;
  Ref *r = nullptr;
  tree *parent = nullptr;
  Ref *rparent = nullptr;
  int pos = -1;
  int root = -1;
};

struct tree_sys
{
  std::vector<std::unique_ptr<tree>> roots;
  std::vector<Ref> m;
  std::unique_ptr<tree> spare;
  Ref mspare;

  tree_sys()
  {
    for (int i = 0; i < K; ++i)
    {
      roots.push_back(std::make_unique<tree>(i));
      m.push_back(Ref{i, {}});
    }
  }

  std::size_t total() const
  {
    std::size_t n = spare ? count(mspare) : 0;
    for (auto const &r : m)
      n += count(r);
    return n;
  }

  // pre-order numbering over all roots
  static void number(Ref &r, std::vector<Ref *> &out)
  {
    out.push_back(&r);
    for (auto &x : r.c)
      number(x, out);
  }

  bool find_rec(tree &t, Ref &r, tree *parent, Ref *rparent, int pos, int root, int &counter, int want, located &out)
  {
    if (counter == want)
    {
      out = located{&t, &r, parent, rparent, pos, root};
      return true;
    }
    ++counter;
    auto it = t.begin();
    for (std::size_t i = 0; i < r.c.size(); ++i, ++it)
      if (find_rec(*it, r.c[i], &t, &r, static_cast<int>(i), root, counter, want, out))
        return true;
    return false;
  }
  located locate(int idx)
  {
    located out;
    int counter = 0;
    for (int i = 0; i < K; ++i)
      if (find_rec(*roots[static_cast<std::size_t>(i)], m[static_cast<std::size_t>(i)], nullptr, nullptr, -1, i, counter, idx, out))
        return out;
    vrt::fail("harness:locate", "node index out of range");
    return out;
  }

  // model-side structure queries for enabled()
  struct minfo
  {
    Ref const *r;
    int root;
    std::vector<int> path;
  };
  static void collect(Ref const &r, int root, std::vector<int> &path, std::vector<minfo> &out)
  {
    out.push_back(minfo{&r, root, path});
    for (std::size_t i = 0; i < r.c.size(); ++i)
    {
      path.push_back(static_cast<int>(i));
      collect(r.c[i], root, path, out);
      path.pop_back();
    }
  }
  static bool related(minfo const &a, minfo const &b)
  {
    if (a.root != b.root)
      return false;
    std::size_t n = std::min(a.path.size(), b.path.size());
    for (std::size_t i = 0; i < n; ++i)
      if (a.path[i] != b.path[i])
        return false;
    return true; // one path is a prefix of the other (or equal)
  }

  std::vector<op> enabled() const
  {
    std::vector<op> r;
    std::vector<minfo> nodes;
    for (int i = 0; i < K; ++i)
    {
      std::vector<int> path;
      collect(m[static_cast<std::size_t>(i)], i, path, nodes);
    }
    std::size_t const tot = total();
    std::size_t const spare_n = spare ? count(mspare) : 0;
    bool const room = tot < static_cast<std::size_t>(NODE_CAP);
    for (int n = 0; n < static_cast<int>(nodes.size()); ++n)
    {
      Ref const &nd = *nodes[static_cast<std::size_t>(n)].r;
      int const sz = static_cast<int>(nd.c.size());
      if (room)
      {
        for (int v = 0; v <= 1; ++v)
        {
          r.push_back(op{PUSH_BACK_VAL, n, v, 0, 0});
          r.push_back(op{PUSH_FRONT_VAL, n, v, 0, 0});
        }
        for (int p = 1; p < sz; ++p)
          r.push_back(op{INSERT_VAL, n, p, 1, 0});
      }
      r.push_back(op{POP_BACK, n, 0, 0, 0});
      r.push_back(op{POP_FRONT, n, 0, 0, 0});
      for (int p = 0; p < sz; ++p)
      {
        r.push_back(op{RELEASE, n, p, 0, 0});
        r.push_back(op{ERASE, n, p, 0, 0});
      }
      for (int i = 0; i <= sz; ++i)
        for (int j = i; j <= sz; ++j)
          if (j - i != 1) // single erase covered above
            r.push_back(op{ERASE_RANGE, n, i, j, 0});
      r.push_back(op{CLEAR, n, 0, 0, 0});
      if (spare)
      {
        r.push_back(op{PUSH_BACK_TREE, n, 0, 0, 0});
        r.push_back(op{PUSH_FRONT_TREE, n, 0, 0, 0});
        for (int p = 1; p < sz; ++p)
          r.push_back(op{INSERT_TREE, n, p, 0, 0});
      }
      if (sz >= 2)
        r.push_back(op{SORT, n, 0, 0, 0});
      std::size_t const sub = count(nd);
      // copy construct replaces the spare
      if (tot - spare_n + sub <= static_cast<std::size_t>(NODE_CAP))
        r.push_back(op{COPY_CONSTRUCT, n, 0, 0, 0});
      // moving out of a node leaves the node itself behind as a leaf
      if (tot - spare_n + 1 <= static_cast<std::size_t>(NODE_CAP))
        r.push_back(op{MOVE_CONSTRUCT, n, 0, 0, 0});
      r.push_back(op{SET_VALUE, n, 1 - nd.v, 0, 0});
      r.push_back(op{COPY_ASSIGN, n, n, 0, 0}); // self assignment
      for (int k2 = 0; k2 < static_cast<int>(nodes.size()); ++k2)
      {
        if (k2 == n)
          continue;
        if (related(nodes[static_cast<std::size_t>(n)], nodes[static_cast<std::size_t>(k2)]))
        {
          // assignment *from a strict descendant to its ancestor* is well defined (the source is read
          // before the target's old children die): a = a.front(), a = std::move(a.front().back()) ...
          // The other direction (ancestor into its own descendant) stays a precondition.
          minfo const &tgt = nodes[static_cast<std::size_t>(n)], &src = nodes[static_cast<std::size_t>(k2)];
          if (src.path.size() > tgt.path.size() && tot - count(nd) + count(*src.r) <= static_cast<std::size_t>(NODE_CAP))
          {
            r.push_back(op{COPY_ASSIGN, n, k2, 1, 0});
            r.push_back(op{MOVE_ASSIGN, n, k2, 1, 0});
          }
          continue;
        }
        Ref const &src = *nodes[static_cast<std::size_t>(k2)].r;
        if (n < k2)
        {
          r.push_back(op{SWAP, n, k2, 0, 0});
          r.push_back(op{SWAP_FREE, n, k2, 0, 0});
        }
        // a <- copy of b: a's subtree replaced
        if (tot - sub + count(src) <= static_cast<std::size_t>(NODE_CAP))
          r.push_back(op{COPY_ASSIGN, n, k2, 0, 0});
        r.push_back(op{MOVE_ASSIGN, n, k2, 0, 0});
      }
      if (spare)
      {
        if (tot - sub + spare_n <= static_cast<std::size_t>(NODE_CAP))
          r.push_back(op{COPY_ASSIGN_FROM_SPARE, n, 0, 0, 0});
        r.push_back(op{MOVE_ASSIGN_FROM_SPARE, n, 0, 0, 0});
        if (tot - spare_n + sub <= static_cast<std::size_t>(NODE_CAP))
          r.push_back(op{COPY_ASSIGN_TO_SPARE, n, 0, 0, 0});
        if (tot - spare_n + 1 <= static_cast<std::size_t>(NODE_CAP))
          r.push_back(op{MOVE_ASSIGN_TO_SPARE, n, 0, 0, 0});
      }
    }
    if (spare)
    {
      r.push_back(op{SPARE_SET_VALUE, 0, 1 - mspare.v, 0, 0});
      if (room)
        r.push_back(op{SPARE_PUSH_BACK, 0, 1, 0, 0});
      r.push_back(op{SPARE_DROP, 0, 0, 0, 0});
    }
    return r;
  }

  static std::string show(op const &o)
  {
    static char const *names[] = {"?", "push_back(val)", "push_front(val)", "insert(pos,val)", "pop_back", "pop_front", "release(pos)",
                                  "erase(pos)", "erase(i,j)", "clear", "push_back(move(spare))", "push_front(move(spare))",
                                  "insert(pos,move(spare))", "sort", "a.swap(b)", "swap(a,b)", "spare=tree(node)",
                                  "spare=tree(move(node))", "a=b", "a=move(b)", "a=spare", "a=move(spare)", "spare=a", "spare=move(a)",
                                  "value(v)", "spare.value(v)", "spare.push_back(v)", "drop spare"};
    std::string n = (o.k > 0 && o.k < KIND_END) ? names[o.k] : "?";
    return n + "[n" + std::to_string(o.a) + "," + std::to_string(o.b) + "," + std::to_string(o.c) + "]";
  }

  static tree::iterator nth(tree &t, int p)
  {
    auto it = t.begin();
    std::advance(it, p);
    return it;
  }

  void set_spare(tree &&t, Ref r)
  {
    spare = std::make_unique<tree>(std::move(t));
    mspare = std::move(r);
  }

  void apply(op const &o)
  {
    switch (o.k)
    {
    case SPARE_SET_VALUE:
      spare->value(o.b);
      mspare.v = o.b;
      return;
    case SPARE_PUSH_BACK:
    {
      tree::reference ref = spare->push_back(o.b);
      mspare.c.push_back(Ref{o.b, {}});
      VRT_CHECK(&ref.get() == &spare->children().back(), "tree:push_back:reference", "returned reference is not the new child");
      return;
    }
    case SPARE_DROP:
      spare.reset();
      mspare = Ref{};
      return;
    default:
      break;
    }
    located a = locate(o.a);
    if (!a.t)
      return;
    tree &t = *a.t;
    Ref &r = *a.r;
    switch (o.k)
    {
    case PUSH_BACK_VAL:
    {
      tree::reference ref = (o.b == 0) ? t.push_back(o.b) : t.push_back(int(o.b)); // const& and && overloads
      r.c.push_back(Ref{o.b, {}});
      VRT_CHECK(&ref.get() == &t.children().back(), "tree:push_back:reference", "returned reference is not the new child");
      break;
    }
    case PUSH_FRONT_VAL:
    {
      tree::reference ref = (o.b == 0) ? t.push_front(o.b) : t.push_front(int(o.b));
      r.c.insert(r.c.begin(), Ref{o.b, {}});
      VRT_CHECK(&ref.get() == &t.children().front(), "tree:push_front:reference", "returned reference is not the new child");
      break;
    }
    case INSERT_VAL:
      t.insert(nth(t, o.b), o.c);
      r.c.insert(r.c.begin() + o.b, Ref{o.c, {}});
      break;
    case POP_BACK:
    {
      tree::optional_object res = t.pop_back();
      VRT_CHECK(res.has_value() == !r.c.empty(), "tree:pop_back:presence", "pop_back presence wrong");
      if (res.has_value() && !r.c.empty())
      {
        {
          bool const save = links_ok;
          verify_links(res.get_unsafe(), r.c.back(), nullptr, "pop_back_result");
          links_ok = save && links_ok;
        }
        set_spare(std::move(res.get_unsafe()), r.c.back());
        r.c.pop_back();
      }
      break;
    }
    case POP_FRONT:
    {
      tree::optional_object res = t.pop_front();
      VRT_CHECK(res.has_value() == !r.c.empty(), "tree:pop_front:presence", "pop_front presence wrong");
      if (res.has_value() && !r.c.empty())
      {
        {
          bool const save = links_ok;
          verify_links(res.get_unsafe(), r.c.front(), nullptr, "pop_front_result");
          links_ok = save && links_ok;
        }
        set_spare(std::move(res.get_unsafe()), r.c.front());
        r.c.erase(r.c.begin());
      }
      break;
    }
    case RELEASE:
    {
      tree res = t.release(nth(t, o.b));
      // the returned tree is checked as returned, before any further move could repair its links
      {
        bool const save = links_ok;
        verify_links(res, r.c[static_cast<std::size_t>(o.b)], nullptr, "release_result");
        links_ok = save && links_ok;
      }
      set_spare(std::move(res), r.c[static_cast<std::size_t>(o.b)]);
      r.c.erase(r.c.begin() + o.b);
      break;
    }
    case ERASE:
      t.erase(nth(t, o.b));
      r.c.erase(r.c.begin() + o.b);
      break;
    case ERASE_RANGE:
      t.erase(nth(t, o.b), nth(t, o.c));
      r.c.erase(r.c.begin() + o.b, r.c.begin() + o.c);
      break;
    case CLEAR:
      t.clear();
      r.c.clear();
      break;
    case PUSH_BACK_TREE:
    {
      tree::reference ref = t.push_back(std::move(*spare));
      r.c.push_back(mspare);
      VRT_CHECK(&ref.get() == &t.children().back(), "tree:push_back_tree:reference", "returned reference is not the new child");
      spare.reset();
      mspare = Ref{};
      break;
    }
    case PUSH_FRONT_TREE:
    {
      tree::reference ref = t.push_front(std::move(*spare));
      r.c.insert(r.c.begin(), mspare);
      VRT_CHECK(&ref.get() == &t.children().front(), "tree:push_front_tree:reference", "returned reference is not the new child");
      spare.reset();
      mspare = Ref{};
      break;
    }
    case INSERT_TREE:
      t.insert(nth(t, o.b), std::move(*spare));
      r.c.insert(r.c.begin() + o.b, mspare);
      spare.reset();
      mspare = Ref{};
      break;
    case SORT:
      t.sort();
      std::stable_sort(r.c.begin(), r.c.end(), [](Ref const &x, Ref const &y) { return x.v < y.v; });
      break;
    case SWAP:
    case SWAP_FREE:
    {
      located b = locate(o.b);
      if (o.k == SWAP)
        t.swap(*b.t);
      else
        swap(t, *b.t);
      std::swap(r.v, b.r->v);
      std::swap(r.c, b.r->c);
      break;
    }
    case COPY_CONSTRUCT:
    {
      tree cp(t);
      set_spare(std::move(cp), r);
      break;
    }
    case MOVE_CONSTRUCT:
    {
      tree mv(std::move(t));
      Ref taken = r;
      r.c.clear(); // the source keeps its (int) value and loses its children
      VRT_CHECK(t.empty(), "tree:move_construct:source_children", "moved-from tree still has %zu children", t.size());
      set_spare(std::move(mv), taken);
      break;
    }
    case COPY_ASSIGN:
    {
      located b = locate(o.b);
      t = *b.t;
      if (o.a != o.b)
      {
        Ref copy = *b.r;
        r = copy;
      }
      break;
    }
    case MOVE_ASSIGN:
    {
      located b = locate(o.b);
      t = std::move(*b.t);
      Ref taken = *b.r;
      if (o.c == 1)
      {
        // source was a descendant of the target: it died with the target's old children
        r = taken;
        break;
      }
      b.r->c.clear();
      r = taken;
      VRT_CHECK(b.t->empty(), "tree:move_assign:source_children", "moved-from tree still has %zu children", b.t->size());
      break;
    }
    case COPY_ASSIGN_FROM_SPARE:
      t = *spare;
      r = mspare;
      break;
    case MOVE_ASSIGN_FROM_SPARE:
      t = std::move(*spare);
      r = mspare;
      mspare.c.clear();
      VRT_CHECK(spare->empty(), "tree:move_assign:source_children", "moved-from tree still has %zu children", spare->size());
      break;
    case COPY_ASSIGN_TO_SPARE:
      *spare = t;
      mspare = r;
      break;
    case MOVE_ASSIGN_TO_SPARE:
      *spare = std::move(t);
      mspare = r;
      r.c.clear();
      VRT_CHECK(t.empty(), "tree:move_assign:source_children", "moved-from tree still has %zu children", t.size());
      break;
    case SET_VALUE:
      if (o.b == 0)
        t.value(o.b);
      else
        t.value() = o.b;
      r.v = o.b;
      break;
    default:
      vrt::fail("harness:bad_op", "unknown op");
    }
  }

  // ---- checking -----------------------------------------------------------------
  // links first; traversals only if all links are right (a wrong link can make them loop)
  bool links_ok = true;

  void verify_links(tree &t, Ref const &r, tree *expect_parent, char const *what)
  {
    tree const &ct = t;
    auto p = t.parent();
    auto cp = ct.parent();
    if (expect_parent == nullptr)
    {
      if (p.has_value() || cp.has_value())
      {
        links_ok = false;
        vrt::fail(std::string("tree:link:root_has_parent:") + what, "a root (or detached tree) reports a parent");
      }
    }
    else
    {
      if (!p.has_value() || !cp.has_value())
      {
        links_ok = false;
        vrt::fail(std::string("tree:link:child_without_parent:") + what, "a child reports no parent");
      }
      else if (&p.get_unsafe().get() != expect_parent || &cp.get_unsafe().get() != expect_parent)
      {
        links_ok = false;
        vrt::fail(std::string("tree:link:wrong_parent:") + what, "child.parent() is not the node that lists it");
      }
    }
    if (t.size() != r.c.size())
    {
      links_ok = false;
      vrt::fail(std::string("tree:shape:child_count:") + what, vrt::fmt("node has %zu children, model %zu", t.size(), r.c.size()));
      return;
    }
    VRT_CHECK(t.value() == r.v && ct.value() == r.v, std::string("tree:value:") + what, "value %d, model %d", t.value(), r.v);
    VRT_CHECK(t.empty() == r.c.empty(), std::string("tree:empty:") + what, "empty() wrong");
    if (!r.c.empty())
    {
      VRT_CHECK(t.front().has_value() && &t.front().get_unsafe().get() == &*t.begin() && t.back().has_value() &&
                    &t.back().get_unsafe().get() == &*std::prev(t.end()) && ct.front().has_value() && ct.back().has_value(),
                std::string("tree:front_back:") + what, "front()/back() wrong");
    }
    else
      VRT_CHECK(!t.front().has_value() && !t.back().has_value(), std::string("tree:front_back_empty:") + what,
                "front()/back() of a leaf have a value");
    auto it = t.begin();
    for (std::size_t i = 0; i < r.c.size(); ++i, ++it)
      verify_links(*it, r.c[i], &t, what);
    // reverse iteration sees the same children
    std::size_t i = r.c.size();
    for (auto rit = t.rbegin(); rit != t.rend(); ++rit)
    {
      --i;
      VRT_CHECK(rit->value() == r.c[i].v, std::string("tree:reverse_iteration:") + what, "reverse iteration differs");
    }
  }

  void verify_traversals(tree &t, Ref const &r, std::vector<int> &path_values, std::size_t lvl, tree *parent, int pos, char const *what)
  {
    path_values.push_back(r.v);
    // to_root from this node: values from here up to the root
    {
      std::vector<int> got;
      int fuel = 64;
      for (tree const &n : fcppt::container::tree::make_to_root(const_cast<tree const &>(t)))
      {
        got.push_back(n.value());
        if (--fuel == 0)
          break;
      }
      std::vector<int> want(path_values.rbegin(), path_values.rend());
      VRT_CHECK(got == want, std::string("tree:to_root:") + what, "to_root sequence differs");
      // positions inside one traversal are distinguishable: two iterators are equal exactly when they are the same
      // number of steps from the start, and only the last increment reaches end(); pre_order likewise
      {
        auto const range = fcppt::container::tree::make_to_root(const_cast<tree const &>(t));
        std::vector<decltype(range.begin())> its;
        int f2 = 64;
        for (auto i = range.begin(); i != range.end() && f2 > 0; ++i, --f2)
          its.push_back(i);
        bool ok = its.size() == want.size();
        for (std::size_t x = 0; x < its.size() && ok; ++x)
        {
          ok = ok && !(its[x] == range.end()) && (its[x] != range.end());
          for (std::size_t y = 0; y < its.size() && ok; ++y)
            ok = ok && ((its[x] == its[y]) == (x == y)) && ((its[x] != its[y]) == (x != y));
        }
        VRT_CHECK(ok, std::string("tree:to_root_iterator_equality:") + what, "iterators at different positions of one to_root traversal compare equal (or equal ones differ)");
      }
      VRT_CHECK(fcppt::container::tree::level(t) == lvl, std::string("tree:level:") + what, "level %zu, model %zu",
                fcppt::container::tree::level(t), lvl);
    }
    if (parent)
    {
      auto cpos = fcppt::container::tree::child_position(*parent, t);
      VRT_CHECK(cpos.has_value() && std::distance(parent->begin(), cpos.get_unsafe()) == pos, std::string("tree:child_position:") + what,
                "child_position wrong");
    }
    auto it = t.begin();
    for (std::size_t i = 0; i < r.c.size(); ++i, ++it)
      verify_traversals(*it, r.c[i], path_values, lvl + 1, &t, static_cast<int>(i), what);
    path_values.pop_back();
  }

  void verify_whole(tree &t, Ref const &r, char const *what)
  {
    verify_links(t, r, nullptr, what);
    if (!links_ok)
      return;
    std::vector<int> pv;
    verify_traversals(t, r, pv, 0, nullptr, -1, what);
    // pre_order
    {
      std::vector<int> want, got, gotc;
      preorder(r, want);
      // fuel only guards against a corrupted (cyclic) structure; it must exceed any legitimate size
      int fuel = 100000;
      for (tree &n : fcppt::container::tree::make_pre_order(t))
      {
        got.push_back(n.value());
        if (--fuel == 0)
          break;
      }
      fuel = 100000;
      for (tree const &n : fcppt::container::tree::make_pre_order(const_cast<tree const &>(t)))
      {
        gotc.push_back(n.value());
        if (--fuel == 0)
          break;
      }
      VRT_CHECK(got == want && gotc == want, std::string("tree:pre_order:") + what, "pre_order sequence differs");
      if (want.size() <= 8)
      {
        auto const range = fcppt::container::tree::make_pre_order(const_cast<tree const &>(t));
        std::vector<decltype(range.begin())> its;
        int f2 = 64;
        for (auto i = range.begin(); i != range.end() && f2 > 0; ++i, --f2)
          its.push_back(i);
        bool ok = its.size() == want.size();
        for (std::size_t x = 0; x < its.size() && ok; ++x)
        {
          ok = ok && !(its[x] == range.end()) && (its[x] != range.end());
          for (std::size_t y = 0; y < its.size() && ok; ++y)
            ok = ok && ((its[x] == its[y]) == (x == y)) && ((its[x] != its[y]) == (x != y));
        }
        VRT_CHECK(ok, std::string("tree:pre_order_iterator_equality:") + what, "iterators at different positions of one pre_order traversal compare equal (or equal ones differ)");
        // multi-pass: the iterators saved above are independent of the one that went on to the end -- walking on from
        // the copy saved at position x yields the rest of the sequence, for every x and in any order of the walks
        for (std::size_t x = its.size(); x-- > 0 && ok;)
        {
          std::vector<int> rest;
          int f3 = 64;
          for (auto i = its[x]; i != range.end() && f3 > 0; ++i, --f3)
            rest.push_back((*i).value());
          ok = rest == std::vector<int>(want.begin() + static_cast<std::ptrdiff_t>(x), want.end());
        }
        VRT_CHECK(ok, std::string("tree:pre_order_multipass:") + what, "walking on from a saved copy of a pre_order iterator does not yield the rest of the traversal");
        if (ok && its.size() >= 2)
        {
          // two copies advanced in lockstep
          auto a = range.begin(), b = range.begin();
          std::vector<int> sa, sb;
          int f4 = 64;
          while (a != range.end() && b != range.end() && f4-- > 0)
          {
            sa.push_back((*a).value());
            sb.push_back((*b).value());
            ++a;
            ++b;
          }
          VRT_CHECK(sa == want && sb == want, std::string("tree:pre_order_multipass:") + what, "two copies of begin() advanced in lockstep do not both yield the traversal");
        }
      }
    }
    VRT_CHECK(fcppt::container::tree::depth(t) == rdepth(r), std::string("tree:depth:") + what, "depth %zu, model %zu",
              fcppt::container::tree::depth(t), rdepth(r));
  }

  static Ref mapped(Ref const &r)
  {
    Ref o{r.v + 10, {}};
    for (auto const &x : r.c)
      o.c.push_back(mapped(x));
    return o;
  }

  void check()
  {
    links_ok = true;
    for (int i = 0; i < K; ++i)
      verify_whole(*roots[static_cast<std::size_t>(i)], m[static_cast<std::size_t>(i)], "root");
    if (spare)
      verify_whole(*spare, mspare, "spare");
    if (!links_ok)
      return;
    // comparison between the roots, against copies, and map
    for (int i = 0; i < K; ++i)
    {
      tree &t = *roots[static_cast<std::size_t>(i)];
      Ref const &r = m[static_cast<std::size_t>(i)];
      for (int j = 0; j < K; ++j)
      {
        bool const eq = r == m[static_cast<std::size_t>(j)];
        VRT_CHECK((t == *roots[static_cast<std::size_t>(j)]) == eq && (t != *roots[static_cast<std::size_t>(j)]) == !eq, "tree:comparison",
                  "operator==/!= disagree with the model");
      }
      {
        // copies are deep and independent: links inside the copy stay inside the copy,
        // mutating the copy leaves the original unchanged
        tree cp(t);
        bool const save = links_ok;
        verify_links(cp, r, nullptr, "copy");
        VRT_CHECK(cp == t, "tree:copy:equal", "copy differs from the original");
        cp.value(r.v + 5);
        if (!cp.empty())
          cp.begin()->value(77);
        cp.push_back(99);
        std::string now;
        render_real(t, now);
        std::string want;
        render(r, want);
        VRT_CHECK(now == want, "tree:copy:independent", "mutating a copy changed the original: %s vs %s", now.c_str(), want.c_str());
        links_ok = save && links_ok;
      }
      {
        tree mp = fcppt::container::tree::map<tree>(t, [](int v) { return v + 10; });
        Ref mr = mapped(r);
        bool const save = links_ok;
        verify_links(mp, mr, nullptr, "map_result");
        links_ok = save && links_ok;
      }
      {
        // map applies the function to the elements of the source tree itself (results that refer to their argument refer
        // into the source), once per node
        using ptree = fcppt::container::tree::object<int const *>;
        int calls = 0;
        ptree const mp = fcppt::container::tree::map<ptree>(const_cast<tree const &>(t), [&calls](int const &v) {
          ++calls;
          return &v;
        });
        std::vector<int const *> got, want;
        for (ptree const &n : fcppt::container::tree::make_pre_order(mp))
          got.push_back(n.value());
        for (tree const &n : fcppt::container::tree::make_pre_order(const_cast<tree const &>(t)))
          want.push_back(&n.value());
        VRT_CHECK(got == want, "tree:map:identity", "map handed the function objects that are not the elements of the source tree");
        if (calls != static_cast<int>(want.size())) // how often the function is called is not documented: recorded, not judged
          vrt::count("info:tree:map:calls_differ_from_node_count");
      }
    }
  }

  std::string canon() const
  {
    std::string o;
    for (auto const &r : m)
    {
      render(r, o);
      o += "|";
    }
    if (spare)
    {
      o += "S";
      render(mspare, o);
    }
    return o;
  }
};

// ---------------------------------------------------------------- scale lattice (engine E)
// The BFS above covers every history inside a node cap of 6-7.  Behaviour that depends on the
// *number of children* (algorithm thresholds in sort, splice, erase ranges) is covered here: wide
// nodes with n children for a boundary lattice of n, several key patterns, a fixed set of scripts.
static int scale_key(int pattern, int i, int n)
{
  switch (pattern)
  {
  case 0: return 0;                 // all equal
  case 1: return i % 2;             // alternating
  case 2: return (n - i) % 3;       // descending modulo 3
  case 3: return i < n / 2 ? 1 : 0; // two blocks, wrong order
  default: return (i * 7) % 5;      // scattered
  }
}

// ---------------------------------------------------------------- every tree shape up to N nodes
// The BFS reaches trees of at most 5-6 nodes per root inside its node cap.  The observation functions (depth, level,
// pre_order, to_root, child_position, map, comparison, copy) are pure functions of one tree, so they are also run on
// EVERY shape with up to 7 (thorough 8) nodes -- parent arrays p[i] < i, children in index order -- with two value
// assignments (all distinct; many equal, so that position is not recoverable from the value), through the same check().
static void build_shape(tree &root, Ref &ref, std::vector<int> const &parent, std::vector<int> const &vals)
{
  std::vector<tree *> nodes{&root};
  std::vector<std::vector<int>> path{{}};
  root.value(vals[0]);
  ref = Ref{vals[0], {}};
  for (std::size_t i = 1; i < parent.size(); ++i)
  {
    tree *par = nodes[static_cast<std::size_t>(parent[i])];
    par->push_back(vals[i]);
    nodes.push_back(&par->back().get_unsafe().get());
    Ref *rp = &ref;
    for (int ix : path[static_cast<std::size_t>(parent[i])])
      rp = &rp->c[static_cast<std::size_t>(ix)];
    rp->c.push_back(Ref{vals[i], {}});
    std::vector<int> pth = path[static_cast<std::size_t>(parent[i])];
    pth.push_back(static_cast<int>(rp->c.size()) - 1);
    path.push_back(pth);
  }
}
static void tree_all_shapes(int max_nodes)
{
  for (int k = 1; k <= max_nodes; ++k)
  {
    std::vector<int> parent(static_cast<std::size_t>(k), 0);
    parent[0] = -1;
    std::function<void(int)> rec = [&](int i) {
      if (i == k)
      {
        for (int pattern = 0; pattern < 2; ++pattern)
        {
          std::string text = "shape";
          for (int q = 0; q < k; ++q)
            text += " " + std::to_string(parent[static_cast<std::size_t>(q)]);
          text += pattern == 0 ? " values distinct" : " values i%2";
          if (!vrt::begin_text("tree_all_shapes", text))
            continue;
          vrt::nontrivial(k >= 6);
          vrt::maybe_sample();
          std::vector<int> vals;
          for (int q = 0; q < k; ++q)
            vals.push_back(pattern == 0 ? q : q % 2);
          tree_sys w;
          build_shape(*w.roots[0], w.m[0], parent, vals);
          // the second root: the same shape with the children order of the root reversed in value (for comparison pairs)
          build_shape(*w.roots[1], w.m[1], parent, vals);
          if (k >= 2)
          {
            w.roots[1]->back().get_unsafe().get().value(77);
            w.m[1].c.back().v = 77;
          }
          w.check();
        }
        return;
      }
      for (int q = 0; q < i; ++q)
      {
        parent[static_cast<std::size_t>(i)] = q;
        rec(i + 1);
      }
    };
    rec(1);
  }
}

static void tree_scale()
{
  int const ns[] = {0, 1, 2, 3, 15, 16, 17, 18, 31, 32, 33, 40, 64, 65};
  for (int n : ns)
    for (int pattern = 0; pattern < 5; ++pattern)
      for (int script = 0; script < 12; ++script)
      {
        if (!vrt::begin("tree_scale", n, pattern, script))
          continue;
        vrt::nontrivial(n > 7);
        vrt::maybe_sample();
        tree_sys w;
        tree &root = *w.roots[0];
        Ref &mr = w.m[0];
        for (int i = 0; i < n; ++i)
        {
          // child i: key by pattern, one grandchild carrying i so that equal keys stay distinguishable
          tree c(scale_key(pattern, i, n));
          c.push_back(100 + i);
          root.push_back(std::move(c));
          mr.c.push_back(Ref{scale_key(pattern, i, n), {Ref{100 + i, {}}}});
        }
        w.check();
        auto by_value = [](Ref const &x, Ref const &y) { return x.v < y.v; };
        auto by_value_desc = [](Ref const &x, Ref const &y) { return x.v > y.v; };
        switch (script)
        {
        case 0: // sort() is stable: equal keys keep their insertion order
          root.sort();
          std::stable_sort(mr.c.begin(), mr.c.end(), by_value);
          break;
        case 1:
          root.sort([](int a, int b) { return a > b; });
          std::stable_sort(mr.c.begin(), mr.c.end(), by_value_desc);
          break;
        case 2: // sort twice with different orders
          root.sort([](int a, int b) { return a > b; });
          root.sort();
          std::stable_sort(mr.c.begin(), mr.c.end(), by_value_desc);
          std::stable_sort(mr.c.begin(), mr.c.end(), by_value);
          break;
        case 3:
          if (n >= 3)
            w.apply(op{ERASE_RANGE, 0, n / 3, 2 * n / 3, 0});
          break;
        case 4:
          if (n >= 1)
          {
            w.apply(op{RELEASE, 0, n / 2, 0, 0});
            w.apply(op{PUSH_FRONT_TREE, 0, 0, 0, 0});
          }
          break;
        case 5:
          w.apply(op{COPY_CONSTRUCT, 0, 0, 0, 0});
          w.apply(op{SPARE_SET_VALUE, 0, 9, 0, 0});
          break;
        case 6:
          w.apply(op{MOVE_CONSTRUCT, 0, 0, 0, 0});
          w.apply(op{MOVE_ASSIGN_FROM_SPARE, 0, 0, 0, 0});
          break;
        case 7: // swap the wide root with the other (leaf) root, then sort over there
          w.apply(op{SWAP, 0, static_cast<int>(count(mr)), 0, 0});
          w.roots[1]->sort();
          std::stable_sort(w.m[1].c.begin(), w.m[1].c.end(), by_value);
          break;
        case 8: // copy assignment between the roots
          w.apply(op{COPY_ASSIGN, static_cast<int>(count(mr)), 0, 0, 0});
          w.roots[1]->sort();
          std::stable_sort(w.m[1].c.begin(), w.m[1].c.end(), by_value);
          break;
        case 9:
          for (int i = 0; i < n / 2; ++i)
          {
            w.apply(op{POP_FRONT, 0, 0, 0, 0});
            w.apply(op{POP_BACK, 0, 0, 0, 0});
          }
          break;
        case 10: // insert values in the middle until the node has grown by 3
          for (int i = 0; i < 3; ++i)
            if (n >= 2)
              w.apply(op{INSERT_VAL, 0, n / 2, 1, 0});
          root.sort();
          std::stable_sort(mr.c.begin(), mr.c.end(), by_value);
          break;
        case 11:
          w.apply(op{CLEAR, 0, 0, 0, 0});
          break;
        }
        w.check();
      }
}

// ---------------------------------------------------------------- throwing element type (fault enumeration)
// An element whose copy / assignment / swap throws at the k-th such operation.  After the exception
// every child must still name the node that lists it (basic guarantee for the links).
struct fragile
{
  static inline int countdown = 0; // 0 = never throw
  static void tick()
  {
    if (countdown > 0 && --countdown == 0)
      throw std::runtime_error("fragile");
  }
  int v;
  explicit fragile(int x) : v(x) {}
  fragile(fragile const &o) : v(o.v) { tick(); }
  fragile(fragile &&o) noexcept : v(o.v) {}
  fragile &operator=(fragile const &o)
  {
    tick();
    v = o.v;
    return *this;
  }
  fragile &operator=(fragile &&o)
  {
    tick();
    v = o.v;
    return *this;
  }
  friend void swap(fragile &a, fragile &b)
  {
    tick();
    std::swap(a.v, b.v);
  }
  bool operator<(fragile const &o) const { return v < o.v; }
  bool operator==(fragile const &o) const { return v == o.v; }
};
using ftree = fcppt::container::tree::object<fragile>;

static bool flinks(ftree &t, ftree *expect_parent, std::string &why)
{
  auto p = t.parent();
  if (expect_parent == nullptr ? p.has_value() : (!p.has_value() || &p.get_unsafe().get() != expect_parent))
  {
    why = expect_parent == nullptr ? "a root reports a parent" : "child.parent() is not the node that lists it";
    return false;
  }
  for (ftree &c : t)
    if (!flinks(c, &t, why))
      return false;
  return true;
}

static void tree_exceptions()
{
  char const *names[] = {"a.swap(b)", "swap(a.front(),b.front())", "a=b", "a.front()=b", "a=move(b)", "a.front()=move(b.front())",
                         "a.push_back(T const&)", "a.insert(mid,T const&)", "tree(a)", "a.value(T const&)", "a.sort()", "a.front()=a.back()"};
  for (int script = 0; script < 12; ++script)
    for (int k = 0; k <= 12; ++k)
    {
      if (!vrt::begin_text("tree_exceptions", std::string(names[script]) + " with the " + std::to_string(k) + "-th element copy/assign/swap throwing"))
        continue;
      vrt::nontrivial(k > 0);
      auto a = std::make_unique<ftree>(fragile(1));
      {
        a->push_back(fragile(3));
        ftree c(fragile(2));
        c.push_back(fragile(4));
        a->push_front(std::move(c));
        a->push_back(fragile(2));
      }
      auto b = std::make_unique<ftree>(fragile(5));
      {
        ftree c(fragile(6));
        c.push_back(fragile(7));
        b->push_back(std::move(c));
      }
      fragile const lv(9);
      fragile::countdown = k;
      bool threw = false;
      try
      {
        switch (script)
        {
        case 0: a->swap(*b); break;
        case 1: swap(*a->begin(), *b->begin()); break;
        case 2: *a = *b; break;
        case 3: *a->begin() = *b; break;
        case 4: *a = std::move(*b); break;
        case 5: *a->begin() = std::move(*b->begin()); break;
        case 6: a->push_back(lv); break;
        case 7: a->insert(std::next(a->begin()), lv); break;
        case 8:
        {
          ftree cp(*a);
          std::string why;
          VRT_CHECK(flinks(cp, nullptr, why), "tree_exceptions:link:copy", "%s", why.c_str());
          break;
        }
        case 9: a->value(lv); break;
        case 10: a->sort(); break;
        case 11: *a->begin() = *std::prev(a->end()); break;
        }
      }
      catch (std::runtime_error const &)
      {
        threw = true;
      }
      fragile::countdown = 0;
      vrt::count(threw ? "tree_exceptions:thrown" : "tree_exceptions:completed");
      std::string why;
      VRT_CHECK(flinks(*a, nullptr, why), std::string("tree_exceptions:link:") + names[script], "%s tree a: %s", threw ? "after the exception," : "", why.c_str());
      VRT_CHECK(flinks(*b, nullptr, why), std::string("tree_exceptions:link:") + names[script], "%s tree b: %s", threw ? "after the exception," : "", why.c_str());
      // destroying one tree must not disturb the other (ASan: no link into freed nodes)
      b.reset();
      VRT_CHECK(flinks(*a, nullptr, why), std::string("tree_exceptions:link_after_destroy:") + names[script], "%s", why.c_str());
      int sum = 0;
      for (ftree &n : fcppt::container::tree::make_pre_order(*a))
        sum += n.value().v;
      (void)sum;
      a.reset();
    }
}

// ---------------------------------------------------------------- comparison over other element types
// operator== / != are *defined* through the elements' ==: value equal and children pairwise equal.  With an
// element type whose == is not reflexive (double holding NaN; a type whose "unknown" never equals anything) the
// recursive definition gives t != t, and that is what the reference computes.  All shapes up to 4 nodes x every
// assignment of {1.0, 2.0, NaN} resp. {known 1, known 2, unknown}; every pair of trees, a tree with itself through
// a second name, with its copy, and the children lists of one node with themselves.
struct shape
{
  std::vector<int> parent; // parent[i] < i, parent[0] = -1
};
std::vector<shape> shapes_upto(int n)
{
  std::vector<shape> out;
  for (int k = 1; k <= n; ++k)
  {
    std::vector<int> p(static_cast<std::size_t>(k), 0);
    p[0] = -1;
    std::function<void(int)> rec = [&](int i) {
      if (i == k)
      {
        out.push_back(shape{p});
        return;
      }
      for (int q = 0; q < i; ++q)
      {
        p[static_cast<std::size_t>(i)] = q;
        rec(i + 1);
      }
    };
    rec(1);
  }
  return out;
}
struct maybe_known
{
  int v; // 0 = unknown: never equal to anything, itself included
  friend bool operator==(maybe_known const &a, maybe_known const &b) { return a.v != 0 && a.v == b.v; }
  friend bool operator!=(maybe_known const &a, maybe_known const &b) { return !(a == b); }
};
template <class T> struct refnode
{
  T v;
  std::vector<refnode> c;
};
template <class T> bool ref_eq(refnode<T> const &a, refnode<T> const &b)
{
  if (!(a.v == b.v) || a.c.size() != b.c.size())
    return false;
  for (std::size_t i = 0; i < a.c.size(); ++i)
    if (!ref_eq(a.c[i], b.c[i]))
      return false;
  return true;
}
template <class T> void build(shape const &sh, std::vector<T> const &vals, fcppt::container::tree::object<T> &t, refnode<T> &r)
{
  using tr = fcppt::container::tree::object<T>;
  std::vector<tr *> nodes{&t};
  std::vector<std::vector<int>> path{{}}; // child index path of each node in the reference
  for (std::size_t i = 1; i < sh.parent.size(); ++i)
  {
    tr *par = nodes[static_cast<std::size_t>(sh.parent[i])];
    par->push_back(vals[i]);
    nodes.push_back(&par->back().get_unsafe().get());
    refnode<T> *rp = &r;
    for (int ix : path[static_cast<std::size_t>(sh.parent[i])])
      rp = &rp->c[static_cast<std::size_t>(ix)];
    rp->c.push_back(refnode<T>{vals[i], {}});
    std::vector<int> pth = path[static_cast<std::size_t>(sh.parent[i])];
    pth.push_back(static_cast<int>(rp->c.size()) - 1);
    path.push_back(pth);
  }
}
template <class T> void comparison_family(char const *name, std::vector<T> const &alphabet, int max_nodes, char const *(*show)(T const &))
{
  using tr = fcppt::container::tree::object<T>;
  struct inst
  {
    std::unique_ptr<tr> t;
    refnode<T> r;
    std::string text;
  };
  std::vector<inst> all;
  for (shape const &sh : shapes_upto(max_nodes))
  {
    std::size_t const k = sh.parent.size();
    std::size_t total = 1;
    for (std::size_t i = 0; i < k; ++i)
      total *= alphabet.size();
    for (std::size_t a = 0; a < total; ++a)
    {
      std::vector<T> vals;
      std::size_t x = a;
      std::string text = "shape";
      for (std::size_t i = 0; i < k; ++i)
      {
        vals.push_back(alphabet[x % alphabet.size()]);
        x /= alphabet.size();
        text += " " + std::to_string(sh.parent[i]) + ":" + show(vals.back());
      }
      inst in;
      in.t = std::make_unique<tr>(vals[0]);
      in.r = refnode<T>{vals[0], {}};
      build(sh, vals, *in.t, in.r);
      in.text = text;
      all.push_back(std::move(in));
    }
  }
  std::string const fn = std::string("tree_comparison<") + name + ">";
  for (std::size_t i = 0; i < all.size(); ++i)
  {
    if (!vrt::begin_text(fn.c_str(), fn + " self/copy/children " + all[i].text))
      continue;
    tr const &t = *all[i].t;
    tr const &alias = t;
    bool const self = ref_eq(all[i].r, all[i].r);
    vrt::nontrivial(!self);
    vrt::maybe_sample();
    VRT_CHECK((t == alias) == self && (t != alias) == !self, fn + ":self", "t == t gives %d, the recursive definition %d", int(t == alias), int(self));
    tr const cp(t);
    VRT_CHECK((t == cp) == self && (cp == t) == self && (t != cp) == !self, fn + ":copy", "t == copy(t) gives %d, the recursive definition %d", int(t == cp), int(self));
    bool kids = true;
    for (std::size_t c = 0; c < all[i].r.c.size(); ++c)
      kids = kids && ref_eq(all[i].r.c[c], all[i].r.c[c]);
    VRT_CHECK((t.children() == alias.children()) == kids, fn + ":children_self", "children() == children() gives %d, element-wise %d",
              int(t.children() == alias.children()), int(kids));
  }
  for (std::size_t i = 0; i < all.size(); ++i)
    for (std::size_t j = 0; j < all.size(); ++j)
    {
      if (i == j || !vrt::begin_text(fn.c_str(), fn + " pair " + all[i].text + " / " + all[j].text))
        continue;
      bool const want = ref_eq(all[i].r, all[j].r);
      vrt::nontrivial(want);
      bool const got = *all[i].t == *all[j].t;
      VRT_CHECK(got == want && (*all[i].t != *all[j].t) == !want, fn + ":pair", "== gives %d, the recursive definition %d", int(got), int(want));
    }
}
void tree_comparison_elements()
{
  double const nan = std::numeric_limits<double>::quiet_NaN();
  comparison_family<double>("double", {1.0, 2.0, nan}, 4, [](double const &d) -> char const * { return d != d ? "nan" : d == 1.0 ? "1" : "2"; });
  comparison_family<maybe_known>("maybe_known", {maybe_known{1}, maybe_known{2}, maybe_known{0}}, 4,
                                 [](maybe_known const &m) -> char const * { return m.v == 0 ? "unknown" : m.v == 1 ? "1" : "2"; });
  comparison_family<int>("int", {1, 2}, 4, [](int const &v) -> char const * { return v == 1 ? "1" : "2"; });
}

int main(int argc, char **argv)
{
  vrt::parse_args(argc, argv);
  bool const th = vrt::thorough();
  vrt::shard("tree_forest", [th] {
    NODE_CAP = th ? 7 : 6;
    vrt::hist::limits l;
    l.max_depth = 40;
    vrt::hist::explorer<tree_sys> e("tree_forest", l);
    e.run();
  }, 7200);
  vrt::shard("tree_scale", [] { tree_scale(); });
  vrt::shard("tree_all_shapes", [th] { tree_all_shapes(th ? 8 : 7); });
  vrt::shard("tree_comparison_elements", [] { tree_comparison_elements(); });
  vrt::shard("tree_exceptions", [] { tree_exceptions(); });
  return vrt::run(argc, argv);
}

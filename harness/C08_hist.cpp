// C08, part 5: histories over range objects.  A pos_ref_range (whole grid or sub-range, const and non-const) and a
// pos_range are created ONCE, then one operation of a menu is applied to the grid the range was made from
// (nothing, write cells, swap / copy-assign / move-assign with a grid of every size, resize), and the SAME range
// objects are iterated again.  Oracle: the range denotes positions of *the grid object*: the k-th element carries
// the k-th position of {min <= p < sup} in storage order and value() is the grid's current cell at that position
// (address identity with the grid's storage, current value, writes through the range reach the grid and nothing
// else).  If the operation changed the size, the range is iterated again only when it is empty or its stored
// (min, sup) still lie inside the new size; then additionally "inside the grid's current storage" is reported
// under its own signature.
#include <C08_common.hpp>

#include <fcppt/container/grid/make_pos_range.hpp>
#include <fcppt/container/grid/make_pos_range_start_end.hpp>
#include <fcppt/container/grid/make_pos_ref_crange.hpp>
#include <fcppt/container/grid/make_pos_ref_crange_start_end.hpp>
#include <fcppt/container/grid/make_pos_ref_range.hpp>
#include <fcppt/container/grid/make_pos_ref_range_start_end.hpp>
#include <fcppt/container/grid/min.hpp>
#include <fcppt/container/grid/object.hpp>
#include <fcppt/container/grid/pos_range.hpp>
#include <fcppt/container/grid/pos_ref_range.hpp>
#include <fcppt/container/grid/pos_reference.hpp>
#include <fcppt/container/grid/resize.hpp>
#include <fcppt/container/grid/sup.hpp>

#include <utility>

namespace c08
{
namespace
{
using S = std::size_t;
template <std::size_t N> using igrid = g::object<int, N>;

enum op_kind
{
  op_none,
  op_write,
  op_swap,
  op_copy,
  op_move,
  op_resize,
  op_count
};
char const *const op_names[op_count] = {"none", "write", "swap", "copy_assign", "move_assign", "resize_assign"};

// REFERENCE: cell values of a grid of size sz in storage order
std::vector<int> model_of(std::size_t N, A3 const &sz, int tag)
{
  std::vector<int> r;
  for (A3 const &p : ref_range(N, A3{0, 0, 0}, sz))
    r.push_back(tag + enc(p));
  return r;
}

template <std::size_t N> igrid<N> make_grid(A3 const &sz, int tag)
{
  return igrid<N>(mkdim<S, N>(sz), [tag](typename igrid<N>::pos const &p) { return tag + enc(comps<N>(p, 0)); });
}

// the grid's storage must hold exactly the model
template <std::size_t N>
void check_storage(igrid<N> const &grid, A3 const &sz, std::vector<int> const &model, std::string const &sig)
{
  if (comps<N>(grid.size(), 1) != sz || static_cast<std::size_t>(grid.end() - grid.begin()) != model.size())
  {
    vrt::fail(sig + ":size", "grid has size " + show(N, comps<N>(grid.size(), 1)) + ", want " + show(N, sz));
    return;
  }
  for (std::size_t k = 0; k < model.size(); ++k)
    if (*(grid.begin() + static_cast<std::ptrdiff_t>(k)) != model[k])
    {
      vrt::fail(sig, vrt::fmt("storage[%zu] = %d, want %d", k, *(grid.begin() + static_cast<std::ptrdiff_t>(k)), model[k]));
      return;
    }
}

// iterate a pos_ref range over `grid` (current size cur, current contents model)
template <std::size_t N, class Range, class Grid>
bool check_ref(Range const &r, Grid &grid, A3 const &cur, std::vector<int> const &model, std::vector<A3> const &ref,
               std::string const &sig)
{
  std::size_t k = 0;
  bool bad_pos = false, bad_cell = false, bad_value = false, bad_storage = false;
  std::size_t const content = model.size();
  auto const e = r.end();
  for (auto it = r.begin(); it != e; ++it)
  {
    if (k >= ref.size())
    {
      vrt::fail(sig + ":overrun", vrt::fmt("more than the %zu expected elements are visited", ref.size()));
      return false;
    }
    auto const element = *it;
    A3 const got = comps<N>(element.pos(), 0);
    if (got != ref[k] && !bad_pos)
    {
      vrt::fail(sig + ":order", vrt::fmt("visit #%zu is %s, want %s", k, show(N, got).c_str(), show(N, ref[k]).c_str()));
      bad_pos = true;
    }
    std::ptrdiff_t const idx = static_cast<std::ptrdiff_t>(ref_index(N, cur, ref[k]));
    int const *const base = content ? &*grid.begin() : nullptr;
    int const *const ptr = &element.value();
    bool const inside = base != nullptr && ptr >= base && ptr < base + content;
    if (!inside && !bad_storage)
    {
      vrt::fail(sig + ":outside_storage",
                vrt::fmt("visit #%zu (pos %s) refers to memory outside the grid's current storage of %zu cells", k,
                         show(N, got).c_str(), content));
      bad_storage = true;
    }
    if (inside && ptr != base + idx && !bad_cell)
    {
      vrt::fail(sig + ":cell", vrt::fmt("visit #%zu (pos %s) refers to storage[%td] of the grid, want [%td]", k,
                                        show(N, got).c_str(), ptr - base, idx));
      bad_cell = true;
    }
    if (inside && ptr == base + idx && *ptr != model[static_cast<std::size_t>(idx)] && !bad_value)
    {
      vrt::fail(sig + ":value", vrt::fmt("pos %s reads %d, the grid holds %d", show(N, got).c_str(), *ptr,
                                         model[static_cast<std::size_t>(idx)]));
      bad_value = true;
    }
    ++k;
  }
  if (k < ref.size())
  {
    vrt::fail(sig + ":short", vrt::fmt("only %zu of %zu elements visited", k, ref.size()));
    return false;
  }
  VRT_CHECK(static_cast<std::size_t>(r.size()) == ref.size(), sig + ":size", "size() = %llu, expected to visit %zu",
            static_cast<unsigned long long>(r.size()), ref.size());
  return !(bad_pos || bad_cell || bad_storage);
}

template <std::size_t N, class Range> void check_pos(Range const &r, std::vector<A3> const &ref, std::string const &sig)
{
  std::size_t k = 0;
  auto const e = r.end();
  for (auto it = r.begin(); it != e; ++it)
  {
    if (k >= ref.size() || comps<N>(*it, 0) != ref[k])
    {
      vrt::fail(sig, vrt::fmt("visit #%zu wrong or surplus", k));
      return;
    }
    ++k;
  }
  VRT_CHECK(k == ref.size(), sig, "only %zu of %zu positions visited", k, ref.size());
}

template <std::size_t N>
void history_case(std::string const &fn, A3 const &A, bool whole, A3 const &mn_in, A3 const &sp_in, int op, A3 const &B)
{
  using grid_t = igrid<N>;
  using min_t = g::min<S, N>;
  using sup_t = g::sup<S, N>;
  A3 const mn = whole ? A3{0, 0, 0} : mn_in;
  A3 const sp = whole ? A : sp_in;
  bool const same = !(op == op_swap || op == op_copy || op == op_move || op == op_resize) || A == B;
  std::string const opname = std::string(op_names[op]) + (op <= op_write ? "" : (same ? "_same_size" : "_other_size"));
  std::string const sig = fn + ":" + opname;
  std::vector<A3> const ref = ref_range(N, mn, sp);

  grid_t grid = make_grid<N>(A, 0);
  grid_t const &cgrid = grid;
  std::vector<int> model = model_of(N, A, 0);
  grid_t other = make_grid<N>(B, 1000);
  std::vector<int> model_other = model_of(N, B, 1000);
  A3 other_size = B;
  bool other_valid = true;

  min_t const fmin{mkpos<S, N>(mn)};
  sup_t const fsup{mkpos<S, N>(sp)};
  g::pos_ref_range<grid_t> const range =
      whole ? g::make_pos_ref_range(grid) : g::make_pos_ref_range_start_end(grid, fmin, fsup);
  g::pos_ref_range<grid_t const> const crange =
      whole ? g::make_pos_ref_crange(cgrid) : g::make_pos_ref_crange_start_end(cgrid, fmin, fsup);
  g::pos_range<S, N> const prange = whole ? g::make_pos_range(grid.size()) : g::make_pos_range_start_end(fmin, fsup);

  // first use of the range objects
  check_ref<N>(range, grid, A, model, ref, fn + ":fresh");
  check_ref<N>(crange, cgrid, A, model, ref, fn + ":fresh:const");

  A3 cur = A;
  switch (op)
  {
  case op_none:
    break;
  case op_write:
  {
    std::size_t k = 0;
    for (A3 const &p : ref_range(N, A3{0, 0, 0}, A))
    {
      grid.get_unsafe(mkpos<S, N>(p)) = 2000 + enc(p);
      model[k++] = 2000 + enc(p);
    }
    break;
  }
  case op_swap:
    grid.swap(other);
    std::swap(model, model_other);
    other_size = A;
    cur = B;
    break;
  case op_copy:
    grid = other;
    model = model_other;
    cur = B;
    break;
  case op_move:
    grid = std::move(other);
    model = model_other;
    other_valid = false; // moved-from: not inspected
    cur = B;
    break;
  case op_resize:
  {
    grid = g::resize(grid, mkdim<S, N>(B),
                     [](typename grid_t::pos const &p) { return 3000 + enc(comps<N>(p, 0)); });
    std::vector<int> m2;
    for (A3 const &p : ref_range(N, A3{0, 0, 0}, B))
      m2.push_back(ref_in_range(N, A, p) ? enc(p) : 3000 + enc(p));
    model = m2;
    cur = B;
    break;
  }
  default:
    break;
  }
  check_storage<N>(grid, cur, model, sig + ":grid_after_op");

  // precondition of the second use: the positions of the range must be positions of the grid
  bool inside = true;
  for (std::size_t i = 0; i < N; ++i)
    inside = inside && sp[i] <= cur[i];
  if (!ref.empty() && !inside)
  {
    vrt::count("range_history:skipped_range_outside_new_size");
    return;
  }
  vrt::count(same ? "range_history:second_use_same_size" : "range_history:second_use_other_size");

  // second use of the SAME range objects
  bool const ok = check_ref<N>(range, grid, cur, model, ref, sig);
  bool const cok = check_ref<N>(crange, cgrid, cur, model, ref, sig + ":const");
  check_pos<N>(prange, ref, sig + ":pos_range");

  // writes through the range reach the grid (and only the grid); skipped if the range already pointed elsewhere
  if (ok && cok)
  {
    std::size_t k = 0;
    for (auto it = range.begin(); it != range.end() && k < ref.size(); ++it, ++k)
    {
      (*it).value() = -static_cast<int>(k + 1);
      model[static_cast<std::size_t>(ref_index(N, cur, ref[k]))] = -static_cast<int>(k + 1);
    }
    check_storage<N>(grid, cur, model, sig + ":write_through_range");
    // and the const range sees them
    check_ref<N>(crange, cgrid, cur, model, ref, sig + ":const_after_write");
  }
  if (other_valid)
    check_storage<N>(other, other_size, model_other, sig + ":other_grid_changed");
}

template <std::size_t N> void histories(ll max_ext, unsigned part, unsigned nparts)
{
  static std::string const fn = "range_history<" + std::to_string(N) + ">";
  std::vector<A3> const sizes = tuples(N, 0, max_ext, 1);
  unsigned si = 0;
  for (A3 const &A : sizes)
  {
    if (si++ % nparts != part)
      continue;
    // range specifications: the whole grid, then every (min, sup) with components 0..extent
    std::vector<std::pair<A3, A3>> specs;
    for (A3 const &mn : tuples_upto(N, A))
      for (A3 const &sp : tuples_upto(N, A))
        specs.emplace_back(mn, sp);
    for (std::size_t s = 0; s <= specs.size(); ++s)
    {
      if (vrt::out_of_time())
        return;
      bool const whole = s == 0;
      A3 const mn = whole ? A3{0, 0, 0} : specs[s - 1].first;
      A3 const sp = whole ? A : specs[s - 1].second;
      std::string const rdesc = whole ? std::string(" range=whole") : " min=" + show(N, mn) + " sup=" + show(N, sp);
      std::size_t const visited = ref_range(N, mn, sp).size();
      for (int op = 0; op < op_count; ++op)
      {
        bool const binary = op >= op_swap;
        for (A3 const &B : sizes)
        {
          if (!binary && B != A)
            continue;
          if (!vrt::begin_text(fn.c_str(), fn + " size=" + show(N, A) + rdesc + " op=" + op_names[op] +
                                               (binary ? " other_size=" + show(N, B) : std::string())))
            continue;
          // non-trivial: the operation gives the grid other storage or contents and the range visits a cell
          vrt::nontrivial(op != op_none && visited >= 1);
          vrt::maybe_sample();
          if (visited >= 2 && op >= op_swap)
            vrt::sample_now();
          history_case<N>(fn, A, whole, mn, sp, op, B);
        }
      }
    }
  }
}
}

void register_hist_shards()
{
  vrt::shard("range_history1", [] { histories<1>(vrt::quick() ? 4 : 6, 0, 1); });
  for (unsigned p = 0; p < 4; ++p)
    vrt::shard("range_history2/" + std::to_string(p), [p] { histories<2>(vrt::quick() ? 3 : 4, p, 4); });
  for (unsigned p = 0; p < 16; ++p)
    vrt::shard("range_history3/" + std::to_string(p), [p] { histories<3>(vrt::quick() ? 2 : 3, p, 16); });
}
}

// C14_vecdim.hpp -- law groups shared by fcppt::math::vector and fcppt::math::dim
// (component-wise arithmetic, comparison, construction, access, casts), generic in
// the kind K (vec_k / dim_k) and the dimension N.
#pragma once
#include "C14_common.hpp"

#include <fcppt/cast/static_cast_fun.hpp>
#include <fcppt/math/size_constant.hpp>
#include <fcppt/math/dim/arithmetic.hpp>
#include <fcppt/math/dim/at.hpp>
#include <fcppt/math/dim/comparison.hpp>
#include <fcppt/math/dim/contents.hpp>
#include <fcppt/math/dim/fill.hpp>
#include <fcppt/math/dim/init.hpp>
#include <fcppt/math/dim/narrow_cast.hpp>
#include <fcppt/math/dim/null.hpp>
#include <fcppt/math/dim/push_back.hpp>
#include <fcppt/math/dim/structure_cast.hpp>
#include <fcppt/math/dim/to_vector.hpp>
#include <fcppt/math/vector/arithmetic.hpp>
#include <fcppt/math/vector/at.hpp>
#include <fcppt/math/vector/comparison.hpp>
#include <fcppt/math/vector/fill.hpp>
#include <fcppt/math/vector/init.hpp>
#include <fcppt/math/vector/narrow_cast.hpp>
#include <fcppt/math/vector/null.hpp>
#include <fcppt/math/vector/push_back.hpp>
#include <fcppt/math/vector/structure_cast.hpp>
#include <fcppt/math/vector/to_dim.hpp>
#include <fcppt/optional/object_impl.hpp>

namespace c14
{
namespace fv = fcppt::math::vector;
namespace fd = fcppt::math::dim;

struct vec_k
{
  static constexpr char const *name = "vector";
  static constexpr bool is_vector = true;
  template <class T, sz N> using st = fv::static_<T, N>;
  template <class T, sz N, class S> using ob = fv::object<T, N, S>;
  template <class V> static auto null() { return fv::null<V>(); }
  template <class V> static V fill(I k) { return fv::fill<V>(k); }
  template <class V, class F> static V init(F const &f) { return fv::init<V>(f); }
  template <class V> static auto push_back(V const &v, I k) { return fv::push_back(v, k); }
  template <class D, class V> static D narrow(V const &v) { return fv::narrow_cast<D>(v); }
  template <class D, class V> static D scast(V const &v) { return fv::structure_cast<D, fcppt::cast::static_cast_fun>(v); }
  template <class D, class Conv, class V> static D scast_with(V const &v) { return fv::structure_cast<D, Conv>(v); }
  template <sz i, class V> static decltype(auto) at(V &v) { return fv::at<i>(v); }
  template <sz i, class V> static decltype(auto) named(V &v)
  {
    if constexpr (i == 0) return v.x();
    else if constexpr (i == 1) return v.y();
    else if constexpr (i == 2) return v.z();
    else return v.w();
  }
  static constexpr sz named_count = 4;
};
struct dim_k
{
  static constexpr char const *name = "dim";
  static constexpr bool is_vector = false;
  template <class T, sz N> using st = fd::static_<T, N>;
  template <class T, sz N, class S> using ob = fd::object<T, N, S>;
  template <class V> static auto null() { return fd::null<V>(); }
  template <class V> static V fill(I k) { return fd::fill<V>(k); }
  template <class V, class F> static V init(F const &f) { return fd::init<V>(f); }
  template <class V> static auto push_back(V const &v, I k) { return fd::push_back(v, k); }
  template <class D, class V> static D narrow(V const &v) { return fd::narrow_cast<D>(v); }
  template <class D, class V> static D scast(V const &v) { return fd::structure_cast<D, fcppt::cast::static_cast_fun>(v); }
  template <class D, class Conv, class V> static D scast_with(V const &v) { return fd::structure_cast<D, Conv>(v); }
  template <sz i, class V> static decltype(auto) at(V &v) { return fd::at<i>(v); }
  template <sz i, class V> static decltype(auto) named(V &v)
  {
    if constexpr (i == 0) return v.w();
    else if constexpr (i == 1) return v.h();
    else return v.d();
  }
  static constexpr sz named_count = 3;
};

template <class K, sz N> using kst = typename K::template st<I, N>;
template <class K, sz N> using kvw = typename K::template ob<I, N, view_storage<I, N>>;
template <class K, sz N> kvw<K, N> kview(buf<N> const &b) { return kvw<K, N>{view_storage<I, N>(b.p.get())}; }

template <class K, sz N> struct vop
{
  rvec<N> r;
  kst<K, N> s;
  buf<N> b;
  explicit vop(rvec<N> const &a) : r(a), s(mk_sv<kst<K, N>>(a)), b(a) {}
  kvw<K, N> v() const { return kview<K, N>(b); }
};
template <class K, sz N> std::vector<vop<K, N>> make_vops(std::vector<rvec<N>> const &fam)
{
  std::vector<vop<K, N>> o;
  o.reserve(fam.size());
  for (auto const &a : fam)
    o.emplace_back(a);
  return o;
}
template <class K, sz N> std::string kname(char const *group) { return std::string(K::name) + "_" + group + "<" + std::to_string(N) + ">"; }

template <class K, sz N> kst<K, N> construct_from_values(rvec<N> const &a)
{
  return [&]<std::size_t... Is>(std::index_sequence<Is...>) { return kst<K, N>(static_cast<I>(a[Is])...); }
  (std::make_index_sequence<N>{});
}

// one optional result against the reference (nothing iff some divisor is zero)
template <class Opt, sz N> void check_quotient(Opt const &got, rvec<N> const &num, rvec<N> const &den, std::string const &sig)
{
  bool defined = true;
  for (sz i = 0; i < N; ++i)
    defined = defined && den[i] != 0;
  if (!defined)
  {
    if (got.has_value())
      failv(sig + ":zero_divisor", "a zero divisor gave a value: " + show(rdv(got.get_unsafe())));
    return;
  }
  if (!got.has_value())
  {
    failv(sig + ":missing", "non-zero divisors gave nothing");
    return;
  }
  rvec<N> want;
  for (sz i = 0; i < N; ++i)
    want[i] = num[i] / den[i];
  C14_EQ(rdv(got.get_unsafe()), want, sig + ":wrong", "quotient");
}

// ------------------------------------------------------------------ per N: constants and write access
template <class K, sz N> void constants_case(std::vector<long> const &scalars)
{
  static std::string const fn = kname<K, N>("constants");
  if (!vrt::begin_text(fn.c_str(), fn))
    return;
  vrt::nontrivial(true);
  vrt::maybe_sample();
  rvec<N> const zero{};
  C14_EQ(rdv(K::template null<kst<K, N>>()), zero, fn + ":null", "null<static>()");
  C14_EQ(rdv(K::template null<kvw<K, N>>()), zero, fn + ":null:view_type", "null<view type>()");
  for (long k : scalars)
  {
    rvec<N> want;
    want.fill(k);
    C14_EQ(rdv(K::template fill<kst<K, N>>(static_cast<I>(k))), want, fn + ":fill", "fill<static>(k)");
  }
  // writes through every accessor hit exactly the addressed component
  if constexpr (int_writes_ok)
  static_for<N>([&](auto ii) {
    constexpr sz i = decltype(ii)::value;
    rvec<N> want{};
    want[i] = 7;
    {
      kst<K, N> w = mk_sv<kst<K, N>>(zero);
      K::template at<i>(w) = 7;
      C14_EQ(rdv(w), want, fn + ":write:at", "write through at<i>");
    }
    {
      kst<K, N> w = mk_sv<kst<K, N>>(zero);
      w.get_unsafe(i) = 7;
      C14_EQ(rdv(w), want, fn + ":write:get_unsafe", "write through get_unsafe(i)");
    }
    if constexpr (i < K::named_count)
    {
      kst<K, N> w = mk_sv<kst<K, N>>(zero);
      K::template named<i>(w) = 7;
      C14_EQ(rdv(w), want, fn + ":write:named", "write through the named accessor");
    }
    {
      buf<N> tb(zero);
      kvw<K, N> w = kview<K, N>(tb);
      K::template at<i>(w) = 7;
      C14_EQ(tb.read(), want, fn + ":write:at:view", "write through at<i> (view storage)");
    }
  });
}

// ------------------------------------------------------------------ unary
template <class K, sz N> void unary_case(vop<K, N> const &U, std::vector<long> const &scalars)
{
  rvec<N> const &u = U.r;
  kst<K, N> const &s = U.s;
  kvw<K, N> const v = U.v();
  std::string const text = show(u);
  {
    static std::string const fn = kname<K, N>("access");
    if (vrt::begin_text(fn.c_str(), fn + " u=" + text))
    {
      bool distinct = true;
      for (sz i = 0; i < N; ++i)
        for (sz j = i + 1; j < N; ++j)
          distinct = distinct && u[i] != u[j];
      vrt::nontrivial(distinct && N > 1);
      vrt::maybe_sample();
      C14_EQ(rdv(construct_from_values<K, N>(u)), u, fn + ":constructor", "object(values...)");
      C14_EQ(rdv(K::template init<kst<K, N>>([&u](sz i) { return static_cast<I>(u[i]); })), u, fn + ":init", "init (size_type argument)");
      C14_EQ(rdv(K::template init<kst<K, N>>([&u]<sz Index>(fcppt::math::size_constant<Index>) { return static_cast<I>(u[Index]); })), u,
             fn + ":init:constant", "init (size_constant argument)");
      kst<K, N> sm = s;
      static_for<N>([&](auto ii) {
        constexpr sz i = decltype(ii)::value;
        C14_EQ(static_cast<long>(K::template at<i>(s)), u[i], fn + ":at", "at<i>");
        C14_EQ(static_cast<long>(K::template at<i>(sm)), u[i], fn + ":at:mutable", "at<i> (non-const)");
        C14_EQ(static_cast<long>(K::template at<i>(v)), u[i], fn + ":at:view", "at<i> (view storage)");
        if constexpr (i < K::named_count)
        {
          C14_EQ(static_cast<long>(K::template named<i>(s)), u[i], fn + ":named", "named accessor");
          C14_EQ(static_cast<long>(K::template named<i>(sm)), u[i], fn + ":named:mutable", "named accessor (non-const)");
          C14_EQ(static_cast<long>(K::template named<i>(v)), u[i], fn + ":named:view", "named accessor (view storage)");
        }
      });
      for (sz i = 0; i < N; ++i)
      {
        C14_EQ(static_cast<long>(s.get_unsafe(i)), u[i], fn + ":get_unsafe", "get_unsafe(i)");
        C14_EQ(static_cast<long>(v.get_unsafe(i)), u[i], fn + ":get_unsafe:view", "get_unsafe(i) (view storage)");
      }
      // copies between storage types
      C14_EQ(rdv(kst<K, N>(v)), u, fn + ":copy:view_to_static", "static constructed from view");
      {
        buf<N> tb{rvec<N>{}};
        kvw<K, N> t = kview<K, N>(tb);
        t = s;
        C14_EQ(tb.read(), u, fn + ":assign:static_to_view", "view assigned from static");
        kst<K, N> w = mk_sv<kst<K, N>>(rvec<N>{});
        w = v;
        C14_EQ(rdv(w), u, fn + ":assign:view_to_static", "static assigned from view");
      }
      // casts
      using lst = typename K::template st<long, N>;
      C14_EQ(rdv(K::template scast<lst>(s)), u, fn + ":structure_cast", "structure_cast<long>");
      C14_EQ(rdv(K::template scast<lst>(v)), u, fn + ":structure_cast:view", "structure_cast<long> (view storage)");
      C14_EQ(rdv(K::template scast<kst<K, N>>(K::template scast<lst>(s))), u, fn + ":structure_cast:back", "structure_cast back to int");
      {
        // a user-supplied converter is applied to every element, also when source and destination have the same
        // value type (structure_cast<Dest, Conv> = element-wise Conv, as on a plain array)
        rvec<N> un;
        for (sz i = 0; i < N; ++i)
          un.d[i] = 1 - u.d[i];
        C14_EQ(rdv(K::template scast_with<kst<K, N>, c14::one_minus_fun>(s)), un, fn + ":structure_cast:user_converter:same_type", "structure_cast<int, 1-x>");
        C14_EQ(rdv(K::template scast_with<kst<K, N>, c14::one_minus_fun>(v)), un, fn + ":structure_cast:user_converter:same_type:view", "structure_cast<int, 1-x> (view storage)");
        C14_EQ(rdv(K::template scast_with<lst, c14::one_minus_fun>(s)), un, fn + ":structure_cast:user_converter", "structure_cast<long, 1-x>");
      }
      if constexpr (K::is_vector)
      {
        C14_EQ(rdv(fv::to_dim(s)), u, fn + ":to_dim", "to_dim");
        C14_EQ(rdv(fv::to_dim(v)), u, fn + ":to_dim:view", "to_dim (view storage)");
        C14_TRUE(fd::to_vector(fv::to_dim(s)) == s, fn + ":to_dim:round_trip", "to_vector(to_dim(u)) != u");
      }
      else
      {
        C14_EQ(rdv(fd::to_vector(s)), u, fn + ":to_vector", "to_vector");
        C14_EQ(rdv(fd::to_vector(v)), u, fn + ":to_vector:view", "to_vector (view storage)");
      }
      // push_back / narrow_cast
      {
        rvec<N + 1> want;
        for (sz i = 0; i < N; ++i)
          want[i] = u[i];
        want[N] = 7;
        auto const pb = K::push_back(s, 7);
        static_assert(decltype(pb)::static_size::value == N + 1);
        C14_EQ(rdv(pb), want, fn + ":push_back", "push_back(u,7)");
        C14_EQ(rdv(K::push_back(v, 7)), want, fn + ":push_back:view", "push_back(u,7) (view storage)");
        C14_EQ(rdv(K::template narrow<kst<K, N>>(pb)), u, fn + ":narrow_cast:push_back", "narrow_cast(push_back(u,7))");
      }
      if constexpr (N > 1)
      {
        rvec<N - 1> want;
        for (sz i = 0; i + 1 < N; ++i)
          want[i] = u[i];
        C14_EQ(rdv(K::template narrow<kst<K, N - 1>>(s)), want, fn + ":narrow_cast", "narrow_cast<N-1>");
        C14_EQ(rdv(K::template narrow<kst<K, N - 1>>(v)), want, fn + ":narrow_cast:view", "narrow_cast<N-1> (view storage)");
        C14_EQ(rdv(K::template narrow<kst<K, 1>>(s)), rvec<1>{u[0]}, fn + ":narrow_cast:to_1", "narrow_cast<1>");
      }
    }
  }
  {
    static std::string const fn = kname<K, N>("negate");
    if (vrt::begin_text(fn.c_str(), fn + " u=" + text))
    {
      vrt::nontrivial(!rvzero(u));
      rvec<N> const want = rvscal(-1, u);
      C14_EQ(rdv(-s), want, fn + ":wrong", "-u");
      C14_EQ(rdv(-v), want, fn + ":wrong:view", "-u (view storage)");
      C14_EQ(rdv(-(-s)), u, fn + ":involution", "-(-u)");
    }
  }
  {
    static std::string const fn = kname<K, N>("scalar");
    for (long k : scalars)
    {
      if (!vrt::begin_text(fn.c_str(), fn + " k=" + std::to_string(k) + " u=" + text))
        continue;
      vrt::nontrivial(!rvzero(u) && k != 0 && k != 1);
      vrt::maybe_sample();
      I const ki = static_cast<I>(k);
      rvec<N> const want = rvscal(k, u);
      C14_EQ(rdv(s * ki), want, fn + ":right", "u*k");
      C14_EQ(rdv(ki * s), want, fn + ":left", "k*u");
      C14_EQ(rdv(v * ki), want, fn + ":right:view", "u*k (view storage)");
      C14_EQ(rdv(ki * v), want, fn + ":left:view", "k*u (view storage)");
      C14_EQ(rdv(s * static_cast<long>(k)), want, fn + ":right:long_scalar", "u*k (long k)");
      {
        kst<K, N> m = s;
        kst<K, N> &ret = (m *= ki);
        C14_TRUE(&ret == &m, fn + ":compound:return", "operator*= does not return *this");
        C14_EQ(rdv(m), want, fn + ":compound", "u*=k");
        buf<N> tb(u);
        kvw<K, N> t = kview<K, N>(tb);
        t *= ki;
        C14_EQ(tb.read(), want, fn + ":compound:view", "u*=k (view storage)");
      }
      rvec<N> den;
      den.fill(k);
      check_quotient(s / ki, u, den, fn + ":divide");
      check_quotient(v / ki, u, den, fn + ":divide:view");
    }
  }
  {
    // the scalar may alias a component of the object itself: u *= u[j] must use the value u[j] had before
    static std::string const fn = kname<K, N>("scalar_alias");
    for (sz j = 0; j < N; ++j)
    {
      if (!vrt::begin_text(fn.c_str(), fn + " j=" + std::to_string(j) + " u=" + text))
        continue;
      vrt::nontrivial(!rvzero(u) && u[j] != 0 && u[j] != 1);
      rvec<N> const want = rvscal(u[j], u);
      {
        kst<K, N> m = s;
        m *= m.storage()[j];
        C14_EQ(rdv(m), want, fn + ":compound", "u*=u[j]");
        kst<K, N> d = s;
        d *= d.get_unsafe(j);
        C14_EQ(rdv(d), want, fn + ":compound:get_unsafe", "u*=u.get_unsafe(j)");
        C14_EQ(rdv(s * s.storage()[j]), want, fn + ":free", "u*u[j]");
        buf<N> tb(u);
        kvw<K, N> t = kview<K, N>(tb);
        t *= t.get_unsafe(j);
        C14_EQ(tb.read(), want, fn + ":compound:view", "u*=u[j] (view storage)");
      }
    }
  }
  if constexpr (!K::is_vector)
  {
    static std::string const fn = kname<K, N>("contents");
    if (vrt::begin_text(fn.c_str(), fn + " u=" + text))
    {
      long want = 1;
      for (long x : u)
        want *= x;
      vrt::nontrivial(want != 0);
      C14_EQ(static_cast<long>(fd::contents(s)), want, fn + ":wrong", "contents");
      C14_EQ(static_cast<long>(fd::contents(v)), want, fn + ":wrong:view", "contents (view storage)");
    }
  }
}

// ------------------------------------------------------------------ pairs
template <class K, sz N> void pair_case(vop<K, N> const &U, vop<K, N> const &V, std::string const &text)
{
  rvec<N> const &u = U.r, &w = V.r;
  kst<K, N> const &su = U.s, &sw = V.s;
  kvw<K, N> const vu = U.v(), vw = V.v();
  {
    static std::string const fn = kname<K, N>("arithmetic");
    if (vrt::begin_text(fn.c_str(), fn + " " + text))
    {
      vrt::nontrivial(!rvzero(u) && !rvzero(w) && !(u == w));
      vrt::maybe_sample();
      rvec<N> const sum = rvadd(u, w), diff = rvsub(u, w), prod = rvmul(u, w);
      C14_EQ(rdv(su + sw), sum, fn + ":add:static_static", "u+v");
      C14_EQ(rdv(su + vw), sum, fn + ":add:static_view", "u+v");
      C14_EQ(rdv(vu + sw), sum, fn + ":add:view_static", "u+v");
      C14_EQ(rdv(vu + vw), sum, fn + ":add:view_view", "u+v");
      C14_EQ(rdv(su - sw), diff, fn + ":sub:static_static", "u-v");
      C14_EQ(rdv(su - vw), diff, fn + ":sub:static_view", "u-v");
      C14_EQ(rdv(vu - sw), diff, fn + ":sub:view_static", "u-v");
      C14_EQ(rdv(vu - vw), diff, fn + ":sub:view_view", "u-v");
      C14_EQ(rdv(su * sw), prod, fn + ":mul:static_static", "u*v");
      C14_EQ(rdv(su * vw), prod, fn + ":mul:static_view", "u*v");
      C14_EQ(rdv(vu * sw), prod, fn + ":mul:view_static", "u*v");
      C14_EQ(rdv(vu * vw), prod, fn + ":mul:view_view", "u*v");
      check_quotient(su / sw, u, w, fn + ":div:static_static");
      check_quotient(su / vw, u, w, fn + ":div:static_view");
      check_quotient(vu / sw, u, w, fn + ":div:view_static");
      // mixed value types: long (op) int
      {
        using lst = typename K::template st<long, N>;
        lst const lu = mk_sv<lst>(u);
        static_assert(std::is_same_v<decltype(lu + sw), lst>);
        C14_EQ(rdv(lu + sw), sum, fn + ":add:long_int", "u+v (long,int)");
        C14_EQ(rdv(lu - vw), diff, fn + ":sub:long_int", "u-v (long,int)");
        C14_EQ(rdv(su * mk_sv<lst>(w)), prod, fn + ":mul:int_long", "u*v (int,long)");
      }
      // compound assignment
      {
        kst<K, N> m = su;
        kst<K, N> &ret = (m += sw);
        C14_TRUE(&ret == &m, fn + ":compound:return", "operator+= does not return *this");
        C14_EQ(rdv(m), sum, fn + ":add_assign:static_static", "u+=v");
        m -= vw;
        C14_EQ(rdv(m), u, fn + ":sub_assign:static_view", "(u+=v)-=v");
        m -= sw;
        C14_EQ(rdv(m), diff, fn + ":sub_assign:static_static", "u-=v");
        m += vw;
        C14_EQ(rdv(m), u, fn + ":add_assign:static_view", "(u-=v)+=v");
        m *= sw;
        C14_EQ(rdv(m), prod, fn + ":mul_assign:static_static", "u*=v");
        kst<K, N> m2 = su;
        m2 *= vw;
        C14_EQ(rdv(m2), prod, fn + ":mul_assign:static_view", "u*=v");
        buf<N> tb(u);
        kvw<K, N> t = kview<K, N>(tb);
        t += sw;
        C14_EQ(tb.read(), sum, fn + ":add_assign:view_static", "u+=v (view lhs)");
        t -= vw;
        t *= vw;
        C14_EQ(tb.read(), prod, fn + ":mul_assign:view_view", "u*=v (view lhs)");
        t -= sw;
        C14_EQ(tb.read(), rvsub(prod, w), fn + ":sub_assign:view_static", "u-=v (view lhs)");
      }
      // laws
      C14_TRUE(su + sw == sw + su, fn + ":law:add_commutative", "u+v != v+u");
      C14_TRUE(su * sw == sw * su, fn + ":law:mul_commutative", "u*v != v*u");
      C14_TRUE((su + sw) - sw == su, fn + ":law:add_then_sub", "(u+v)-v != u");
      C14_TRUE(su - sw == -(sw - su), fn + ":law:sub_antisymmetric", "u-v != -(v-u)");
    }
  }
  {
    static std::string const fn = kname<K, N>("compare");
    if (vrt::begin_text(fn.c_str(), fn + " " + text))
    {
      int differing = 0;
      for (sz i = 0; i < N; ++i)
        differing += u[i] != w[i];
      vrt::nontrivial(differing <= 1);
      vrt::maybe_sample();
      bool const eq = u == w;
      bool less = false; // lexicographic, first component most significant
      for (sz i = 0; i < N; ++i)
        if (u[i] != w[i])
        {
          less = u[i] < w[i];
          break;
        }
      C14_TRUE((su == sw) == eq, fn + ":eq:static_static", "operator== wrong");
      C14_TRUE((su == vw) == eq, fn + ":eq:static_view", "operator== wrong");
      C14_TRUE((vu == sw) == eq, fn + ":eq:view_static", "operator== wrong");
      C14_TRUE((vu == vw) == eq, fn + ":eq:view_view", "operator== wrong");
      C14_TRUE((su != sw) == !eq, fn + ":ne:static_static", "operator!= wrong");
      C14_TRUE((su != vw) == !eq, fn + ":ne:static_view", "operator!= wrong");
      C14_TRUE((vu != sw) == !eq, fn + ":ne:view_static", "operator!= wrong");
      C14_TRUE((vu != vw) == !eq, fn + ":ne:view_view", "operator!= wrong");
      // the ordering operators only instantiate for equal storage types (see the
      // compile probe C14_probe_less.cpp)
      C14_TRUE((su < sw) == less, fn + ":lt:static_static", "operator< wrong");
      C14_TRUE((vu < vw) == less, fn + ":lt:view_view", "operator< wrong");
      C14_TRUE((su > sw) == (!less && !eq), fn + ":gt:static_static", "operator> wrong");
      C14_TRUE((vu > vw) == (!less && !eq), fn + ":gt:view_view", "operator> wrong");
      C14_TRUE((su <= sw) == (less || eq), fn + ":le:static_static", "operator<= wrong");
      C14_TRUE((vu <= vw) == (less || eq), fn + ":le:view_view", "operator<= wrong");
      C14_TRUE((su >= sw) == !less, fn + ":ge:static_static", "operator>= wrong");
      C14_TRUE((vu >= vw) == !less, fn + ":ge:view_view", "operator>= wrong");
    }
  }
}

template <class K, sz N> void unary_all(std::vector<rvec<N>> const &fam, std::vector<long> const &scalars)
{
  constants_case<K, N>(scalars);
  auto const ops = make_vops<K, N>(fam);
  for (auto const &U : ops)
  {
    if (vrt::out_of_time())
      return;
    unary_case<K, N>(U, scalars);
  }
}
template <class K, sz N, class Extra> void pairs_all(std::vector<rvec<N>> const &fam, unsigned part, unsigned nparts, Extra const &extra)
{
  auto const ops = make_vops<K, N>(fam);
  std::size_t i = 0;
  for (auto const &U : ops)
  {
    if (i++ % nparts != part)
      continue;
    if (vrt::out_of_time())
      return;
    std::string const tu = "u=" + show(U.r) + " v=";
    for (auto const &V : ops)
    {
      std::string const text = tu + show(V.r);
      pair_case<K, N>(U, V, text);
      extra(U, V, text);
    }
  }
}
}

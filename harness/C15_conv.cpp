// C15 -- wide <-> narrow string conversions in the C.UTF-8 locale:
// narrow / narrow_locale / widen / widen_locale / from_std_wstring(_locale) /
// to_std_wstring(_locale) / from_std_string / to_std_string.
//
// Reference: a hand-written UTF-8 encoder (wchar_t is UTF-32 here), itself cross-checked
// against libc's wcrtomb for every code point used (signature harness:utf8_reference).
// Oracle: the conversion of a string of valid characters yields exactly the reference
// encoding / decoding.  A *shorter success* (a proper prefix of the reference) is the
// "silent truncation" the statement forbids and gets its own signature.
#include "C15_common.hpp"

#include <fcppt/from_std_string.hpp>
#include <fcppt/from_std_wstring.hpp>
#include <fcppt/from_std_wstring_locale.hpp>
#include <fcppt/narrow.hpp>
#include <fcppt/narrow_locale.hpp>
#include <fcppt/optional_std_string.hpp>
#include <fcppt/optional_string.hpp>
#include <fcppt/string.hpp>
#include <fcppt/string_conv_locale.hpp>
#include <fcppt/to_std_string.hpp>
#include <fcppt/to_std_wstring.hpp>
#include <fcppt/to_std_wstring_locale.hpp>
#include <fcppt/widen.hpp>
#include <fcppt/widen_locale.hpp>
#include <fcppt/optional/object_impl.hpp>

#include <clocale>
#include <cwchar>
#include <exception>
#include <locale>
#include <memory>
#include <string_view>

namespace
{
using namespace c15;
using cps = std::vector<char32_t>;

std::string utf8(char32_t c)
{
  std::string r;
  if (c < 0x80)
    r += static_cast<char>(c);
  else if (c < 0x800)
  {
    r += static_cast<char>(0xC0 | (c >> 6));
    r += static_cast<char>(0x80 | (c & 0x3F));
  }
  else if (c < 0x10000)
  {
    r += static_cast<char>(0xE0 | (c >> 12));
    r += static_cast<char>(0x80 | ((c >> 6) & 0x3F));
    r += static_cast<char>(0x80 | (c & 0x3F));
  }
  else
  {
    r += static_cast<char>(0xF0 | (c >> 18));
    r += static_cast<char>(0x80 | ((c >> 12) & 0x3F));
    r += static_cast<char>(0x80 | ((c >> 6) & 0x3F));
    r += static_cast<char>(0x80 | (c & 0x3F));
  }
  return r;
}

std::string describe(cps const &s)
{
  std::string r = "[";
  std::size_t i = 0;
  while (i < s.size())
  {
    std::size_t j = i;
    while (j < s.size() && s[j] == s[i])
      ++j;
    if (i)
      r += " ";
    r += (s[i] >= 0x21 && s[i] < 0x7f) ? std::string(1, static_cast<char>(s[i])) : vrt::fmt("U+%04X", static_cast<unsigned>(s[i]));
    if (j - i > 1)
      r += "*" + std::to_string(j - i);
    i = j;
  }
  return r + "]";
}

std::string showw(std::wstring const &w)
{
  std::string r;
  for (wchar_t c : w)
    r += vrt::fmt("%x ", static_cast<unsigned>(c));
  return r;
}

struct env
{
  std::locale loc{"C.UTF-8"};
  env()
  {
    // libc's own conversion (used only to validate the reference encoder)
    if (!std::setlocale(LC_CTYPE, "C.UTF-8"))
      vrt::fail("harness:setlocale", "C.UTF-8 not available");
    if (fcppt::string_conv_locale().name() != "C.UTF-8")
      vrt::fail("harness:environment_locale", "std::locale(\"\") is " + fcppt::string_conv_locale().name());
  }
};

void check_reference(char32_t c, std::string const &enc)
{
  char buf[MB_LEN_MAX];
  std::mbstate_t st{};
  std::size_t const n = std::wcrtomb(buf, static_cast<wchar_t>(c), &st);
  if (n == static_cast<std::size_t>(-1) || std::string(buf, n) != enc)
    vrt::fail("harness:utf8_reference", vrt::fmt("U+%04X: reference encoder disagrees with wcrtomb", static_cast<unsigned>(c)));
}

// classification of an optional<string> result against the reference
void judge_narrow(char const *base, fcppt::optional::object<std::string> const &r, std::string const &want, std::string const &in)
{
  if (!r.has_value())
  {
    vrt::fail(std::string(base) + ":failed", "valid string " + in + " was rejected (nothing)");
    return;
  }
  std::string const &g = r.get_unsafe();
  if (g == want)
    return;
  if (g.size() < want.size() && want.compare(0, g.size(), g) == 0)
    vrt::fail(std::string(base) + ":truncated_success",
              vrt::fmt("%s: success with %zu of %zu bytes [%s] want [%s]", in.c_str(), g.size(), want.size(), hex_bytes(g).c_str(),
                       hex_bytes(want).c_str()));
  else
    vrt::fail(std::string(base) + ":wrong", vrt::fmt("%s: got [%s] want [%s]", in.c_str(), hex_bytes(g).c_str(), hex_bytes(want).c_str()));
}

template <class F> void judge_widen(char const *base, F const &f, std::wstring const &want, std::string const &in)
{
  std::wstring g;
  try
  {
    g = f();
  }
  catch (std::exception const &e)
  {
    vrt::fail(std::string(base) + ":failed", "valid string " + in + " was rejected: " + e.what());
    return;
  }
  if (g == want)
    return;
  if (g.size() < want.size() && want.compare(0, g.size(), g) == 0)
    vrt::fail(std::string(base) + ":truncated_success",
              vrt::fmt("%s: success with %zu of %zu characters", in.c_str(), g.size(), want.size()));
  else
    vrt::fail(std::string(base) + ":wrong", vrt::fmt("%s: got [%s] want [%s]", in.c_str(), showw(g).c_str(), showw(want).c_str()));
}

// all ten conversions on one string.  single != 0: the case is announced with the code
// point as integer argument, otherwise with the textual description.
void conv_case(env const &E, cps const &s, bool single)
{
  std::wstring w;
  std::string u;
  bool multi = false;
  for (char32_t c : s)
  {
    w += static_cast<wchar_t>(c);
    u += utf8(c);
    multi = multi || c >= 0x80;
  }
  std::string const d = describe(s);
  auto begin = [&](char const *fn) {
    bool const go = single ? vrt::begin(fn, static_cast<std::int64_t>(s[0])) : vrt::begin_text(fn, std::string(fn) + d);
    if (go)
    {
      vrt::nontrivial(multi);
      vrt::maybe_sample();
    }
    return go;
  };
  // exact-size heap copies behind the string_view arguments (ASan sees any over-read)
  std::unique_ptr<wchar_t[]> wb(new wchar_t[w.size()]);
  std::copy(w.begin(), w.end(), wb.get());
  std::wstring_view const wv(wb.get(), w.size());
  std::unique_ptr<char[]> ub(new char[u.size()]);
  std::copy(u.begin(), u.end(), ub.get());
  std::string_view const uv(ub.get(), u.size());

  if (begin("narrow_locale"))
    judge_narrow("narrow", fcppt::narrow_locale(wv, E.loc), u, "narrow_locale" + d);
  if (begin("narrow"))
    judge_narrow("narrow", fcppt::narrow(wv), u, "narrow" + d);
  if (begin("from_std_wstring_locale"))
    judge_narrow("from_std_wstring", fcppt::from_std_wstring_locale(wv, E.loc), u, "from_std_wstring_locale" + d);
  if (begin("from_std_wstring"))
    judge_narrow("from_std_wstring", fcppt::from_std_wstring(wv), u, "from_std_wstring" + d);
  if (begin("widen_locale"))
    judge_widen("widen", [&] { return fcppt::widen_locale(uv, E.loc); }, w, "widen_locale" + d);
  if (begin("widen"))
    judge_widen("widen", [&] { return fcppt::widen(uv); }, w, "widen" + d);
  if (begin("to_std_wstring_locale"))
    judge_widen("to_std_wstring", [&] { return fcppt::to_std_wstring_locale(uv, E.loc); }, w, "to_std_wstring_locale" + d);
  if (begin("to_std_wstring"))
    judge_widen("to_std_wstring", [&] { return fcppt::to_std_wstring(uv); }, w, "to_std_wstring" + d);
  // fcppt::string is std::string in this configuration (FCPPT_NARROW_STRING): identity
  if (begin("from_std_string"))
  {
    fcppt::string const g = fcppt::from_std_string(uv);
    VRT_CHECK(g == u, "from_std_string:wrong", "%s: got [%s]", d.c_str(), hex_bytes(g).c_str());
  }
  if (begin("to_std_string"))
    judge_narrow("to_std_string", fcppt::to_std_string(uv), u, "to_std_string" + d);
  // the full cycle wide -> narrow -> wide
  if (begin("widen(narrow)"))
  {
    // a wrong/failed narrow result is reported by the narrow_locale case above, not again here
    fcppt::optional::object<std::string> const n = fcppt::narrow_locale(wv, E.loc);
    if (n.has_value() && n.get_unsafe() == u)
      judge_widen("widen(narrow)", [&] { return fcppt::widen_locale(n.get_unsafe(), E.loc); }, w, "widen_locale(narrow_locale" + d + ")");
  }
}

// the code points of a tier: all scalar values U+0001..U+10FFFF (thorough), every 17th plus
// the boundaries of the UTF-8 length classes and of the surrogate gap (quick)
std::vector<char32_t> scalar_values()
{
  std::vector<char32_t> r;
  if (vrt::thorough())
  {
    for (char32_t c = 1; c <= 0x10FFFF; ++c)
      if (c < 0xD800 || c > 0xDFFF)
        r.push_back(c);
    return r;
  }
  std::set<char32_t> s;
  for (char32_t c = 17; c <= 0x10FFFF; c += 17)
    s.insert(c);
  for (char32_t b : {0x1u, 0x7Fu, 0x80u, 0x7FFu, 0x800u, 0xD7FFu, 0xE000u, 0xFFFFu, 0x10000u, 0x10FFFFu, 0xFFu, 0x100u, 0xFFFDu, 0xFEFFu,
                     0x20ACu, 0xE9u, 0x1F600u})
    for (int d = -2; d <= 2; ++d)
    {
      std::int64_t const c = static_cast<std::int64_t>(b) + d;
      if (c >= 1 && c <= 0x10FFFF)
        s.insert(static_cast<char32_t>(c));
    }
  for (char32_t c : s)
    if (c < 0xD800 || c > 0xDFFF)
      r.push_back(c);
  return r;
}

void singles(unsigned part, unsigned nparts)
{
  env const E;
  std::vector<char32_t> const all = scalar_values();
  for (std::size_t i = part; i < all.size(); i += nparts)
  {
    if ((i & 0xfff) == part && vrt::out_of_time())
      return;
    check_reference(all[i], utf8(all[i]));
    conv_case(E, cps{all[i]}, true);
  }
}

// one representative per UTF-8 length class
constexpr char32_t reps[4] = {U'a', 0xE9, 0x20AC, 0x1F600};

void all_strings(unsigned part, unsigned nparts)
{
  env const E;
  for (char32_t c : reps)
    check_reference(c, utf8(c));
  unsigned const maxlen = vrt::thorough() ? 6 : 4;
  std::size_t idx = 0;
  for (unsigned len = 0; len <= maxlen; ++len)
  {
    std::size_t total = 1;
    for (unsigned i = 0; i < len; ++i)
      total *= 4;
    for (std::size_t code = 0; code < total; ++code)
    {
      if (idx++ % nparts != part)
        continue;
      if (vrt::out_of_time())
        return;
      cps s;
      std::size_t c = code;
      for (unsigned i = 0; i < len; ++i)
      {
        s.push_back(reps[c % 4]);
        c /= 4;
      }
      conv_case(E, s, false);
    }
  }
}

// longer strings that put a multi-byte character at every offset relative to the
// buffer end / the growth steps: a^i X^k a^j and X^n
void long_strings(unsigned part, unsigned nparts)
{
  env const E;
  unsigned const maxpad = vrt::thorough() ? 40 : 10;
  unsigned const maxrun = vrt::thorough() ? 64 : 16;
  std::size_t idx = 0;
  for (char32_t x : reps)
  {
    for (unsigned i = 0; i <= maxpad; ++i)
      for (unsigned j = 0; j <= maxpad; ++j)
        for (unsigned k = 1; k <= 2; ++k)
        {
          if (x == U'a' && (j != 0 || k != 1))
            continue; // a^i a a^j is just a^(i+j+1)
          if (i + j + k <= (vrt::thorough() ? 6u : 4u))
            continue; // already in all_strings
          if (idx++ % nparts != part)
            continue;
          if (vrt::out_of_time())
            return;
          cps s(i, U'a');
          s.insert(s.end(), k, x);
          s.insert(s.end(), j, U'a');
          conv_case(E, s, false);
        }
    if (x != U'a')
      for (unsigned n = 7; n <= maxrun; ++n)
      {
        if (idx++ % nparts != part)
          continue;
        conv_case(E, cps(n, x), false);
      }
  }
  // mixed classes cycling 1,2,3,4 bytes and 4,3,2,1 bytes
  for (unsigned n = 7; n <= maxrun; ++n)
    for (int dir = 0; dir < 2; ++dir)
    {
      if (idx++ % nparts != part)
        continue;
      cps s;
      for (unsigned i = 0; i < n; ++i)
        s.push_back(reps[dir ? 3 - i % 4 : i % 4]);
      conv_case(E, s, false);
    }
}
}

void c15::register_conv()
{
  for (unsigned p = 0; p < 16; ++p)
    vrt::shard("conv_single/" + std::to_string(p), [p] { singles(p, 16); });
  for (unsigned p = 0; p < 4; ++p)
    vrt::shard("conv_strings/" + std::to_string(p), [p] { all_strings(p, 4); });
  for (unsigned p = 0; p < 8; ++p)
    vrt::shard("conv_long/" + std::to_string(p), [p] { long_strings(p, 8); });
}

// C14 -- vector, dim and matrix arithmetic obeys the exact ring and module laws.
// Engine E: exhaustive enumeration of explicit finite operand families over int,
// compared with a plain-array reference (long arithmetic, naive loops, Leibniz
// determinant) and with each other through the algebraic identities.
//
// Translation units: C14.cpp (main, 1x1 and 2x2 matrices), C14_m3.cpp (3x3
// matrices), C14_rect*.cpp (rectangular matrices), C14_m4*.cpp (4x4 matrices, builders),
// C14_vec.cpp (vectors), C14_dim.cpp (dims).  Operands are written and results are read through
// the raw row-major storage; the constructors and accessors are checked separately
// against that storage.  Every operator is exercised with static storage and with a
// pointer view storage (and matrix row views where a vector is expected).
#include "C14_matrix.hpp"

namespace c14
{
namespace
{
// the 256 matrices over {-1,0,1,2}; the quick-tier matrix*vector laws use the 81 over {-1,0,1}
std::vector<rmat<2, 2>> fam2_full() { return all_over<2, 2>({-1, 0, 1, 2}); }
std::vector<rmat<2, 2>> fam2_small() { return all_over<2, 2>({-1, 0, 1}); }

void m1_all()
{
  std::vector<rmat<1, 1>> fam = all_over<1, 1>(range(-3, 3));
  auto const ops = make_ops(fam);
  shape_unary_all<1, 1>(ops, range(-3, 3));
  square_unary_all<1>(ops);
  sum_pairs_all<1, 1>(ops, 0, 1);
  product_pairs_all<1, 1, 1>(ops, ops, 0, 1);
  square_pairs_all<1>(ops, 0, 1);
  ring_triples<1>(ops, 0, 1);
  matvec_all<1, 1>(ops, all_vectors<1>(-3, 3));
}
}

void register_m2()
{
  vrt::shard("m1/all", [] { m1_all(); });
  vrt::shard("m2/unary", [] {
    auto const ops = make_ops(fam2_full());
    shape_unary_all<2, 2>(ops, vrt::thorough() ? range(-9, 9) : range(-2, 3));
    square_unary_all<2>(ops);
  });
  for (unsigned p = 0; p < 8; ++p)
    vrt::shard("m2/pairs/" + std::to_string(p), [p] {
      auto const ops = make_ops(fam2_full());
      sum_pairs_all<2, 2>(ops, p, 8);
      product_pairs_all<2, 2, 2>(ops, ops, p, 8);
      square_pairs_all<2>(ops, p, 8);
    });
  vrt::shard("m2/matvec", [] {
    auto const ops = make_ops(fam2_full());
    matvec_all<2, 2>(ops, vrt::thorough() ? all_vectors<2>(-9, 9) : all_vectors<2>(-2, 2));
  });
  for (unsigned p = 0; p < 4; ++p)
    vrt::shard("m2/matvec_laws/" + std::to_string(p), [p] {
      auto const ops = make_ops(vrt::thorough() ? fam2_full() : fam2_small());
      matvec_laws<2, 2, 2>(ops, ops, all_vectors<2>(-2, 2), p, 4);
    });
  for (unsigned p = 0; p < 32; ++p)
    vrt::shard("m2/triples/" + std::to_string(p), [p] {
      auto const ops = make_ops(fam2_full()); // both tiers: the complete 256^3
      ring_triples<2>(ops, p, 32);
    });
}
}

int main(int argc, char **argv)
{
  c14::register_m2();
  c14::register_m3();
  c14::register_m4();
  c14::register_m4b();
  c14::register_rect();
  c14::register_rect_b();
  c14::register_rect_c();
  c14::register_rect_d();
  c14::register_vec();
  c14::register_dim();
  c14::register_shapes();
  c14::register_scalar();
  c14::register_access();
  c14::register_narrow();
  c14::register_narrow_mixed_a();
  c14::register_narrow_mixed_b();
  c14::register_strided_vec();
  c14::register_strided_vec4();
  c14::register_strided_dim();
  c14::register_strided_mat();
  c14::register_strided_mat3();
  return vrt::run(argc, argv);
}

// C15 -- round trips must not depend on *history* or on the *state of the stream*.
//
// (A) history: before each checked output_to_*string / extract_from_string call an earlier
//     conversion of a user-defined type is performed on the same thread whose operator<< (>>)
//     leaves sticky state behind (hex, oct, showbase, showpos, uppercase, boolalpha, fill,
//     precision, fixed/scientific, failbit/badbit, another locale, a pending width, ...).  The
//     checked conversion must produce the text a fresh std::ostringstream (built by the harness,
//     imbued with the same locale) produces, and reading must give the value back.
// (B) stream state: for vector, dim, matrix (output only), enum and strong_typedef, for every
//     combination of basefield x showbase x uppercase x showpos (x width/fill/adjust, see below):
//     the text written to a stream in that state is "(" e1 "," e2 ... ")" where e_i is what the
//     element's own operator<< writes to a stream in that state, and reading from a stream in the
//     SAME state gives the value back whenever each element on its own round-trips through plain
//     iostreams in that state (negative numbers in hex/oct do not: iostreams behaviour).
//     A non-zero field width is applied by the library to the opening parenthesis only; the text
//     oracle is therefore asserted for width 0 and the round trip for width 8 only with the
//     blank fill character (see PROP assumptions).
#include "C15_common.hpp"

#include <fcppt/extract_from_string.hpp>
#include <fcppt/extract_from_string_locale.hpp>
#include <fcppt/no_init.hpp>
#include <fcppt/output_to_fcppt_string.hpp>
#include <fcppt/output_to_std_string.hpp>
#include <fcppt/output_to_std_string_locale.hpp>
#include <fcppt/output_to_std_wstring.hpp>
#include <fcppt/output_to_std_wstring_locale.hpp>
#include <fcppt/output_to_string.hpp>
#include <fcppt/output_to_string_locale.hpp>
#include <fcppt/strong_typedef.hpp>
#include <fcppt/strong_typedef_input.hpp>
#include <fcppt/strong_typedef_output.hpp>
#include <fcppt/string.hpp>
#include <fcppt/assert/unreachable.hpp>
#include <fcppt/enum/input.hpp>
#include <fcppt/enum/output.hpp>
#include <fcppt/enum/to_string.hpp>
#include <fcppt/enum/to_string_impl_fwd.hpp>
#include <fcppt/math/dim/input.hpp>
#include <fcppt/math/dim/output.hpp>
#include <fcppt/math/dim/static.hpp>
#include <fcppt/math/matrix/output.hpp>
#include <fcppt/math/matrix/row.hpp>
#include <fcppt/math/matrix/static.hpp>
#include <fcppt/math/vector/input.hpp>
#include <fcppt/math/vector/output.hpp>
#include <fcppt/math/vector/static.hpp>
#include <fcppt/optional/object_impl.hpp>

#include <iomanip>
#include <locale>
#include <sstream>
#include <string>
#include <string_view>

// ------------------------------------------------------------------ types with sticky inserters
namespace c15s
{
enum class colour
{
  red,
  green,
  blue,
  fcppt_maximum = blue
};
template <class Ch, class Tr> std::basic_ostream<Ch, Tr> &operator<<(std::basic_ostream<Ch, Tr> &s, colour v)
{
  return fcppt::enum_::output(s, v);
}
template <class Ch, class Tr> std::basic_istream<Ch, Tr> &operator>>(std::basic_istream<Ch, Tr> &s, colour &v)
{
  return fcppt::enum_::input(s, v);
}

template <class Ch> struct group3 : std::numpunct<Ch>
{
  group3() : std::numpunct<Ch>(std::size_t{0}) {}
  Ch do_thousands_sep() const override { return static_cast<Ch>(','); }
  std::string do_grouping() const override { return "\3"; }
};
inline std::locale grouping_locale()
{
  return std::locale(std::locale(std::locale::classic(), new group3<char>), new group3<wchar_t>);
}

constexpr int n_hist = 21;
inline char const *hist_name(int k)
{
  static char const *const n[n_hist] = {"none",       "hex",        "oct",      "showbase",   "showpos",       "hex+uppercase", "boolalpha",
                                        "setfill(*)", "precision2", "fixed",    "scientific", "failbit",       "imbue",         "pending width",
                                        "left",       "internal",   "hex+showbase+uppercase", "badbit", "unitbuf", "showpoint", "oct+showbase"};
  return n[k];
}
// a user-defined type whose inserter leaves state number k on the stream
struct dirty
{
  int k;
};
template <class Ch, class Tr> std::basic_ostream<Ch, Tr> &operator<<(std::basic_ostream<Ch, Tr> &os, dirty const d)
{
  switch (d.k)
  {
  case 0: os << 1; break;
  case 1: os << std::hex << 255; break;
  case 2: os << std::oct << 8; break;
  case 3: os << std::showbase << 1; break;
  case 4: os << std::showpos << 1; break;
  case 5: os << std::hex << std::uppercase << 255; break;
  case 6: os << std::boolalpha << true; break;
  case 7: os << std::setfill(os.widen('*')) << std::setw(6) << 1; break;
  case 8: os << std::setprecision(2) << 3.14159; break;
  case 9: os << std::fixed << 1.5; break;
  case 10: os << std::scientific << 1.5; break;
  case 11:
    os << 1;
    os.setstate(std::ios_base::failbit);
    break;
  case 12:
    os.imbue(grouping_locale());
    os << 1234567;
    break;
  case 13:
    os << 1;
    os.width(8);
    break;
  case 14: os << std::left << 1; break;
  case 15: os << std::internal << std::showpos << 1; break;
  case 16: os << std::hex << std::showbase << std::uppercase << 255; break;
  case 17:
    os << 1;
    os.setstate(std::ios_base::badbit);
    break;
  case 18: os << std::unitbuf << 1; break;
  case 19: os << std::showpoint << 1.0; break;
  case 20: os << std::oct << std::showbase << 8; break;
  default: break;
  }
  return os;
}
// ... and an extractor that leaves state behind
struct dirty_in
{
};
inline int g_in_state = 0; // which state the extractor of dirty_in leaves behind
constexpr int n_hist_in = 8;
template <class Ch, class Tr> std::basic_istream<Ch, Tr> &operator>>(std::basic_istream<Ch, Tr> &is, dirty_in &d)
{
  Ch c{};
  is >> c;
  (void)d;
  switch (g_in_state)
  {
  case 1: is >> std::hex; break;
  case 2: is >> std::oct; break;
  case 3: is >> std::noskipws; break;
  case 4: is >> std::boolalpha; break;
  case 5: is.setstate(std::ios_base::failbit); break;
  case 6: is.width(2); break;
  case 7: is.imbue(grouping_locale()); break;
  default: break;
  }
  return is;
}
}

namespace fcppt::enum_
{
template <> struct to_string_impl<c15s::colour>
{
  static std::string_view get(c15s::colour const v)
  {
    switch (v)
    {
    case c15s::colour::red: return "red";
    case c15s::colour::green: return "green";
    case c15s::colour::blue: return "blue";
    }
    FCPPT_ASSERT_UNREACHABLE;
  }
};
}

namespace
{
using namespace c15;
using c15s::colour;

template <class Ch> std::basic_string<Ch> W(std::string const &s)
{
  std::basic_string<Ch> r;
  for (char c : s)
    r += static_cast<Ch>(static_cast<unsigned char>(c));
  return r;
}
template <class Ch> std::string N(std::basic_string<Ch> const &s)
{
  std::string r;
  for (Ch c : s)
    r += (c >= 0x20 && c < 0x7f) ? static_cast<char>(c) : '?';
  return r;
}

template <class T> std::string vshow(T const &v)
{
  if constexpr (std::is_same_v<T, std::string>)
    return "\"" + v + "\"";
  else if constexpr (std::is_same_v<T, colour>)
    return std::string(fcppt::enum_::to_string(v));
  else if constexpr (std::is_floating_point_v<T>)
    return vrt::fmt("%.17g", static_cast<double>(v));
  else if constexpr (std::is_same_v<T, char>)
    return std::string("'") + v + "'";
  else
    return dec(static_cast<i128>(v));
}
template <class T> std::string oshow(fcppt::optional::object<T> const &r) { return r.has_value() ? vshow(r.get_unsafe()) : "nothing"; }

// the text a fresh stream of the harness writes (independent of any fcppt state)
template <class Ch, class T> std::basic_string<Ch> fresh_text(T const &v, std::locale const &loc)
{
  std::basic_ostringstream<Ch> os;
  os.imbue(loc);
  os << v;
  return os.str();
}

void make_history(int h)
{
  (void)fcppt::output_to_std_string(c15s::dirty{h});
  (void)fcppt::output_to_std_wstring(c15s::dirty{h});
}

// ------------------------------------------------------------ (A) history before output
// The result of a conversion is a function of its arguments: it must not depend on unrelated
// conversions made earlier on the same thread.  The reference text is what THE SAME fcppt
// function returned for the same value before any state-leaving conversion was made in this
// process (no particular format is prescribed), and reading must give the value back.
template <class T> std::string produce_narrow(int variant, T const &v, std::locale const &grp, std::locale const &classic)
{
  switch (variant)
  {
  case 0: return fcppt::output_to_std_string(v);
  case 1: return fcppt::output_to_string<std::string>(v);
  case 2: return fcppt::output_to_fcppt_string(v);
  case 3: return fcppt::output_to_std_string_locale(v, grp);
  default: return fcppt::output_to_string_locale<std::string>(v, classic);
  }
}
template <class T> std::wstring produce_wide(int variant, T const &v, std::locale const &grp)
{
  switch (variant)
  {
  case 5: return fcppt::output_to_std_wstring(v);
  case 6: return fcppt::output_to_string<std::wstring>(v);
  default: return fcppt::output_to_std_wstring_locale(v, grp);
  }
}
template <class T, class Str> fcppt::optional::object<T> read_back(int variant, Str const &s, std::locale const &grp, std::locale const &classic)
{
  switch (variant)
  {
  case 3:
  case 7: return fcppt::extract_from_string_locale<T>(s, grp);
  case 4: return fcppt::extract_from_string_locale<T>(s, classic);
  default: return fcppt::extract_from_string<T>(s);
  }
}

template <class T, bool Wide> void history_values(char const *tname, std::vector<T> const &vals)
{
  static std::string const name = std::string("history_output<") + tname + ">";
  std::locale const classic = std::locale::classic();
  std::locale const grp = c15s::grouping_locale();
  constexpr int nvar = Wide ? 8 : 5;
  // baseline: no state-leaving conversion has happened yet for this value type's first use
  std::vector<std::string> base_n;
  std::vector<std::wstring> base_w;
  for (std::size_t vi = 0; vi < vals.size(); ++vi)
    for (int variant = 0; variant < nvar; ++variant)
    {
      T const &v = vals[vi];
      if (variant < 5)
        base_n.push_back(produce_narrow<T>(variant, v, grp, classic));
      else if constexpr (Wide)
        base_w.push_back(produce_wide<T>(variant, v, grp));
    }
  for (std::size_t vi = 0; vi < vals.size(); ++vi)
    for (int h = 0; h < c15s::n_hist; ++h)
      for (int variant = 0; variant < nvar; ++variant)
      {
        T const &v = vals[vi];
        if (!vrt::begin(name.c_str(), vi, h, variant))
          continue;
        vrt::describe(name + "(" + vshow(v) + ", after " + c15s::hist_name(h) + ", variant " + std::to_string(variant) + ")");
        vrt::nontrivial(h != 0);
        vrt::maybe_sample();
        make_history(h);
        auto judge = [&](auto const &text, auto const &want, fcppt::optional::object<T> const &back) {
          VRT_CHECK(text == want, name + ":text_changed",
                    "%s after a conversion that left '%s': text \"%s\", the same call gave \"%s\" before any such conversion", vshow(v).c_str(),
                    c15s::hist_name(h), N(text).c_str(), N(want).c_str());
          VRT_CHECK(back.has_value() && back.get_unsafe() == v, name + ":roundtrip",
                    "%s after a conversion that left '%s': text \"%s\" reads back as %s", vshow(v).c_str(), c15s::hist_name(h),
                    N(text).c_str(), oshow(back).c_str());
        };
        if (variant < 5)
        {
          std::string const s = produce_narrow<T>(variant, v, grp, classic);
          judge(s, base_n[vi * 5 + static_cast<std::size_t>(variant)], read_back<T>(variant, s, grp, classic));
        }
        else if constexpr (Wide)
        {
          std::wstring const s = produce_wide<T>(variant, v, grp);
          judge(s, base_w[vi * 3 + static_cast<std::size_t>(variant - 5)], read_back<T>(variant, s, grp, classic));
        }
      }
}

// ------------------------------------------------------------ (A') history before extraction
template <class T, bool Wide> void history_extract(char const *tname, std::vector<T> const &vals)
{
  static std::string const name = std::string("history_extract<") + tname + ">";
  std::locale const grp = c15s::grouping_locale();
  std::locale const global;
  for (std::size_t vi = 0; vi < vals.size(); ++vi)
    for (int h = 0; h < c15s::n_hist_in; ++h)
    {
      T const &v = vals[vi];
      if (!vrt::begin(name.c_str(), vi, h))
        continue;
      vrt::describe(name + "(" + vshow(v) + ", after extractor state " + std::to_string(h) + ")");
      vrt::nontrivial(h != 0);
      vrt::maybe_sample();
      auto dirty = [&] {
        c15s::g_in_state = h;
        (void)fcppt::extract_from_string<c15s::dirty_in>(std::string("z"));
        (void)fcppt::extract_from_string<c15s::dirty_in>(std::wstring(L"z"));
        (void)fcppt::extract_from_string_locale<c15s::dirty_in>(std::string("z"), grp);
      };
      dirty();
      {
        std::string const s = fresh_text<char>(v, global);
        fcppt::optional::object<T> const r = fcppt::extract_from_string<T>(s);
        VRT_CHECK(r.has_value() && r.get_unsafe() == v, name + ":roundtrip", "\"%s\" reads as %s", s.c_str(), oshow(r).c_str());
      }
      dirty();
      {
        std::string const s = fresh_text<char>(v, grp);
        fcppt::optional::object<T> const r = fcppt::extract_from_string_locale<T>(s, grp);
        VRT_CHECK(r.has_value() && r.get_unsafe() == v, name + ":roundtrip_locale", "\"%s\" reads as %s", s.c_str(), oshow(r).c_str());
      }
      if constexpr (Wide)
      {
        dirty();
        std::wstring const s = fresh_text<wchar_t>(v, grp);
        fcppt::optional::object<T> const r = fcppt::extract_from_string_locale<T>(s, grp);
        VRT_CHECK(r.has_value() && r.get_unsafe() == v, name + ":wroundtrip_locale", "L\"%s\" reads as %s", N(s).c_str(), oshow(r).c_str());
      }
    }
}

template <class T> std::vector<T> int_values()
{
  std::vector<T> r;
  for (long long x : {0LL, 1LL, 7LL, 8LL, 9LL, 10LL, 15LL, 16LL, 64LL, 100LL, 255LL, 999LL, 1000LL, 4096LL, 32767LL, 65535LL, 123456789LL,
                      4294967295LL, -1LL, -8LL, -10LL, -16LL, -255LL, -1000LL, -32768LL, -123456789LL})
    if (fits<T>(x))
      r.push_back(static_cast<T>(x));
  return r;
}

// ------------------------------------------------------------ (B) stream states
struct fstate
{
  int base; // 0 dec, 1 hex, 2 oct
  bool showbase, upper, showpos;
  int width;  // 0 or 8, applied immediately before the insertion
  char fill;
  int adjust; // 0 right, 1 left, 2 internal
};
std::string sname(fstate const &s)
{
  return std::string(s.base == 0 ? "dec" : s.base == 1 ? "hex" : "oct") + (s.showbase ? " showbase" : "") + (s.upper ? " uppercase" : "") +
         (s.showpos ? " showpos" : "") + (s.width ? vrt::fmt(" width %d fill '%c' %s", s.width, s.fill, s.adjust == 0 ? "right" : s.adjust == 1 ? "left" : "internal") : "");
}
std::vector<fstate> all_states()
{
  std::vector<fstate> r;
  for (int base = 0; base < 3; ++base)
    for (int sb = 0; sb < 2; ++sb)
      for (int up = 0; up < 2; ++up)
        for (int sp = 0; sp < 2; ++sp)
        {
          r.push_back({base, sb != 0, up != 0, sp != 0, 0, ' ', 0});
          for (char fill : {' ', '*'})
            for (int adj = 0; adj < 3; ++adj)
              r.push_back({base, sb != 0, up != 0, sp != 0, 8, fill, adj});
        }
  return r;
}
template <class Ch> void set_state(std::basic_ios<Ch> &s, fstate const &st)
{
  s.setf(st.base == 0 ? std::ios_base::dec : st.base == 1 ? std::ios_base::hex : std::ios_base::oct, std::ios_base::basefield);
  s.setf(st.showbase ? std::ios_base::showbase : std::ios_base::fmtflags{}, std::ios_base::showbase);
  s.setf(st.upper ? std::ios_base::uppercase : std::ios_base::fmtflags{}, std::ios_base::uppercase);
  s.setf(st.showpos ? std::ios_base::showpos : std::ios_base::fmtflags{}, std::ios_base::showpos);
  s.setf(st.adjust == 0 ? std::ios_base::right : st.adjust == 1 ? std::ios_base::left : std::ios_base::internal, std::ios_base::adjustfield);
  s.fill(s.widen(st.fill));
}

// what the element's own inserter writes in this state (width 0), and whether the element on
// its own round-trips through a plain iostream in this state
template <class Ch, class T> std::basic_string<Ch> elem_text(T const &x, fstate const &st)
{
  std::basic_ostringstream<Ch> os;
  set_state(os, st);
  os << x;
  return os.str();
}
template <class Ch, class T> bool elem_roundtrips(T const &x, fstate const &st, bool with_width)
{
  std::basic_stringstream<Ch> ss;
  set_state(ss, st);
  if (with_width && st.width)
    ss.width(st.width);
  ss << x;
  T y{};
  ss >> y;
  return !ss.fail() && y == x;
}

// Obj: the fcppt object; elems: its elements in output order; compose: builds the expected text
template <class Ch, class Obj, class T, bool HasInput, class Make, class Same>
void state_case(std::string const &name, std::vector<T> const &elems, fstate const &st, Make const &make, Same const &same,
                int nesting /* 1: (a,b)  2: ((a,b),(c,d)) rows of 2 */)
{
  using str = std::basic_string<Ch>;
  char const *const chn = sizeof(Ch) == 1 ? "char" : "wchar_t";
  Obj const obj = make(elems);
  bool all_rt = true;
  str want;
  if (nesting == 0)
    want = elem_text<Ch>(elems[0], st);
  else if (nesting == 1)
  {
    want = W<Ch>("(");
    for (std::size_t i = 0; i < elems.size(); ++i)
      want += (i ? W<Ch>(",") : str()) + elem_text<Ch>(elems[i], st);
    want += W<Ch>(")");
  }
  else
  {
    // matrix/output.hpp: "So it'll be the same as if you output the column vectors using the
    // according operator<<": the rows written by the vector inserter in the same state
    want = W<Ch>("(");
    for (std::size_t i = 0; i < elems.size(); i += 2)
    {
      fcppt::math::vector::static_<T, 2> row{fcppt::no_init{}};
      row.get_unsafe(0) = elems[i];
      row.get_unsafe(1) = elems[i + 1];
      want += (i ? W<Ch>(",") : str()) + elem_text<Ch>(row, st);
    }
    want += W<Ch>(")");
  }
  for (T const &x : elems)
    all_rt = all_rt && elem_roundtrips<Ch>(x, st, nesting == 0);
  std::basic_stringstream<Ch> ss;
  set_state(ss, st);
  if (st.width)
    ss.width(st.width);
  ss << obj;
  str const text = ss.str();
  if (st.width == 0)
  {
    if (nesting == 2)
      VRT_CHECK(text == want, name + ":state_text", "%s stream in state [%s]: wrote \"%s\", the rows written as vectors give \"%s\"", chn,
                sname(st).c_str(), N(text).c_str(), N(want).c_str());
    else if (text != want)
      // Whether showbase/showpos/uppercase/hex of the stream apply to the components is not
      // documented ("(a_1,a_2,...) where a_i are the components"); only the round trip in the
      // same state is the property.  Recorded, never a verdict.
      vrt::count("info:state_text_differs_from_element_inserters");
  }
  if constexpr (HasInput)
    if (all_rt && (st.width == 0 || st.fill == ' '))
  {
    Obj back = make(std::vector<T>(elems.size(), T{}));
    ss >> back;
    VRT_CHECK(!ss.fail() && same(back, elems), name + ":state_roundtrip",
              "%s stream in state [%s]: wrote \"%s\", reading it back from the same stream %s", chn, sname(st).c_str(), N(text).c_str(),
              ss.fail() ? "fails" : "gives another value");
  }
}

template <class V, class T> V make_vec(std::vector<T> const &e)
{
  V v{fcppt::no_init{}};
  for (std::size_t i = 0; i < e.size(); ++i)
    v.get_unsafe(i) = e[i];
  return v;
}
template <class V, class T> bool same_vec(V const &v, std::vector<T> const &e)
{
  for (std::size_t i = 0; i < e.size(); ++i)
    if (v.get_unsafe(i) != e[i])
      return false;
  return true;
}

template <class V, class T, unsigned N> void state_vec(char const *kind, char const *tname, std::vector<T> const &alphabet, unsigned part, unsigned nparts)
{
  static std::string const name = std::string("state_") + kind + "<" + tname + "," + std::to_string(N) + ">";
  std::vector<fstate> const states = all_states();
  std::size_t total = 1;
  for (unsigned i = 0; i < N; ++i)
    total *= alphabet.size();
  std::size_t idx = 0;
  for (std::size_t code = 0; code < total; ++code)
  {
    std::vector<T> e;
    std::size_t c = code;
    bool big = false;
    for (unsigned i = 0; i < N; ++i)
    {
      e.push_back(alphabet[c % alphabet.size()]);
      c /= alphabet.size();
      big = big || static_cast<i128>(e.back()) >= 8 || static_cast<i128>(e.back()) < 0;
    }
    for (std::size_t si = 0; si < states.size(); ++si)
    {
      if (idx++ % nparts != part)
        continue;
      if ((idx & 0xfff) == 0 && vrt::out_of_time())
        return;
      fstate const &st = states[si];
      if (!vrt::begin(name.c_str(), code, si))
        continue;
      std::string d = name + "((";
      for (unsigned i = 0; i < N; ++i)
        d += (i ? "," : "") + dec(static_cast<i128>(e[i]));
      vrt::describe(d + "), " + sname(st) + ")");
      vrt::nontrivial(big && (st.base != 0 || st.showpos || st.width != 0));
      vrt::maybe_sample();
      state_case<char, V, T, true>(name, e, st, make_vec<V, T>, same_vec<V, T>, 1);
      state_case<wchar_t, V, T, true>(name, e, st, make_vec<V, T>, same_vec<V, T>, 1);
    }
  }
}

struct st_tag
{
};
using st_int = fcppt::strong_typedef<int, st_tag>;
using st_uns = fcppt::strong_typedef<unsigned, st_tag>;

template <class T> void state_scalars(char const *tname, std::vector<T> const &alphabet)
{
  static std::string const n_st = std::string("state_strong_typedef<") + tname + ">";
  static std::string const n_mx = std::string("state_matrix<") + tname + ",2,2>";
  using ST = fcppt::strong_typedef<T, st_tag>;
  using MX = fcppt::math::matrix::static_<T, 2, 2>;
  std::vector<fstate> const states = all_states();
  for (std::size_t vi = 0; vi < alphabet.size(); ++vi)
    for (std::size_t si = 0; si < states.size(); ++si)
    {
      if (!vrt::begin(n_st.c_str(), static_cast<long long>(alphabet[vi]), si))
        continue;
      vrt::describe(n_st + "(" + dec(static_cast<i128>(alphabet[vi])) + ", " + sname(states[si]) + ")");
      vrt::nontrivial(states[si].base != 0 || states[si].width != 0);
      vrt::maybe_sample();
      auto make = [](std::vector<T> const &e) { return ST(e[0]); };
      auto same = [](ST const &s, std::vector<T> const &e) { return s.get() == e[0]; };
      state_case<char, ST, T, true>(n_st, {alphabet[vi]}, states[si], make, same, 0);
      state_case<wchar_t, ST, T, true>(n_st, {alphabet[vi]}, states[si], make, same, 0);
    }
  // matrices (output only): rows (a,b),(c,d) over all pairs x a rotated pair
  for (std::size_t a = 0; a < alphabet.size(); ++a)
    for (std::size_t b = 0; b < alphabet.size(); ++b)
      for (std::size_t si = 0; si < states.size(); ++si)
      {
        if (states[si].width != 0)
          continue;
        if (!vrt::begin(n_mx.c_str(), a, b, si))
          continue;
        std::vector<T> const e{alphabet[a], alphabet[b], alphabet[(b + 3) % alphabet.size()], alphabet[(a + 5) % alphabet.size()]};
        vrt::describe(n_mx + "(((" + dec(static_cast<i128>(e[0])) + "," + dec(static_cast<i128>(e[1])) + "),(" + dec(static_cast<i128>(e[2])) +
                      "," + dec(static_cast<i128>(e[3])) + ")), " + sname(states[si]) + ")");
        vrt::nontrivial(states[si].base != 0);
        vrt::maybe_sample();
        auto make = [](std::vector<T> const &x) { return MX(fcppt::math::matrix::row(x[0], x[1]), fcppt::math::matrix::row(x[2], x[3])); };
        auto same = [](MX const &, std::vector<T> const &) { return true; };
        state_case<char, MX, T, false>(n_mx, e, states[si], make, same, 2);
        state_case<wchar_t, MX, T, false>(n_mx, e, states[si], make, same, 2);
      }
}

template <class Ch> void state_enum_one(std::string const &name, colour const e, std::string const &nm, fstate const &st)
{
  char const *const chn = sizeof(Ch) == 1 ? "char" : "wchar_t";
  std::basic_stringstream<Ch> ss;
  set_state(ss, st);
  if (st.width)
    ss.width(st.width);
  ss << e;
  std::basic_string<Ch> const text = ss.str();
  // the name is text: no numeric flag may change it
  if (st.width == 0)
    VRT_CHECK(text == W<Ch>(nm), name + ":state_text", "%s stream in state [%s]: wrote \"%s\" for %s", chn, sname(st).c_str(), N(text).c_str(),
              nm.c_str());
  // With a non-zero width and left adjustment the library pads after the FIRST character of the
  // name ("r       ed": the name is written character by character and the width applies to the
  // first one).  Field width is not part of the property statement; this is counted and
  // reported, not asserted.
  if (st.width != 0 && st.adjust == 1)
  {
    if (text.size() > nm.size() && text.compare(0, nm.size(), W<Ch>(nm)) != 0)
      vrt::count("info:enum_output_width_left_pads_inside_name");
    return;
  }
  if (st.width == 0 || st.fill == ' ')
  {
    colour back = e == colour::red ? colour::blue : colour::red;
    ss >> back;
    VRT_CHECK(!ss.fail() && back == e, name + ":state_roundtrip", "%s stream in state [%s]: wrote \"%s\", reading it back from the same stream %s",
              chn, sname(st).c_str(), N(text).c_str(), ss.fail() ? "fails" : "gives another enumerator");
  }
}

void state_enum()
{
  static std::string const name = "state_enum<colour>";
  char const *const names[3] = {"red", "green", "blue"};
  std::vector<fstate> const states = all_states();
  for (int i = 0; i < 3; ++i)
    for (std::size_t si = 0; si < states.size(); ++si)
    {
      if (!vrt::begin(name.c_str(), i, si))
        continue;
      colour const e = static_cast<colour>(i);
      vrt::describe(name + "(" + names[i] + ", " + sname(states[si]) + ")");
      vrt::nontrivial(states[si].base != 0 || states[si].width != 0);
      vrt::maybe_sample();
      state_enum_one<char>(name, e, names[i], states[si]);
      state_enum_one<wchar_t>(name, e, names[i], states[si]);
    }
}
}

void c15::register_state()
{
  vrt::shard("history_int", [] {
    history_values<int, true>("int", int_values<int>());
    history_values<short, true>("short", int_values<short>());
    history_extract<int, true>("int", int_values<int>());
  });
  vrt::shard("history_unsigned", [] {
    history_values<unsigned, true>("unsigned", int_values<unsigned>());
    history_values<unsigned long long, true>("unsigned long long", int_values<unsigned long long>());
    history_extract<unsigned, true>("unsigned", int_values<unsigned>());
  });
  vrt::shard("history_long", [] {
    history_values<long long, true>("long long", int_values<long long>());
    history_extract<long long, true>("long long", int_values<long long>());
  });
  vrt::shard("history_other", [] {
    history_values<double, true>("double", {0.0, 0.5, 3.0, 100.0, 1234.5, -0.125, 1e6, 0.1, 255.0, -1000.25});
    history_values<bool, true>("bool", {false, true});
    history_values<colour, true>("colour", {colour::red, colour::green, colour::blue});
    history_values<std::string, false>("string", {"abc", "ff", "0x10", "1,000"});
    history_values<char, false>("char", {'a', '7', '*'});
    history_extract<double, true>("double", {0.5, 1234.5, -0.125, 1e6});
    history_extract<colour, true>("colour", {colour::red, colour::blue});
    history_extract<std::string, false>("string", {"abc", "ff"});
  });
  namespace fv = fcppt::math::vector;
  namespace fd = fcppt::math::dim;
  static std::vector<int> const sa{0, 7, 8, 9, 10, 15, 16, 255, 4096, -1, -10};
  static std::vector<unsigned> const ua{0, 7, 8, 9, 10, 15, 16, 255, 4096};
  vrt::shard("state_small", [] {
    state_vec<fv::static_<int, 1>, int, 1>("vector", "int", sa, 0, 1);
    state_vec<fd::static_<int, 1>, int, 1>("dim", "int", sa, 0, 1);
    state_vec<fv::static_<unsigned, 1>, unsigned, 1>("vector", "unsigned", ua, 0, 1);
    state_vec<fd::static_<unsigned, 1>, unsigned, 1>("dim", "unsigned", ua, 0, 1);
    state_vec<fv::static_<int, 2>, int, 2>("vector", "int", sa, 0, 1);
    state_vec<fd::static_<int, 2>, int, 2>("dim", "int", sa, 0, 1);
    state_vec<fv::static_<unsigned, 2>, unsigned, 2>("vector", "unsigned", ua, 0, 1);
    state_vec<fd::static_<unsigned, 2>, unsigned, 2>("dim", "unsigned", ua, 0, 1);
  });
  vrt::shard("state_scalar", [] {
    state_scalars<int>("int", sa);
    state_scalars<unsigned>("unsigned", ua);
    state_enum();
  });
  for (unsigned p = 0; p < 4; ++p)
  {
    vrt::shard("state_vector3_int/" + std::to_string(p), [p] { state_vec<fv::static_<int, 3>, int, 3>("vector", "int", sa, p, 4); });
    vrt::shard("state_dim3_int/" + std::to_string(p), [p] { state_vec<fd::static_<int, 3>, int, 3>("dim", "int", sa, p, 4); });
    vrt::shard("state_vector3_unsigned/" + std::to_string(p),
               [p] { state_vec<fv::static_<unsigned, 3>, unsigned, 3>("vector", "unsigned", ua, p, 4); });
    vrt::shard("state_dim3_unsigned/" + std::to_string(p), [p] { state_vec<fd::static_<unsigned, 3>, unsigned, 3>("dim", "unsigned", ua, p, 4); });
  }
}

// C16, part 5: heterogeneous types.  The search value / key / index / delimiter / initial state has a type different
// from the element type (unsigned char / short / int elements against int / long long / double / short / unsigned char
// values, including values that are not representable in the element type: 2.5, 256, 258, 65536, 2^32+5, -1, ...).
// Reference: the obvious loop with the comparison made on the values as given (exact, in long double), i.e. what the
// usual arithmetic conversions give for these types -- never after narrowing the value to the element type.
// Where the documented signature itself converts at the call (remove's const_reference, get_or_insert's key_type,
// split_string's value_type delimiter, at_optional's size_type index) only inputs are used for which converting and
// not converting agree.
#include "C16_common.hpp"
#include "C16_hetero.hpp"

#include <cmath>
#include <limits>
#include <memory>
#include <type_traits>

namespace c16
{
namespace
{
using namespace c16h;

template <class T> char const *tname()
{
  if constexpr (std::is_same_v<T, uchar>)
    return "uchar";
  else if constexpr (std::is_same_v<T, signed char>)
    return "schar";
  else if constexpr (std::is_same_v<T, short>)
    return "short";
  else if constexpr (std::is_same_v<T, unsigned short>)
    return "ushort";
  else if constexpr (std::is_same_v<T, int>)
    return "int";
  else if constexpr (std::is_same_v<T, unsigned>)
    return "unsigned";
  else if constexpr (std::is_same_v<T, llong>)
    return "long long";
  else
    return "double";
}

template <class V> std::string show_val(V v)
{
  if constexpr (std::is_floating_point_v<V>)
    return vrt::fmt("%.17g", static_cast<double>(v));
  else
    return std::to_string(static_cast<long long>(v));
}

// exact comparison of two numbers of any of the types used here
template <class A, class B> bool lt(A a, B b) { return static_cast<long double>(a) < static_cast<long double>(b); }
template <class A, class B> bool eq(A a, B b) { return static_cast<long double>(a) == static_cast<long double>(b); }
template <class E, class V> bool representable(V v)
{
  long double const x = static_cast<long double>(v);
  return x >= static_cast<long double>(std::numeric_limits<E>::min()) &&
         x <= static_cast<long double>(std::numeric_limits<E>::max()) && x == std::floor(x);
}

// element alphabets: they contain the images that the out-of-range values would have after narrowing
template <class E> std::vector<E> alphabet()
{
  if constexpr (std::is_same_v<E, uchar>)
    return {0, 2, 5, 255};
  else
    return {static_cast<E>(-1), 0, 2, 5};
}
constexpr llong two32 = 4294967296LL;
template <class V> std::vector<V> values()
{
  if constexpr (std::is_same_v<V, uchar>)
    return {0, 1, 2, 5, 254, 255};
  else if constexpr (std::is_same_v<V, short>)
    return {-32768, -1, 0, 1, 2, 5, 255, 256, 258, 261, 32767};
  else if constexpr (std::is_same_v<V, int>)
    return {std::numeric_limits<int>::min(), -65536, -65531, -256, -1, 0, 1, 2, 3, 5, 254, 255, 256, 258, 261, 65535, 65536,
            65538, 65541, std::numeric_limits<int>::max()};
  else if constexpr (std::is_same_v<V, llong>)
    return {std::numeric_limits<llong>::min(), -two32, -two32 + 5, -65536, -1, 0, 1, 2, 5, 255, 256, 258, 65535, 65536, 65541,
            two32 - 1, two32, two32 + 2, two32 + 5, two32 + 255, std::numeric_limits<llong>::max()};
  else
    return {-4294967291.0, -1.5, -1.0, -0.5, 0.0, 0.5, 1.0, 2.0, 2.5, 4.999, 5.0, 5.5, 254.5, 255.0, 255.5, 256.0, 258.0,
            65535.0, 65536.0, 65541.0, 4294967295.0, 4294967301.0, 1e15};
}
// initial states of folds: small enough for 3 s + e over <= 5 elements to stay in range
template <class V> std::vector<V> fold_inits()
{
  if constexpr (std::is_same_v<V, uchar>)
    return {0, 5, 255};
  else if constexpr (std::is_same_v<V, short>)
    return {0, 5, -1};
  else if constexpr (std::is_same_v<V, int>)
    return {0, -1, 5, 65536};
  else if constexpr (std::is_same_v<V, llong>)
    return {0, -1, 65536, two32 + 5, -two32 - 5};
  else
    return {0.0, 2.5, -0.5, 65536.0, 4294967301.0};
}

int hetero_len() { return vrt::thorough() ? 5 : 4; }

template <class E> std::vector<std::vector<E>> element_seqs()
{
  std::vector<E> const al = alphabet<E>();
  std::vector<std::vector<E>> r;
  for (seq const &s : all_seqs(static_cast<int>(al.size()), hetero_len()))
  {
    std::vector<E> v;
    for (int i : s)
      v.push_back(al[static_cast<std::size_t>(i)]);
    r.push_back(v);
  }
  return r;
}

// ------------------------------------------------------------------ value next to a range
template <class E, class V, class C> void check_values(char const *cn, bool random_access)
{
  static std::string const sig = std::string(cn) + "<" + tname<E>() + ">," + tname<V>() + ")";
  static std::string const n_eq = "equal_range(" + sig, n_bs = "binary_search(" + sig, n_con = "contains(" + sig,
                           n_fo = "find_opt(" + sig, n_io = "index_of(" + sig, n_by = "find_by_opt(" + sig,
                           n_rm = "remove(" + sig, n_fold = "fold(" + sig, n_fb = "fold_break(" + sig;
  for (std::vector<E> const &elems : element_seqs<E>())
  {
    std::string const es = " " + show_range(elems.begin(), elems.end());
    bool const is_sorted = std::is_sorted(elems.begin(), elems.end());
    long const n = static_cast<long>(elems.size());
    for (V const v : values<V>())
    {
      std::string const descr = es + " value=" + show_val(v);
      bool const exotic = !representable<E>(v);
      long lower = 0, upper = 0, first = -1;
      for (long i = 0; i < n; ++i)
      {
        E const e = elems[static_cast<std::size_t>(i)];
        lower += lt(e, v) ? 1 : 0;
        upper += !lt(v, e) ? 1 : 0;
        if (first < 0 && eq(e, v))
          first = i;
      }
      C c(elems.begin(), elems.end());
      if (is_sorted && vrt::begin_text(n_eq.c_str(), n_eq + descr))
      {
        vrt::nontrivial(exotic && n > 0);
        vrt::maybe_sample();
        std::pair<long, long> const r = call_equal_range(c, v);
        VRT_CHECK(r.first == lower && r.second == upper, n_eq + ":wrong", "got [%ld,%ld) want [%ld,%ld)", r.first, r.second,
                  lower, upper);
      }
      if (is_sorted && vrt::begin_text(n_bs.c_str(), n_bs + descr))
      {
        vrt::nontrivial(exotic && n > 0);
        long const r = call_binary_search(c, v);
        long const want = upper - lower == 1 ? lower : -1;
        VRT_CHECK(r == want, n_bs + ":wrong", "got offset %ld want %ld (-1 = nothing)", r, want);
      }
      if (vrt::begin_text(n_con.c_str(), n_con + descr))
      {
        vrt::nontrivial(exotic && n > 0);
        VRT_CHECK(call_contains(c, v) == (first >= 0), n_con + ":wrong", "want %d", int(first >= 0));
      }
      if (vrt::begin_text(n_fo.c_str(), n_fo + descr))
      {
        vrt::nontrivial(exotic && n > 0);
        vrt::maybe_sample();
        long const r = call_find_opt(c, v);
        VRT_CHECK(r == first, n_fo + ":wrong", "got offset %ld want %ld (-1 = nothing)", r, first);
      }
      if constexpr (std::is_same_v<C, std::vector<E>> || std::is_same_v<C, std::deque<E>>)
      {
        if (random_access && vrt::begin_text(n_io.c_str(), n_io + descr))
        {
          vrt::nontrivial(exotic && n > 0);
          long const r = call_index_of(c, v);
          VRT_CHECK(r == first, n_io + ":wrong", "got %ld want %ld (-1 = nothing)", r, first);
        }
      }
      if (vrt::begin_text(n_by.c_str(), n_by + descr))
      {
        // the callback takes its argument as V (so the element is converted to V by the call) and answers e + v in V:
        // nothing else may be converted on the way
        long first_by = -1;
        for (long i = n; i-- > 0;)
          if (static_cast<V>(elems[static_cast<std::size_t>(i)]) == v)
            first_by = i;
        vrt::nontrivial(first_by >= 0);
        fcppt::optional::object<V> const r = call_find_by_opt(c, v);
        if (first_by < 0)
          VRT_CHECK(!r.has_value(), n_by + ":spurious", "got a value");
        else
        {
          V const want = static_cast<V>(static_cast<V>(elems[static_cast<std::size_t>(first_by)]) + v);
          VRT_CHECK(r.has_value() && r.get_unsafe() == want, n_by + ":wrong", "got %s want %s",
                    r.has_value() ? show_val(r.get_unsafe()).c_str() : "nothing", show_val(want).c_str());
        }
      }
      // remove takes Container::const_reference: the language converts the argument; only representable values
      if (!exotic && vrt::begin_text(n_rm.c_str(), n_rm + descr))
      {
        std::vector<E> want;
        for (E const e : elems)
          if (!eq(e, v))
            want.push_back(e);
        vrt::nontrivial(want.size() < elems.size());
        bool const r = call_remove(c, v);
        std::vector<E> const got(c.begin(), c.end());
        VRT_CHECK(got == want && r == (want.size() < elems.size()), n_rm + ":wrong", "container is %s want %s, returned %d",
                  show_range(got.begin(), got.end()).c_str(), show_range(want.begin(), want.end()).c_str(), int(r));
      }
    }
    // initial state of the other type
    C const c(elems.begin(), elems.end());
    for (V const init : fold_inits<V>())
    {
      std::string const descr = es + " state=" + show_val(init) + " f(e,s)=3s+e";
      if (vrt::begin_text(n_fold.c_str(), n_fold + descr))
      {
        vrt::nontrivial(n > 0);
        vrt::maybe_sample();
        V want = init;
        for (E const e : elems)
          want = static_cast<V>(want * 3 + e);
        V const r = call_fold(c, init);
        VRT_CHECK(r == want, n_fold + ":wrong", "got %s want %s", show_val(r).c_str(), show_val(want).c_str());
      }
      for (std::size_t k = 1; k <= elems.size() + 1; ++k)
      {
        if (!vrt::begin_text(n_fb.c_str(), n_fb + descr + " break_at_call=" + std::to_string(k)))
          continue;
        vrt::nontrivial(k <= elems.size());
        V want = init;
        std::size_t want_calls = 0;
        for (E const e : elems)
        {
          want = static_cast<V>(want * 3 + e);
          if (++want_calls == k)
            break;
        }
        std::size_t calls = 0;
        V const r = call_fold_break(c, init, k, calls);
        VRT_CHECK(r == want && calls == want_calls, n_fb + ":wrong", "got %s after %zu calls want %s after %zu",
                  show_val(r).c_str(), calls, show_val(want).c_str(), want_calls);
      }
    }
  }
}

// ------------------------------------------------------------------ at_optional: index of another type
template <class I> void check_at_optional_index()
{
  static std::string const name = std::string("at_optional(vector<int>, ") + tname<I>() + ")";
  for (std::size_t n = 0; n <= 4; ++n)
  {
    std::vector<int> c;
    for (std::size_t i = 0; i < n; ++i)
      c.push_back(static_cast<int>(10 + i));
    std::vector<long double> cand = {-2, -1, 0, 1, 2, 3, 4, 5, 6, 127, 255, 256, 257, 65535, 65536, 65537, -65536, -65535,
                                     static_cast<long double>(two32), static_cast<long double>(two32 + 1),
                                     static_cast<long double>(-two32), static_cast<long double>(-two32 + 1),
                                     static_cast<long double>(std::numeric_limits<I>::min()),
                                     static_cast<long double>(std::numeric_limits<I>::max())};
    for (long double const x : cand)
    {
      if (!representable<I>(x))
        continue;
      I const index = static_cast<I>(x);
      if (!vrt::begin_text(name.c_str(), name + " size=" + std::to_string(n) + " index=" + show_val(index)))
        continue;
      // a negative index becomes a huge size_type: out of range either way
      bool const in = x >= 0 && x < static_cast<long double>(n);
      vrt::nontrivial(in || x < 0 || x > 65535);
      vrt::maybe_sample();
      int const *const r = call_at_optional(c, index);
      VRT_CHECK(r == (in ? &c[static_cast<std::size_t>(x)] : nullptr), name + ":wrong", "index %s of %zu: %s",
                show_val(index).c_str(), n, r ? "an element (the wrong one or a spurious one)" : "nothing");
    }
  }
}

// ------------------------------------------------------------------ keys of another type
// transparent == true: the map has std::less<>, the key is compared as given; otherwise std::map::find converts the
// key to key_type itself, so only representable keys are used
template <class M, class K, bool Transparent> void check_int_keys(char const *mn)
{
  static std::string const tail = std::string(mn) + ", " + tname<K>() + ")";
  static std::string const n_it = "find_opt_iterator(" + tail, n_fo = "container::find_opt(" + tail,
                           n_fm = "find_opt_mapped(" + tail, n_gi = "get_or_insert(" + tail,
                           n_gr = "get_or_insert_with_result(" + tail;
  int const keys[4] = {-1, 0, 2, 5};
  for (int bits = 0; bits < 16; ++bits)
  {
    std::map<int, int> ref;
    for (int i = 0; i < 4; ++i)
      if ((bits >> i) & 1)
        ref[keys[i]] = keys[i] * 10;
    for (K const k : values<K>())
    {
      if (!Transparent && !representable<int>(k))
        continue;
      std::string const descr = " " + show(ref) + " key=" + show_val(k);
      M m(ref.begin(), ref.end());
      int const *want = nullptr;
      for (auto &kv : m)
        if (eq(kv.first, k))
          want = &kv.second;
      bool const exotic = !representable<int>(k);
      if (vrt::begin_text(n_it.c_str(), n_it + descr))
      {
        vrt::nontrivial(want != nullptr || exotic);
        VRT_CHECK(call_find_opt_iterator(m, k) == want, n_it + ":wrong", "want %s", want ? "the entry" : "nothing");
      }
      if (vrt::begin_text(n_fo.c_str(), n_fo + descr))
      {
        vrt::nontrivial(want != nullptr || exotic);
        VRT_CHECK(call_map_find_opt(m, k) == want, n_fo + ":wrong", "want %s", want ? "the entry" : "nothing");
      }
      if (vrt::begin_text(n_fm.c_str(), n_fm + descr))
      {
        vrt::nontrivial(want != nullptr || exotic);
        vrt::maybe_sample();
        VRT_CHECK(call_find_opt_mapped(m, k) == want, n_fm + ":wrong", "want %s", want ? "the entry" : "nothing");
      }
      // get_or_insert takes key_type const&: the language converts; representable keys only
      if (!exotic)
        for (int which = 0; which < 2; ++which)
        {
          std::string const &name = which ? n_gr : n_gi;
          if (!vrt::begin_text(name.c_str(), name + descr))
            continue;
          vrt::nontrivial(!ref.empty());
          M m2(ref.begin(), ref.end());
          int const ik = static_cast<int>(k);
          bool const present = ref.count(ik) != 0;
          seq created;
          auto const create = [&created](int const key) {
            created.push_back(key);
            return 1000 + key;
          };
          int *elem = nullptr;
          bool inserted = !present;
          if (which)
          {
            auto const r = call_get_or_insert_with_result(m2, k, create);
            elem = r.first;
            inserted = r.second;
          }
          else
            elem = call_get_or_insert(m2, k, create);
          std::map<int, int> wantm = ref;
          if (!present)
            wantm[ik] = 1000 + ik;
          std::map<int, int> const got(m2.begin(), m2.end());
          VRT_CHECK(got == wantm && elem == &m2.find(ik)->second && inserted == !present &&
                        created == (present ? seq{} : seq{ik}),
                    name + ":wrong", "map is %s want %s, inserted=%d, create called with %s", show(got).c_str(),
                    show(wantm).c_str(), int(inserted), show(created).c_str());
        }
    }
  }
}

// string keys looked up by std::string_view (exact-size heap buffer, no terminator) and by char const*
template <class M, bool Transparent> void check_string_keys(char const *mn)
{
  static std::string const n_sv = std::string("find_opt_mapped(") + mn + ", string_view)";
  static std::string const n_cp = std::string("find_opt_mapped(") + mn + ", char const*)";
  static std::string const n_gi = std::string("get_or_insert(") + mn + ", char const*)";
  char const *const keys[4] = {"", "a", "ab", "b"};
  char const *const lookups[7] = {"", "a", "ab", "abc", "b", "ba", "c"};
  for (int bits = 0; bits < 16; ++bits)
  {
    std::map<std::string, int> ref;
    for (int i = 0; i < 4; ++i)
      if ((bits >> i) & 1)
        ref[keys[i]] = i + 1;
    std::string ms = " {";
    for (auto const &kv : ref)
      ms += "\"" + kv.first + "\" ";
    ms += "}";
    for (char const *const lk : lookups)
    {
      std::string const descr = ms + " key=\"" + lk + "\"";
      M m(ref.begin(), ref.end());
      int const *want = nullptr;
      for (auto &kv : m)
        if (kv.first == std::string(lk))
          want = &kv.second;
      if constexpr (Transparent)
      {
        if (vrt::begin_text(n_sv.c_str(), n_sv + descr))
        {
          vrt::nontrivial(want != nullptr);
          std::size_t const len = std::char_traits<char>::length(lk);
          std::unique_ptr<char[]> buf(new char[len + 1]); // one more character follows the view: "ab" inside "abX"
          std::copy(lk, lk + len, buf.get());
          buf[len] = 'X';
          std::string_view const sv(buf.get(), len);
          VRT_CHECK(call_find_opt_mapped(m, sv) == want && call_map_find_opt(m, sv) == want && call_find_opt_iterator(m, sv) == want,
                    n_sv + ":wrong", "want %s", want ? "the entry" : "nothing");
        }
      }
      if (vrt::begin_text(n_cp.c_str(), n_cp + descr))
      {
        vrt::nontrivial(want != nullptr);
        vrt::maybe_sample();
        VRT_CHECK(call_find_opt_mapped(m, lk) == want && call_map_find_opt(m, lk) == want && call_find_opt_iterator(m, lk) == want,
                  n_cp + ":wrong", "want %s", want ? "the entry" : "nothing");
      }
      if (vrt::begin_text(n_gi.c_str(), n_gi + descr))
      {
        vrt::nontrivial(!ref.empty());
        bool const present = want != nullptr;
        std::vector<std::string> created;
        auto const create = [&created](std::string const &key) {
          created.push_back(key);
          return 100 + static_cast<int>(key.size());
        };
        int *const e1 = call_get_or_insert(m, lk, create);
        auto const r2 = call_get_or_insert_with_result(m, lk, create); // now the key is present in any case
        std::map<std::string, int> wantm = ref;
        if (!present)
          wantm[lk] = 100 + static_cast<int>(std::string(lk).size());
        std::map<std::string, int> const got(m.begin(), m.end());
        VRT_CHECK(got == wantm && e1 == &m.find(std::string(lk))->second && r2.first == e1 && !r2.second &&
                      created == (present ? std::vector<std::string>{} : std::vector<std::string>{lk}),
                  n_gi + ":wrong", "map has %zu entries want %zu; create called %zu times", got.size(), wantm.size(),
                  created.size());
      }
    }
  }
}

// ------------------------------------------------------------------ delimiters of another type
template <class S> std::vector<S> ref_split(S const &s, typename S::value_type d)
{
  std::vector<S> out;
  S cur;
  for (auto ch : s)
  {
    if (ch == d)
    {
      out.push_back(cur);
      cur = S();
    }
    else
      cur.push_back(ch);
  }
  out.push_back(cur);
  return out;
}

void check_delimiters()
{
  static std::string const n_j = "join_strings(vector<string>, char const*)";
  static std::string const n_jl = "join_strings(list<string>, char[N])";
  static std::string const n_s = "split_string(string, int / uchar / long long)";
  static std::string const n_w = "split_string(wstring, char / int)";
  static std::string const n_v = "split_string(vector<int>, short / long long / uchar)";
  std::vector<std::string> const pool = all_strings("a#", 2);
  for (std::size_t i = 0; i < pool.size(); ++i)
    for (std::size_t j = 0; j < pool.size(); ++j)
      for (std::size_t k = 0; k <= pool.size(); ++k)
      {
        std::vector<std::string> l{pool[i], pool[j]};
        if (k < pool.size())
          l.push_back(pool[k]);
        for (char const *const delim : {"", "#", ", ", "a#"})
        {
          if (!vrt::begin_text(n_j.c_str(), n_j + " " + show(l) + " delim=\"" + delim + "\""))
            continue;
          vrt::nontrivial(true);
          std::string want;
          for (std::size_t x = 0; x < l.size(); ++x)
            want += l[x] + (x + 1 < l.size() ? std::string(delim) : std::string());
          std::string const got = call_join_strings(l, delim);
          VRT_CHECK(got == want, n_j + ":wrong", "got %s want %s", show(got).c_str(), show(want).c_str());
        }
        if (vrt::begin_text(n_jl.c_str(), n_jl + " " + show(l) + " delim=\"--\""))
        {
          vrt::nontrivial(true);
          std::list<std::string> const ll(l.begin(), l.end());
          std::string want;
          for (std::size_t x = 0; x < l.size(); ++x)
            want += l[x] + (x + 1 < l.size() ? "--" : "");
          std::string const got = call_join_strings(ll, "--");
          VRT_CHECK(got == want, n_jl + ":wrong", "got %s want %s", show(got).c_str(), show(want).c_str());
        }
      }
  for (std::string const &s : all_strings("ab#", hetero_len() + 1))
  {
    if (vrt::begin_text(n_s.c_str(), n_s + " " + show(s)))
    {
      vrt::nontrivial(s.find('#') != std::string::npos);
      vrt::maybe_sample();
      bool const ok = call_split_string(s, int{'#'}) == ref_split(s, '#') && call_split_string(s, uchar{'a'}) == ref_split(s, 'a') &&
                      call_split_string(s, llong{'b'}) == ref_split(s, 'b') && call_split_string(s, int{'x'}) == ref_split(s, 'x');
      VRT_CHECK(ok, n_s + ":wrong", "pieces differ from the reference");
    }
    if (vrt::begin_text(n_w.c_str(), n_w + " " + show(s)))
    {
      vrt::nontrivial(s.find('#') != std::string::npos);
      std::wstring const w(s.begin(), s.end());
      bool const ok = call_split_string(w, '#') == ref_split(w, L'#') && call_split_string(w, int{'a'}) == ref_split(w, L'a');
      VRT_CHECK(ok, n_w + ":wrong", "pieces differ from the reference");
    }
  }
  for (seq const &s : all_seqs(3, hetero_len() + 1))
    for (int d = 0; d <= 3; ++d)
    {
      if (!vrt::begin_text(n_v.c_str(), n_v + " " + show(s) + " delim=" + std::to_string(d)))
        continue;
      vrt::nontrivial(std::find(s.begin(), s.end(), d) != s.end());
      std::vector<seq> const want = ref_split(s, d);
      bool const ok = call_split_string(s, static_cast<short>(d)) == want && call_split_string(s, static_cast<llong>(d)) == want &&
                      call_split_string(s, static_cast<uchar>(d)) == want;
      VRT_CHECK(ok, n_v + ":wrong", "pieces differ from the reference");
    }
}
}

void register_hetero_shards()
{
  using namespace c16h;
#define C16H_SHARD(E, V)                                                            \
  c16::shard("hetero/values/" #E "," #V, [] {                                       \
    check_values<E, V, std::vector<E>>("vector", true);                             \
    check_values<E, V, std::deque<E>>("deque", true);                               \
    check_values<E, V, std::list<E>>("list", false);                                \
  });
  C16H_PAIRS(C16H_SHARD)
#undef C16H_SHARD
  c16::shard("hetero/at_optional", [] {
    check_at_optional_index<signed char>();
    check_at_optional_index<uchar>();
    check_at_optional_index<short>();
    check_at_optional_index<unsigned short>();
    check_at_optional_index<int>();
    check_at_optional_index<unsigned>();
    check_at_optional_index<llong>();
  });
  c16::shard("hetero/int_keys", [] {
    check_int_keys<tmap_int, short, true>("map<int,int,less<>>");
    check_int_keys<tmap_int, uchar, true>("map<int,int,less<>>");
    check_int_keys<tmap_int, llong, true>("map<int,int,less<>>");
    check_int_keys<tmap_int, double, true>("map<int,int,less<>>");
    check_int_keys<std::map<int, int>, short, false>("map<int,int>");
    check_int_keys<std::map<int, int>, llong, false>("map<int,int>");
    check_int_keys<std::map<int, int>, double, false>("map<int,int>");
  });
  c16::shard("hetero/string_keys_delimiters", [] {
    check_string_keys<tmap_str, true>("map<string,int,less<>>");
    check_string_keys<map_str, false>("map<string,int>");
    check_delimiters();
  });
}
}

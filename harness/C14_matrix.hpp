// C14_matrix.hpp -- the matrix law groups, generic in the shape; instantiated by
// C14.cpp (1x1, 2x2), C14_m3.cpp (3x3, rectangular) and C14_m4.cpp (4x4, builders).
#pragma once
#include "C14_common.hpp"

#include <fcppt/cast/static_cast_fun.hpp>
#include <fcppt/math/matrix/adjugate.hpp>
#include <fcppt/math/matrix/arithmetic.hpp>
#include <fcppt/math/matrix/at_r.hpp>
#include <fcppt/math/matrix/at_r_c.hpp>
#include <fcppt/math/matrix/comparison.hpp>
#include <fcppt/math/matrix/delete_row_and_column.hpp>
#include <fcppt/math/matrix/determinant.hpp>
#include <fcppt/math/matrix/identity.hpp>
#include <fcppt/math/matrix/index.hpp>
#include <fcppt/math/matrix/init.hpp>
#include <fcppt/math/matrix/inverse.hpp>
#include <fcppt/math/matrix/row.hpp>
#include <fcppt/math/matrix/structure_cast.hpp>
#include <fcppt/math/matrix/transpose.hpp>
#include <fcppt/math/matrix/vector.hpp>
#include <fcppt/math/vector/arithmetic.hpp>
#include <fcppt/math/vector/at.hpp>
#include <fcppt/math/vector/comparison.hpp>
#include <fcppt/math/vector/dot.hpp>

namespace c14
{
namespace fm = fcppt::math::matrix;
namespace fv = fcppt::math::vector;

// a family element together with its pre-built operands (static object, view buffer)
template <sz R, sz C> struct op
{
  rmat<R, C> r;
  smat<R, C> s;
  buf<R * C> b;
  explicit op(rmat<R, C> const &a) : r(a), s(mk_s(a)), b(mk_buf(a)) {}
  vmat<R, C> v() const { return b.template mat<R, C>(); }
};
template <sz R, sz C> std::vector<op<R, C>> make_ops(std::vector<rmat<R, C>> const &fam)
{
  std::vector<op<R, C>> o;
  o.reserve(fam.size());
  for (auto const &a : fam)
    o.emplace_back(a);
  return o;
}

template <sz r, sz c, class M> decltype(auto) mxy(M &m)
{
  if constexpr (r == 0 && c == 0) return m.m00();
  else if constexpr (r == 0 && c == 1) return m.m01();
  else if constexpr (r == 0 && c == 2) return m.m02();
  else if constexpr (r == 0 && c == 3) return m.m03();
  else if constexpr (r == 1 && c == 0) return m.m10();
  else if constexpr (r == 1 && c == 1) return m.m11();
  else if constexpr (r == 1 && c == 2) return m.m12();
  else if constexpr (r == 1 && c == 3) return m.m13();
  else if constexpr (r == 2 && c == 0) return m.m20();
  else if constexpr (r == 2 && c == 1) return m.m21();
  else if constexpr (r == 2 && c == 2) return m.m22();
  else if constexpr (r == 2 && c == 3) return m.m23();
  else if constexpr (r == 3 && c == 0) return m.m30();
  else if constexpr (r == 3 && c == 1) return m.m31();
  else if constexpr (r == 3 && c == 2) return m.m32();
  else return m.m33();
}

template <sz R, sz C, sz Row> fcppt::math::matrix::row_type<I, C> make_row(rmat<R, C> const &a)
{
  return [&]<std::size_t... Js>(std::index_sequence<Js...>)
  {
    return fm::row(static_cast<I>(a.at(Row, Js))...);
  }
  (std::make_index_sequence<C>{});
}
template <sz R, sz C> smat<R, C> construct_from_rows(rmat<R, C> const &a)
{
  return [&]<std::size_t... Is>(std::index_sequence<Is...>) { return smat<R, C>(make_row<R, C, Is>(a)...); }
  (std::make_index_sequence<R>{});
}

// ------------------------------------------------------------------ construction and element access
// row constructor, init, at_r_c, at_r (row views), get_unsafe, mRC, copies between storages
template <sz R, sz C> void access_case(std::string const &text, op<R, C> const &A, bool nontrivial)
{
  static std::string const fn = "matrix_access<" + shape(R, C) + ">";
  if (!vrt::begin_text(fn.c_str(), fn + " A=" + text))
    return;
  vrt::nontrivial(nontrivial);
  vrt::maybe_sample();
  rmat<R, C> const &a = A.r;
  static_assert(smat<R, C>::rows() == R && smat<R, C>::columns() == C);
  static_assert(vmat<R, C>::rows() == R && vmat<R, C>::columns() == C);
  C14_EQ(rd(construct_from_rows<R, C>(a)), a, fn + ":row_constructor", "matrix(row(..),..)");
  C14_EQ(
      rd(fm::init<smat<R, C>>([&a]<sz Row, sz Col>(fm::index<Row, Col>) { return static_cast<I>(a.at(Row, Col)); })), a,
      fn + ":init", "matrix::init");
  smat<R, C> const &s = A.s;
  smat<R, C> sm = A.s; // non-const object: non-const accessors
  vmat<R, C> const v = A.v();
  static_for_rc<R, C>([&](auto ri, auto ci) {
    constexpr sz r = decltype(ri)::value, c = decltype(ci)::value;
    long const want = a.at(r, c);
    C14_EQ(static_cast<long>(fm::at_r_c<r, c>(s)), want, fn + ":at_r_c:static", "at_r_c");
    C14_EQ(static_cast<long>(fm::at_r_c<r, c>(sm)), want, fn + ":at_r_c:static_mutable", "at_r_c (non-const)");
    C14_EQ(static_cast<long>(fm::at_r_c<r, c>(v)), want, fn + ":at_r_c:view", "at_r_c (view storage)");
    auto const srow = fm::at_r<r>(s);
    auto const vrow = fm::at_r<r>(v);
    C14_EQ(static_cast<long>(fv::at<c>(srow)), want, fn + ":at_r:at", "at<c>(at_r<r>)");
    C14_EQ(static_cast<long>(fv::at<c>(vrow)), want, fn + ":at_r:at:view", "at<c>(at_r<r>) (view storage)");
    if constexpr (r < 4 && c < 4)
    {
      C14_EQ(static_cast<long>(mxy<r, c>(s)), want, fn + ":mRC", "mRC()");
      C14_EQ(static_cast<long>(mxy<r, c>(sm)), want, fn + ":mRC:mutable", "mRC() (non-const)");
      C14_EQ(static_cast<long>(mxy<r, c>(v)), want, fn + ":mRC:view", "mRC() (view storage)");
    }
  });
  for (sz r = 0; r < R; ++r)
    for (sz c = 0; c < C; ++c)
    {
      C14_EQ(static_cast<long>(s.get_unsafe(r).get_unsafe(c)), a.at(r, c), fn + ":get_unsafe", "get_unsafe(r).get_unsafe(c)");
      C14_EQ(static_cast<long>(v.get_unsafe(r).get_unsafe(c)), a.at(r, c), fn + ":get_unsafe:view", "get_unsafe (view storage)");
    }
  // rows as vectors: a row view equals / converts to the static vector of that row
  static_for<R>([&](auto ri) {
    constexpr sz r = decltype(ri)::value;
    rvec<C> want{};
    for (sz c = 0; c < C; ++c)
      want[c] = a.at(r, c);
    svec<C> const wv = mk_sv<svec<C>>(want);
    auto const row = fm::at_r<r>(s);
    auto const vrow = fm::at_r<r>(v);
    C14_TRUE(row == wv && wv == row && !(row != wv), fn + ":row_view:equal", "row view != the row as static vector");
    C14_TRUE(vrow == wv && vrow == row, fn + ":row_view:equal:view", "row view over view storage != the row");
    svec<C> const copy(row);
    C14_EQ(rdv(copy), want, fn + ":row_view:copy", "static vector copied from a row view");
    svec<C> assigned = mk_sv<svec<C>>(rvec<C>{});
    assigned = vrow;
    C14_EQ(rdv(assigned), want, fn + ":row_view:assign", "static vector assigned from a row view");
  });
  // copies between storage types
  C14_EQ(rd(smat<R, C>(v)), a, fn + ":copy:view_to_static", "static matrix constructed from a view matrix");
  {
    buf<R * C> tb{rzero<R, C>().d};
    vmat<R, C> t = tb.template mat<R, C>();
    t = s;
    C14_EQ(tb.read(), a.d, fn + ":assign:static_to_view", "view matrix assigned from a static matrix");
    smat<R, C> u = mk_s(rzero<R, C>());
    u = v;
    C14_EQ(rd(u), a, fn + ":assign:view_to_static", "static matrix assigned from a view matrix");
  }
  // structure_cast keeps every position
  {
    using lmat = fm::static_<long, R, C>;
    lmat const l = fm::structure_cast<lmat, fcppt::cast::static_cast_fun>(s);
    C14_EQ(rd(l), a, fn + ":structure_cast", "structure_cast<long matrix>");
    lmat const l2 = fm::structure_cast<lmat, fcppt::cast::static_cast_fun>(v);
    C14_EQ(rd(l2), a, fn + ":structure_cast:view", "structure_cast<long matrix> (view storage)");
    C14_EQ(rd(fm::structure_cast<smat<R, C>, fcppt::cast::static_cast_fun>(l)), a, fn + ":structure_cast:back", "structure_cast back to int");
    rmat<R, C> an;
    for (sz i = 0; i < R; ++i)
      for (sz j = 0; j < C; ++j)
        an.at(i, j) = 1 - a.at(i, j);
    C14_EQ(rd(fm::structure_cast<smat<R, C>, c14::one_minus_fun>(s)), an, fn + ":structure_cast:user_converter:same_type", "structure_cast<int, 1-x>");
    C14_EQ(rd(fm::structure_cast<lmat, c14::one_minus_fun>(s)), an, fn + ":structure_cast:user_converter", "structure_cast<long, 1-x>");
  }
}

// writing through the accessors changes exactly the addressed cell (one case per shape)
template <sz R, sz C> void write_access_case()
{
  static std::string const fn = "matrix_write_access<" + shape(R, C) + ">";
  if (!vrt::begin_text(fn.c_str(), fn))
    return;
  vrt::nontrivial(R * C > 1);
  vrt::maybe_sample();
  static_for_rc<R, C>([&](auto ri, auto ci) {
    constexpr sz r = decltype(ri)::value, c = decltype(ci)::value;
    rmat<R, C> want;
    want.at(r, c) = 7;
    {
      smat<R, C> w = mk_s(rzero<R, C>());
      fm::at_r_c<r, c>(w) = 7;
      C14_EQ(rd(w), want, fn + ":at_r_c", "write through at_r_c");
    }
    {
      smat<R, C> w = mk_s(rzero<R, C>());
      auto row = fm::at_r<r>(w);
      fv::at<c>(row) = 7;
      C14_EQ(rd(w), want, fn + ":at_r", "write through at_r/at");
    }
    {
      smat<R, C> w = mk_s(rzero<R, C>());
      w.get_unsafe(r).get_unsafe(c) = 7;
      C14_EQ(rd(w), want, fn + ":get_unsafe", "write through get_unsafe");
    }
    if constexpr (r < 4 && c < 4)
    {
      smat<R, C> w = mk_s(rzero<R, C>());
      mxy<r, c>(w) = 7;
      C14_EQ(rd(w), want, fn + ":mRC", "write through mRC()");
    }
    {
      buf<R * C> tb{rzero<R, C>().d};
      vmat<R, C> w = tb.template mat<R, C>();
      fm::at_r_c<r, c>(w) = 7;
      C14_EQ(tb.read(), want.d, fn + ":at_r_c:view", "write through at_r_c (view storage)");
    }
  });
}

// ------------------------------------------------------------------ shape-generic unary laws
template <sz R, sz C> void shape_unary_case(std::string const &text, op<R, C> const &A, std::vector<long> const &scalars)
{
  rmat<R, C> const &a = A.r;
  smat<R, C> const &s = A.s;
  vmat<R, C> const v = A.v();
  {
    static std::string const fn = "transpose<" + shape(R, C) + ">";
    if (vrt::begin_text(fn.c_str(), fn + " A=" + text))
    {
      bool sym = false;
      if constexpr (R == C)
        sym = rtrans(a) == a;
      vrt::nontrivial(!sym && !rmzero(a));
      vrt::maybe_sample();
      auto const t = fm::transpose(s);
      C14_EQ(rd(t), rtrans(a), fn + ":wrong", "transpose(A)");
      C14_EQ(rd(fm::transpose(v)), rtrans(a), fn + ":wrong:view", "transpose(A) (view storage)");
      C14_EQ(rd(fm::transpose(t)), a, fn + ":involution", "transpose(transpose(A))");
    }
  }
  {
    static std::string const fn = "matrix_scalar<" + shape(R, C) + ">";
    for (long k : scalars)
    {
      if (!vrt::begin_text(fn.c_str(), fn + " k=" + std::to_string(k) + " A=" + text))
        continue;
      vrt::nontrivial(!rmzero(a) && k != 0 && k != 1);
      vrt::maybe_sample();
      I const ki = static_cast<I>(k);
      rmat<R, C> const want = rscal(k, a);
      C14_EQ(rd(s * ki), want, fn + ":right", "A*k");
      C14_EQ(rd(ki * s), want, fn + ":left", "k*A");
      C14_EQ(rd(v * ki), want, fn + ":right:view", "A*k (view storage)");
      C14_EQ(rd(ki * v), want, fn + ":left:view", "k*A (view storage)");
      smat<R, C> m = s;
      smat<R, C> &ret = (m *= ki);
      C14_TRUE(&ret == &m, fn + ":compound:return", "operator*= does not return *this");
      C14_EQ(rd(m), want, fn + ":compound", "A*=k");
      buf<R * C> tb{a.d};
      vmat<R, C> t = tb.template mat<R, C>();
      t *= ki;
      C14_EQ(tb.read(), want.d, fn + ":compound:view", "A*=k (view storage)");
    }
  }
  {
    // the scalar may alias an entry of the matrix itself
    static std::string const fn = "matrix_scalar_alias<" + shape(R, C) + ">";
    for (sz j = 0; j < R * C; ++j)
    {
      if (!vrt::begin_text(fn.c_str(), fn + " j=" + std::to_string(j) + " A=" + text))
        continue;
      vrt::nontrivial(!rmzero(a) && a.d[j] != 0 && a.d[j] != 1);
      rmat<R, C> const want = rscal(a.d[j], a);
      smat<R, C> m = s;
      m *= m.storage()[j];
      C14_EQ(rd(m), want, fn + ":compound", "A*=A[j]");
      C14_EQ(rd(s * s.storage()[j]), want, fn + ":free", "A*A[j]");
    }
  }
  {
    static std::string const fn = "identity_neutral<" + shape(R, C) + ">";
    if (vrt::begin_text(fn.c_str(), fn + " A=" + text))
    {
      vrt::nontrivial(!rmzero(a));
      auto const il = fm::identity<smat<R, R>>();
      auto const ir = fm::identity<vmat<C, C>>(); // to_static of a view matrix type
      C14_EQ(rd(il), rident<R>(), fn + ":identity", "identity<RxR>");
      C14_EQ(rd(ir), rident<C>(), fn + ":identity", "identity<CxC>");
      C14_EQ(rd(il * s), a, fn + ":left", "I*A");
      C14_EQ(rd(il * v), a, fn + ":left:view", "I*A (view storage)");
      if constexpr (tall_left_ok(R, C)) // R > C: evaluated by the binary C14b
      {
        C14_EQ(rd(s * ir), a, fn + ":right", "A*I");
        C14_EQ(rd(v * ir), a, fn + ":right:view", "A*I (view storage)");
      }
    }
  }
  if constexpr (R >= 2 && C >= 2)
  {
    static std::string const fn = "delete_row_and_column<" + shape(R, C) + ">";
    if (vrt::begin_text(fn.c_str(), fn + " A=" + text))
    {
      vrt::nontrivial(rnnz(a) >= 2);
      vrt::maybe_sample();
      static_for_rc<R, C>([&](auto ri, auto ci) {
        constexpr sz r = decltype(ri)::value, c = decltype(ci)::value;
        auto const want = rminor(a, r, c);
        if (!(rd(fm::delete_row_and_column<r, c>(s)) == want))
          failv(fn + ":wrong", vrt::fmt("delete_row_and_column<%u,%u>: got %s want %s", (unsigned)r, (unsigned)c,
                                         show(rd(fm::delete_row_and_column<r, c>(s))).c_str(), show(want).c_str()));
        if (!(rd(fm::delete_row_and_column<r, c>(v)) == want))
          failv(fn + ":wrong:view", vrt::fmt("delete_row_and_column<%u,%u> (view storage)", (unsigned)r, (unsigned)c));
      });
    }
  }
}

// ------------------------------------------------------------------ square unary laws
template <sz N> void square_unary_case(std::string const &text, op<N, N> const &A)
{
  rmat<N, N> const &a = A.r;
  smat<N, N> const &s = A.s;
  vmat<N, N> const v = A.v();
  long const det = rdet(a);
  rmat<N, N> const adj = radj(a);
  static std::string const nn = "<" + std::to_string(N) + ">";
  {
    static std::string const fn = "determinant" + nn;
    if (vrt::begin_text(fn.c_str(), fn + " A=" + text))
    {
      vrt::nontrivial(det != 0 && !(a == rident<N>()));
      vrt::maybe_sample();
      C14_EQ(static_cast<long>(fm::determinant(s)), det, fn + ":wrong", "determinant(A)");
      C14_EQ(static_cast<long>(fm::determinant(v)), det, fn + ":wrong:view", "determinant(A) (view storage)");
      C14_EQ(static_cast<long>(fm::determinant(fm::transpose(s))), det, fn + ":transpose", "determinant(transpose(A))");
    }
  }
  {
    static std::string const fn = "adjugate" + nn;
    if (vrt::begin_text(fn.c_str(), fn + " A=" + text))
    {
      vrt::nontrivial(!rmzero(adj) && !(a == rident<N>()));
      vrt::maybe_sample();
      auto const fa = fm::adjugate(s);
      C14_EQ(rd(fa), adj, fn + ":wrong", "adjugate(A)");
      // one defect, one signature: the view variant and the laws are only judged when
      // the plain result is right (they would fail as mere consequences otherwise)
      if (rd(fa) == adj)
      {
        C14_EQ(rd(fm::adjugate(v)), adj, fn + ":wrong:view", "adjugate(A) (view storage)");
        // A * adj(A) = adj(A) * A = det(A) * identity, all computed by fcppt
        auto const di = fm::determinant(s) * fm::identity<smat<N, N>>();
        C14_TRUE(s * fa == di, fn + ":law:A_adjA_eq_detI", "A*adjugate(A)=" + show(rd(s * fa)) + " but determinant(A)*identity=" + show(rd(di)));
        C14_TRUE(fa * s == di, fn + ":law:adjA_A_eq_detI", "adjugate(A)*A=" + show(rd(fa * s)) + " but determinant(A)*identity=" + show(rd(di)));
        C14_EQ(rd(s * fa), rscal(det, rident<N>()), fn + ":law:reference", "A*adjugate(A) vs det*I (reference)");
        // adj(A^T) = adj(A)^T
        C14_TRUE(fm::adjugate(fm::transpose(s)) == fm::transpose(fa), fn + ":transpose", "adjugate(transpose(A)) != transpose(adjugate(A))");
      }
    }
  }
  if (det == 1 || det == -1) // the inverse is an integer matrix exactly for unimodular A
  {
    static std::string const fn = "inverse" + nn;
    if (vrt::begin_text(fn.c_str(), fn + " A=" + text))
    {
      vrt::nontrivial(!(a == rident<N>()));
      vrt::maybe_sample();
      // inverse = (1/det) * adjugate: judged only where determinant and adjugate are right
      if (static_cast<long>(fm::determinant(s)) != det || !(rd(fm::adjugate(s)) == adj))
        return;
      auto const inv = fm::inverse(s);
      C14_EQ(rd(inv), rscal(det, adj), fn + ":wrong", "inverse(A)");
      C14_EQ(rd(fm::inverse(v)), rscal(det, adj), fn + ":wrong:view", "inverse(A) (view storage)");
      C14_EQ(rd(s * inv), rident<N>(), fn + ":law:right", "A*inverse(A)");
      C14_EQ(rd(inv * s), rident<N>(), fn + ":law:left", "inverse(A)*A");
    }
  }
}

// ------------------------------------------------------------------ same-shape pairs: + - == !=
template <sz R, sz C> void sum_pair_case(std::string const &text, op<R, C> const &A, op<R, C> const &B)
{
  rmat<R, C> const &a = A.r, &b = B.r;
  smat<R, C> const &sa = A.s, &sb = B.s;
  vmat<R, C> const va = A.v(), vb = B.v();
  {
    static std::string const fn = "matrix_add_sub<" + shape(R, C) + ">";
    if (vrt::begin_text(fn.c_str(), fn + " " + text))
    {
      vrt::nontrivial(!rmzero(a) && !rmzero(b) && !(a == b));
      vrt::maybe_sample();
      rmat<R, C> const sum = radd(a, b), diff = rsub(a, b);
      C14_EQ(rd(sa + sb), sum, fn + ":add:static_static", "A+B");
      C14_EQ(rd(sa + vb), sum, fn + ":add:static_view", "A+B");
      C14_EQ(rd(va + sb), sum, fn + ":add:view_static", "A+B");
      C14_EQ(rd(va + vb), sum, fn + ":add:view_view", "A+B");
      C14_EQ(rd(sa - sb), diff, fn + ":sub:static_static", "A-B");
      C14_EQ(rd(sa - vb), diff, fn + ":sub:static_view", "A-B");
      C14_EQ(rd(va - sb), diff, fn + ":sub:view_static", "A-B");
      C14_EQ(rd(va - vb), diff, fn + ":sub:view_view", "A-B");
      C14_EQ(rd((sa + sb) - sb), a, fn + ":law:add_then_sub", "(A+B)-B");
      C14_TRUE(sa + sb == sb + sa, fn + ":law:commutative", "A+B != B+A");
      C14_TRUE(fm::transpose(sa + sb) == fm::transpose(sa) + fm::transpose(sb), fn + ":law:transpose", "(A+B)^T != A^T+B^T");
      {
        smat<R, C> m = sa;
        smat<R, C> &ret = (m += sb);
        C14_TRUE(&ret == &m, fn + ":compound:return", "operator+= does not return *this");
        C14_EQ(rd(m), sum, fn + ":add_assign:static_static", "A+=B");
        m -= vb;
        C14_EQ(rd(m), a, fn + ":sub_assign:static_view", "(A+=B)-=B");
        m -= sb;
        C14_EQ(rd(m), diff, fn + ":sub_assign:static_static", "A-=B");
        m += vb;
        C14_EQ(rd(m), a, fn + ":add_assign:static_view", "(A-=B)+=B");
      }
      {
        buf<R * C> tb{a.d};
        vmat<R, C> t = tb.template mat<R, C>();
        t += sb;
        C14_EQ(tb.read(), sum.d, fn + ":add_assign:view_static", "A+=B (view lhs)");
        t -= vb;
        t -= vb;
        C14_EQ(tb.read(), diff.d, fn + ":sub_assign:view_view", "A-=B (view lhs)");
      }
    }
  }
  {
    static std::string const fn = "matrix_compare<" + shape(R, C) + ">";
    if (vrt::begin_text(fn.c_str(), fn + " " + text))
    {
      int differing = 0;
      for (sz i = 0; i < R * C; ++i)
        differing += a.d[i] != b.d[i];
      vrt::nontrivial(differing <= 1); // equal, or differing in exactly one position
      bool const eq = a == b;
      C14_TRUE((sa == sb) == eq, fn + ":eq:static_static", "operator== wrong");
      C14_TRUE((sa == vb) == eq, fn + ":eq:static_view", "operator== wrong");
      C14_TRUE((va == sb) == eq, fn + ":eq:view_static", "operator== wrong");
      C14_TRUE((va == vb) == eq, fn + ":eq:view_view", "operator== wrong");
      C14_TRUE((sa != sb) == !eq, fn + ":ne:static_static", "operator!= wrong");
      C14_TRUE((sa != vb) == !eq, fn + ":ne:static_view", "operator!= wrong");
      C14_TRUE((va != sb) == !eq, fn + ":ne:view_static", "operator!= wrong");
      C14_TRUE((va != vb) == !eq, fn + ":ne:view_view", "operator!= wrong");
    }
  }
}

// ------------------------------------------------------------------ products of pairs
template <sz R, sz K, sz C> void product_pair_case(std::string const &text, op<R, K> const &A, op<K, C> const &B)
{
  static_assert(tall_left_ok(R, K), "tall-left products belong to the binary C14b");
  static std::string const fn = "matrix_product<" + shape(R, K) + "." + shape(K, C) + ">";
  if (!vrt::begin_text(fn.c_str(), fn + " " + text))
    return;
  rmat<R, K> const &a = A.r;
  rmat<K, C> const &b = B.r;
  rmat<R, C> const want = rmul(a, b);
  bool triv = rmzero(a) || rmzero(b);
  if constexpr (R == K)
    triv = triv || a == rident<R>();
  if constexpr (K == C)
    triv = triv || b == rident<C>();
  vrt::nontrivial(!triv);
  vrt::maybe_sample();
  auto const p = A.s * B.s;
  C14_EQ(rd(p), want, fn + ":wrong:static_static", "A*B");
  C14_EQ(rd(A.s * B.v()), want, fn + ":wrong:static_view", "A*B");
  C14_EQ(rd(A.v() * B.s), want, fn + ":wrong:view_static", "A*B");
  C14_EQ(rd(A.v() * B.v()), want, fn + ":wrong:view_view", "A*B");
  // (AB)^T = B^T A^T, both sides by fcppt
  if constexpr (tall_left_ok(C, K))
  {
    auto const tp = fm::transpose(p);
    auto const pt = fm::transpose(B.s) * fm::transpose(A.s);
    C14_TRUE(tp == pt, fn + ":law:transpose_product", ("transpose(A*B)=" + show(rd(tp)) + " transpose(B)*transpose(A)=" + show(rd(pt))).c_str());
    C14_EQ(rd(pt), rtrans(want), fn + ":law:transpose_product:reference", "transpose(B)*transpose(A)");
  }
  // (kA)B = A(kB) = k(AB)
  for (I k : {-1, 2})
  {
    auto const kp = k * p;
    C14_TRUE((k * A.s) * B.s == kp && A.s * (B.s * k) == kp, fn + ":law:scalar", "(kA)B, A(Bk) and k(AB) differ");
  }
  // entry (i,j) is the dot product of row i of A with row j of B^T (row views as operands)
  auto const bt = fm::transpose(B.s);
  static_for_rc<R, C>([&](auto ri, auto ci) {
    constexpr sz r = decltype(ri)::value, c = decltype(ci)::value;
    C14_EQ(static_cast<long>(fv::dot(fm::at_r<r>(A.s), fm::at_r<c>(bt))), want.at(r, c), fn + ":law:row_dot", "dot(row_r(A), row_c(B^T))");
  });
}

template <sz N> void square_pair_case(std::string const &text, op<N, N> const &A, op<N, N> const &B)
{
  static std::string const fn = "det_adj_multiplicative<" + std::to_string(N) + ">";
  if (!vrt::begin_text(fn.c_str(), fn + " " + text))
    return;
  long const da = rdet(A.r), db = rdet(B.r);
  vrt::nontrivial(da != 0 && db != 0 && !is_zero_or_ident(A.r) && !is_zero_or_ident(B.r));
  vrt::maybe_sample();
  auto const p = A.s * B.s;
  long const fa = fm::determinant(A.s), fb = fm::determinant(B.s), fp = fm::determinant(p);
  if (fp != fa * fb)
    failv(fn + ":law:det_multiplicative", vrt::fmt("determinant(A*B)=%ld determinant(A)=%ld determinant(B)=%ld", fp, fa, fb));
  C14_EQ(fp, da * db, fn + ":reference", "determinant(A*B)");
  C14_TRUE(fm::adjugate(p) == fm::adjugate(B.s) * fm::adjugate(A.s), fn + ":law:adj_antimultiplicative", "adjugate(A*B) != adjugate(B)*adjugate(A)");
}

// ------------------------------------------------------------------ triples: ring laws (announced with family indices)
template <sz N> struct triple_ctx
{
  rmat<N, N> const *a, *b, *c;
  static std::string print(void const *p)
  {
    auto const *t = static_cast<triple_ctx const *>(p);
    return "ring_laws<" + std::to_string(N) + "> A=" + show(*t->a) + " B=" + show(*t->b) + " C=" + show(*t->c);
  }
};
// A static, B view storage, C static
template <sz N> void ring_triples(std::vector<op<N, N>> const &fam, unsigned part, unsigned nparts)
{
  static std::string const fn = "ring_laws<" + std::to_string(N) + ">";
  triple_ctx<N> ctx{};
  for (std::size_t i = 0; i < fam.size(); ++i)
  {
    if (i % nparts != part)
      continue;
    if (vrt::out_of_time())
      return;
    op<N, N> const &A = fam[i];
    bool const ta = is_zero_or_ident(A.r);
    for (std::size_t j = 0; j < fam.size(); ++j)
    {
      op<N, N> const &B = fam[j];
      vmat<N, N> const vb = B.v();
      bool const tb = ta || is_zero_or_ident(B.r);
      rmat<N, N> const rab = rmul(A.r, B.r);
      rmat<N, N> const rapb = radd(A.r, B.r);
      for (std::size_t k = 0; k < fam.size(); ++k)
      {
        if (!vrt::begin(fn.c_str(), i, j, k))
          continue;
        op<N, N> const &C = fam[k];
        ctx.a = &A.r;
        ctx.b = &B.r;
        ctx.c = &C.r;
        g_ctx.print = &triple_ctx<N>::print;
        g_ctx.data = &ctx;
        vrt::nontrivial(!tb && !is_zero_or_ident(C.r));
        sample_lazy();
        // associativity
        auto const ab = A.s * vb;
        auto const bc = vb * C.s;
        auto const l = ab * C.s;
        auto const r = A.s * bc;
        rmat<N, N> const want = rmul(rab, C.r);
        if (!(l == r))
          failv(fn + ":associative", "(A*B)*C=" + show(rd(l)) + " A*(B*C)=" + show(rd(r)));
        if (!(rd(l) == want))
          failv(fn + ":associative:reference", "(A*B)*C=" + show(rd(l)) + " want " + show(want));
        // left distributivity A(B+C) = AB + AC
        auto const ac = A.s * C.s;
        auto const ld = A.s * (vb + C.s);
        auto const ls = ab + ac;
        if (!(ld == ls))
          failv(fn + ":distributive:left", "A*(B+C)=" + show(rd(ld)) + " A*B+A*C=" + show(rd(ls)));
        if (!(rd(ld) == radd(rab, rmul(A.r, C.r))))
          failv(fn + ":distributive:left:reference", "A*(B+C)=" + show(rd(ld)));
        // right distributivity (A+B)C = AC + BC
        auto const rdm = (A.s + vb) * C.s;
        auto const rs = ac + bc;
        if (!(rdm == rs))
          failv(fn + ":distributive:right", "(A+B)*C=" + show(rd(rdm)) + " A*C+B*C=" + show(rd(rs)));
        if (!(rd(rdm) == rmul(rapb, C.r)))
          failv(fn + ":distributive:right:reference", "(A+B)*C=" + show(rd(rdm)));
      }
    }
  }
  g_ctx = case_ctx{};
}

// associativity through rectangular shapes: (RxK * KxL) * LxC
template <sz R, sz K, sz L, sz C>
void rect_assoc(std::vector<op<R, K>> const &fa, std::vector<op<K, L>> const &fb, std::vector<op<L, C>> const &fc)
{
  static_assert(tall_left_ok(R, K) && tall_left_ok(R, L) && tall_left_ok(K, L), "tall-left products belong to the binary C14b");
  static std::string const fn = "associative<" + shape(R, K) + "." + shape(K, L) + "." + shape(L, C) + ">";
  for (auto const &A : fa)
  {
    if (vrt::out_of_time())
      return;
    for (auto const &B : fb)
      for (auto const &Cc : fc)
      {
        if (!vrt::begin_text(fn.c_str(), fn + " A=" + show(A.r) + " B=" + show(B.r) + " C=" + show(Cc.r)))
          continue;
        vrt::nontrivial(!rmzero(A.r) && !rmzero(B.r) && !rmzero(Cc.r));
        vrt::maybe_sample();
        auto const l = (A.s * B.v()) * Cc.s;
        auto const r = A.s * (B.v() * Cc.s);
        if (!(l == r))
          failv(fn + ":law", "(A*B)*C=" + show(rd(l)) + " A*(B*C)=" + show(rd(r)));
        C14_EQ(rd(l), rmul(rmul(A.r, B.r), Cc.r), fn + ":reference", "(A*B)*C");
      }
  }
}

// ------------------------------------------------------------------ matrix * vector
template <sz R, sz C> void matvec_case(op<R, C> const &A, rvec<C> const &x, svec<C> const &sx, vvec<C> const &vx)
{
  static std::string const fn = "matrix_vector<" + shape(R, C) + ">";
  if (!vrt::begin_text(fn.c_str(), fn + " A=" + show(A.r) + " x=" + show(x)))
    return;
  rvec<R> const want = rmulvec(A.r, x);
  vrt::nontrivial(!rmzero(A.r) && !rvzero(x));
  vrt::maybe_sample();
  C14_EQ(rdv(A.s * sx), want, fn + ":wrong:static_static", "A*x");
  C14_EQ(rdv(A.s * vx), want, fn + ":wrong:static_view", "A*x");
  C14_EQ(rdv(A.v() * sx), want, fn + ":wrong:view_static", "A*x");
  C14_EQ(rdv(A.v() * vx), want, fn + ":wrong:view_view", "A*x");
  // x as a row view of a 1xC matrix, and as the column of a Cx1 matrix
  smat<1, C> xr{fcppt::no_init{}};
  smat<C, 1> xc{fcppt::no_init{}};
  for (sz i = 0; i < C; ++i)
  {
    xr.storage()[i] = static_cast<I>(x[i]);
    xc.storage()[i] = static_cast<I>(x[i]);
  }
  C14_EQ(rdv(A.s * fm::at_r<0>(xr)), want, fn + ":wrong:static_rowview", "A*x (x a matrix row view)");
  if constexpr (tall_left_ok(R, C))
    C14_EQ(rd(A.s * xc).d, want, fn + ":law:column_matrix", "A*x vs A*(Cx1 matrix)");
  // component i = dot(row_i(A), x)
  static_for<R>([&](auto ri) {
    constexpr sz r = decltype(ri)::value;
    C14_EQ(static_cast<long>(fv::dot(fm::at_r<r>(A.s), sx)), want[r], fn + ":law:row_dot", "dot(row_r(A), x)");
  });
}
template <sz R, sz C> void matvec_all(std::vector<op<R, C>> const &fam, std::vector<rvec<C>> const &xs)
{
  std::vector<svec<C>> sx;
  std::vector<buf<C>> bx;
  for (auto const &x : xs)
  {
    sx.push_back(mk_sv<svec<C>>(x));
    bx.emplace_back(x);
  }
  for (auto const &A : fam)
  {
    if (vrt::out_of_time())
      return;
    for (std::size_t i = 0; i < xs.size(); ++i)
      matvec_case<R, C>(A, xs[i], sx[i], bx[i].vec());
  }
}
// (A*B)*x = A*(B*x); A*(x+y) = A*x + A*y; A*(k*x) = k*(A*x)
template <sz R, sz K, sz C>
void matvec_laws(std::vector<op<R, K>> const &fa, std::vector<op<K, C>> const &fb, std::vector<rvec<C>> const &xs, unsigned part, unsigned nparts)
{
  static_assert(tall_left_ok(R, K), "tall-left products belong to the binary C14b");
  static std::string const fn = "matrix_vector_laws<" + shape(R, K) + "." + shape(K, C) + ">";
  std::vector<svec<C>> sx;
  for (auto const &x : xs)
    sx.push_back(mk_sv<svec<C>>(x));
  std::size_t ai = 0;
  for (auto const &A : fa)
  {
    if (ai++ % nparts != part)
      continue;
    if (vrt::out_of_time())
      return;
    for (auto const &B : fb)
    {
      auto const ab = A.s * B.s;
      std::string const pre = fn + " A=" + show(A.r) + " B=" + show(B.r) + " x=";
      for (std::size_t i = 0; i < xs.size(); ++i)
      {
        if (!vrt::begin_text(fn.c_str(), pre + show(xs[i])))
          continue;
        vrt::nontrivial(!rmzero(A.r) && !rmzero(B.r) && !rvzero(xs[i]));
        vrt::maybe_sample();
        auto const l = ab * sx[i];
        auto const r = A.s * (B.s * sx[i]);
        if (!(l == r))
          failv(fn + ":law:product_then_vector", "(A*B)*x=" + show(rdv(l)) + " A*(B*x)=" + show(rdv(r)));
        C14_EQ(rdv(l), rmulvec(A.r, rmulvec(B.r, xs[i])), fn + ":reference", "(A*B)*x");
        // linearity of B in x, against the neighbour vector in the enumeration
        svec<C> const &y = sx[(i + 1) % xs.size()];
        C14_TRUE(B.s * (sx[i] + y) == B.s * sx[i] + B.s * y, fn + ":law:additive", "B*(x+y) != B*x+B*y");
        C14_TRUE(B.s * (3 * sx[i]) == 3 * (B.s * sx[i]), fn + ":law:homogeneous", "B*(3x) != 3(B*x)");
      }
    }
  }
}

// ------------------------------------------------------------------ drivers over families
template <sz R, sz C> void shape_unary_all(std::vector<op<R, C>> const &fam, std::vector<long> const &scalars)
{
  if constexpr (int_writes_ok)
    write_access_case<R, C>();
  for (auto const &A : fam)
  {
    if (vrt::out_of_time())
      return;
    std::string const text = show(A.r);
    access_case<R, C>(text, A, rnnz(A.r) >= 1);
    shape_unary_case<R, C>(text, A, scalars);
  }
}
template <sz N> void square_unary_all(std::vector<op<N, N>> const &fam, unsigned part = 0, unsigned nparts = 1)
{
  std::size_t i = 0;
  for (auto const &A : fam)
  {
    if (i++ % nparts != part)
      continue;
    if (vrt::out_of_time())
      return;
    square_unary_case<N>(show(A.r), A);
  }
}
template <sz R, sz C> void sum_pairs_all(std::vector<op<R, C>> const &fam, unsigned part, unsigned nparts)
{
  std::size_t i = 0;
  for (auto const &A : fam)
  {
    if (i++ % nparts != part)
      continue;
    if (vrt::out_of_time())
      return;
    std::string const ta = "A=" + show(A.r) + " B=";
    for (auto const &B : fam)
      sum_pair_case<R, C>(ta + show(B.r), A, B);
  }
}
template <sz R, sz K, sz C>
void product_pairs_all(std::vector<op<R, K>> const &fa, std::vector<op<K, C>> const &fb, unsigned part, unsigned nparts)
{
  std::size_t i = 0;
  for (auto const &A : fa)
  {
    if (i++ % nparts != part)
      continue;
    if (vrt::out_of_time())
      return;
    std::string const ta = "A=" + show(A.r) + " B=";
    for (auto const &B : fb)
      product_pair_case<R, K, C>(ta + show(B.r), A, B);
  }
}
template <sz N> void square_pairs_all(std::vector<op<N, N>> const &fam, unsigned part, unsigned nparts)
{
  std::size_t i = 0;
  for (auto const &A : fam)
  {
    if (i++ % nparts != part)
      continue;
    if (vrt::out_of_time())
      return;
    std::string const ta = "A=" + show(A.r) + " B=";
    for (auto const &B : fam)
      square_pair_case<N>(ta + show(B.r), A, B);
  }
}
}

// C08, part 6: value categories.  Every function that takes several grids, or a grid and a function (apply with 2
// and 3 grids, map, resize, fill), is called with every combination of {const&, &, &&} per grid argument, with an
// instrumented cell type (a move leaves an observable moved-from marker behind) and with functions that take
// their parameters by value, by const&, by && (all-rvalue calls only) or through an observer that records the value
// category it was given and consumes rvalues.  Oracle: results equal the cell-wise model r[p] = f(g1[p],...,gn[p]);
// grids passed as lvalues are unchanged afterwards (no cell moved from) and their cells are never handed to the
// function as rvalues; grids passed as rvalues may be left in any state; the same lvalue grid passed twice gives
// f(c[p], c[p]).  2-D grids, all sizes 0..3 x 0..3 (the value-category logic does not depend on N).
#include <C08_common.hpp>

#include <fcppt/container/grid/apply.hpp>
#include <fcppt/container/grid/fill.hpp>
#include <fcppt/container/grid/map.hpp>
#include <fcppt/container/grid/object.hpp>
#include <fcppt/container/grid/resize.hpp>

#include <utility>

namespace c08
{
namespace
{
using S = std::size_t;
constexpr std::size_t N = 2;
constexpr int MOVED = -777;

struct cell
{
  int v;
  explicit cell(int x) : v(x) {}
  cell(cell const &o) : v(o.v) {}
  cell(cell &&o) noexcept : v(o.v) { o.v = MOVED; }
  cell &operator=(cell const &o)
  {
    v = o.v;
    return *this;
  }
  cell &operator=(cell &&o) noexcept
  {
    if (this != &o)
    {
      v = o.v;
      o.v = MOVED;
    }
    return *this;
  }
  ~cell() = default;
};

// which value category the function was handed for argument i (bit i set: an rvalue was seen)
unsigned rvalue_seen = 0;

// records the category it is constructed from and consumes rvalues like a by-value parameter would
struct observer
{
  int v;
  bool rvalue;
  observer(cell const &c) : v(c.v), rvalue(false) {}
  observer(cell &c) : v(c.v), rvalue(false) {}
  observer(cell &&c) : v(c.v), rvalue(true) { c.v = MOVED; }
};

// parameter kinds: 0 by value, 1 by const&, 2 observer, 3 by && (only where every grid argument is an rvalue)
template <int K> struct param;
template <> struct param<0>
{
  using type = cell;
};
template <> struct param<1>
{
  using type = cell const &;
};
template <> struct param<2>
{
  using type = observer;
};
template <> struct param<3>
{
  using type = cell &&;
};
char const *const kind_names[4] = {"by_value", "by_cref", "observer", "by_rref"};
char const *const cat_names[3] = {"const&", "&", "&&"};

inline long val(cell const &c) { return c.v; }
inline long val(observer const &o) { return o.v; }
template <int I> inline void note(cell const &) {}
template <int I> inline void note(observer const &o)
{
  if (o.rvalue)
    rvalue_seen |= 1U << I;
}

std::size_t calls = 0;
inline long comb(long a, long b) { return a * 100000L + b; }
inline long comb(long a, long b, long c) { return (a * 100000L + b) * 100000L + c; }

template <int K1, int K2> struct f2
{
  long operator()(typename param<K1>::type a, typename param<K2>::type b) const
  {
    ++calls;
    note<0>(a);
    note<1>(b);
    return comb(val(a), val(b));
  }
};
template <int K1, int K2, int K3> struct f3
{
  long operator()(typename param<K1>::type a, typename param<K2>::type b, typename param<K3>::type c) const
  {
    ++calls;
    note<0>(a);
    note<1>(b);
    note<2>(c);
    return comb(val(a), val(b), val(c));
  }
};
template <int K> struct f1
{
  long operator()(typename param<K>::type a) const
  {
    ++calls;
    note<0>(a);
    return 7L * val(a) + 1L;
  }
};

using cgrid_t = g::object<cell, N>;
using lgrid_t = g::object<long, N>;

cgrid_t make(A3 const &sz, int tag)
{
  return cgrid_t(mkdim<S, N>(sz), [tag](cgrid_t::pos const &p) { return cell(tag + enc(comps<N>(p, 0))); });
}

// pass a grid with value category C: 0 const&, 1 &, 2 &&
template <int C> decltype(auto) as(cgrid_t &x)
{
  if constexpr (C == 0)
    return static_cast<cgrid_t const &>(x);
  else if constexpr (C == 1)
    return static_cast<cgrid_t &>(x);
  else
    return static_cast<cgrid_t &&>(x);
}

// a grid that was passed as an lvalue must still hold tag + enc(p) everywhere
void check_unchanged(cgrid_t const &x, A3 const &sz, int tag, std::string const &sig)
{
  std::vector<A3> const ref = ref_range(N, A3{0, 0, 0}, sz);
  if (comps<N>(x.size(), 1) != sz || static_cast<std::size_t>(x.end() - x.begin()) != ref.size())
  {
    vrt::fail(sig + ":size_changed", "lvalue grid changed its size");
    return;
  }
  for (std::size_t k = 0; k < ref.size(); ++k)
  {
    int const got = (x.begin() + static_cast<std::ptrdiff_t>(k))->v;
    if (got == MOVED)
    {
      vrt::fail(sig + ":moved_from", "cell " + show(N, ref[k]) + " of a grid passed as lvalue was moved from");
      return;
    }
    if (got != tag + enc(ref[k]))
    {
      vrt::fail(sig + ":changed", vrt::fmt("cell %s of a grid passed as lvalue is %d, was %d", show(N, ref[k]).c_str(),
                                           got, tag + enc(ref[k])));
      return;
    }
  }
}

template <class Want> void check_result(lgrid_t const &r, A3 const &sz, std::string const &sig, Want const &want)
{
  std::vector<A3> const ref = ref_range(N, A3{0, 0, 0}, sz);
  if (comps<N>(r.size(), 1) != sz || static_cast<std::size_t>(r.end() - r.begin()) != ref.size())
  {
    vrt::fail(sig + ":size", "result has size " + show(N, comps<N>(r.size(), 1)) + ", want " + show(N, sz));
    return;
  }
  for (std::size_t k = 0; k < ref.size(); ++k)
  {
    long const got = *(r.begin() + static_cast<std::ptrdiff_t>(k));
    long const w = want(ref[k]);
    if (got != w)
    {
      vrt::fail(sig + ":cell", vrt::fmt("cell %s = %ld, want %ld (a moved-from cell reads %d)", show(N, ref[k]).c_str(), got, w, MOVED));
      return;
    }
  }
}

void check_empty(lgrid_t const &r, std::string const &sig)
{
  VRT_CHECK(r.empty() && r.content() == 0 && r.begin() == r.end(), sig + ":not_empty",
            "different sizes gave a grid with %zu cells", static_cast<std::size_t>(r.end() - r.begin()));
  info_check(calls == 0, sig + ":calls_on_mismatch"); // only "the result is an empty grid" is documented
}

std::vector<A3> sizes() { return tuples(N, 0, 3, 1); }

// ---------------------------------------------------------------- apply, two grids
// ALIAS: the second argument is the same object as the first (both lvalues)
template <int C1, int K1, int C2, int K2, bool ALIAS> void apply2_combo()
{
  static std::string const fn = std::string("apply2_cat") + (ALIAS ? "_same_grid" : "");
  static std::string const sig = fn + ":" + cat_names[C1] + "," + cat_names[C2] + ":" + kind_names[K1] + "," + kind_names[K2];
  for (A3 const &sa : sizes())
    for (A3 const &sb : sizes())
    {
      if (ALIAS && sa != sb)
        continue;
      if (!vrt::begin_text(fn.c_str(), fn + " grids=(" + cat_names[C1] + "," + cat_names[C2] + ") params=(" +
                                           kind_names[K1] + "," + kind_names[K2] + ") size1=" + show(N, sa) +
                                           (ALIAS ? std::string() : " size2=" + show(N, sb))))
        continue;
      vrt::nontrivial(sa == sb && product(N, sa) >= 1 && (C1 == 2 || C2 == 2 || ALIAS));
      vrt::maybe_sample();
      cgrid_t a = make(sa, 1000);
      cgrid_t b = make(sb, 2000);
      calls = 0;
      rvalue_seen = 0;
      if constexpr (ALIAS)
      {
        lgrid_t const r = g::apply(f2<K1, K2>{}, as<C1>(a), as<C2>(a));
        check_result(r, sa, sig, [](A3 const &p) { return comb(1000 + enc(p), 1000 + enc(p)); });
        check_unchanged(a, sa, 1000, sig + ":lvalue");
        VRT_CHECK(rvalue_seen == 0, sig + ":lvalue_cell_passed_as_rvalue", "argument mask %u", rvalue_seen);
      }
      else
      {
        lgrid_t const r = g::apply(f2<K1, K2>{}, as<C1>(a), as<C2>(b));
        if (sa == sb)
        {
          check_result(r, sa, sig, [](A3 const &p) { return comb(1000 + enc(p), 2000 + enc(p)); });
          info_check(calls == static_cast<std::size_t>(product(N, sa)), sig + ":calls"); // not documented
        }
        else
          check_empty(r, sig);
        unsigned const lvalue_mask = (C1 != 2 ? 1U : 0U) | (C2 != 2 ? 2U : 0U);
        if (C1 != 2)
          check_unchanged(a, sa, 1000, sig + ":lvalue1");
        if (C2 != 2)
          check_unchanged(b, sb, 2000, sig + ":lvalue2");
        VRT_CHECK((rvalue_seen & lvalue_mask) == 0, sig + ":lvalue_cell_passed_as_rvalue",
                  "cells of lvalue grid argument(s) (mask %u) reached the function as rvalues", rvalue_seen & lvalue_mask);
      }
    }
}

template <int C1, int K1, int C2> void apply2_k2()
{
  apply2_combo<C1, K1, C2, 0, false>();
  apply2_combo<C1, K1, C2, 1, false>();
  apply2_combo<C1, K1, C2, 2, false>();
  if constexpr (C1 != 2 && C2 != 2)
  {
    apply2_combo<C1, K1, C2, 0, true>();
    apply2_combo<C1, K1, C2, 1, true>();
    apply2_combo<C1, K1, C2, 2, true>();
  }
}
template <int C1, int K1> void apply2_c2()
{
  apply2_k2<C1, K1, 0>();
  apply2_k2<C1, K1, 1>();
  apply2_k2<C1, K1, 2>();
}
template <int C1> void apply2_c1()
{
  apply2_c2<C1, 0>();
  apply2_c2<C1, 1>();
  apply2_c2<C1, 2>();
  if constexpr (C1 == 2)
    apply2_combo<2, 3, 2, 3, false>();
}

// ---------------------------------------------------------------- apply, three grids
// one parameter kind for all three; SAME23: the second and third argument are the same lvalue grid
template <int C1, int C2, int C3, int K, bool SAME23> void apply3_combo()
{
  static std::string const fn = std::string("apply3_cat") + (SAME23 ? "_same_grid" : "");
  static std::string const sig =
      fn + ":" + cat_names[C1] + "," + cat_names[C2] + "," + cat_names[C3] + ":" + kind_names[K];
  for (A3 const &sz : sizes())
    for (int variant = 0; variant < (SAME23 ? 1 : 3); ++variant) // 0: equal sizes, 1: second differs, 2: third differs
    {
      A3 const other{sz[0] + 1, sz[1], 1};
      A3 const sb = variant == 1 ? other : sz, sc = variant == 2 ? other : sz;
      if (!vrt::begin_text(fn.c_str(), fn + " grids=(" + cat_names[C1] + "," + cat_names[C2] + "," + cat_names[C3] +
                                           ") params=" + kind_names[K] + " sizes=" + show(N, sz) + show(N, sb) +
                                           show(N, sc)))
        continue;
      vrt::nontrivial(variant == 0 && product(N, sz) >= 1 && (C1 == 2 || C2 == 2 || C3 == 2 || SAME23));
      vrt::maybe_sample();
      cgrid_t a = make(sz, 1000);
      cgrid_t b = make(sb, 2000);
      cgrid_t c = make(sc, 3000);
      calls = 0;
      rvalue_seen = 0;
      if constexpr (SAME23)
      {
        lgrid_t const r = g::apply(f3<K, K, K>{}, as<C1>(a), as<C2>(b), as<C3>(b));
        check_result(r, sz, sig, [](A3 const &p) { return comb(1000 + enc(p), 2000 + enc(p), 2000 + enc(p)); });
        if (C1 != 2)
          check_unchanged(a, sz, 1000, sig + ":lvalue1");
        check_unchanged(b, sz, 2000, sig + ":lvalue23");
        VRT_CHECK((rvalue_seen & (6U | (C1 != 2 ? 1U : 0U))) == 0, sig + ":lvalue_cell_passed_as_rvalue",
                  "argument mask %u", rvalue_seen);
      }
      else
      {
        lgrid_t const r = g::apply(f3<K, K, K>{}, as<C1>(a), as<C2>(b), as<C3>(c));
        if (variant == 0)
          check_result(r, sz, sig, [](A3 const &p) { return comb(1000 + enc(p), 2000 + enc(p), 3000 + enc(p)); });
        else
          check_empty(r, sig);
        unsigned const lvalue_mask = (C1 != 2 ? 1U : 0U) | (C2 != 2 ? 2U : 0U) | (C3 != 2 ? 4U : 0U);
        if (C1 != 2)
          check_unchanged(a, sz, 1000, sig + ":lvalue1");
        if (C2 != 2)
          check_unchanged(b, sb, 2000, sig + ":lvalue2");
        if (C3 != 2)
          check_unchanged(c, sc, 3000, sig + ":lvalue3");
        VRT_CHECK((rvalue_seen & lvalue_mask) == 0, sig + ":lvalue_cell_passed_as_rvalue",
                  "cells of lvalue grid argument(s) (mask %u) reached the function as rvalues", rvalue_seen & lvalue_mask);
      }
    }
}
template <int C1, int C2, int C3> void apply3_k()
{
  apply3_combo<C1, C2, C3, 0, false>();
  apply3_combo<C1, C2, C3, 1, false>();
  apply3_combo<C1, C2, C3, 2, false>();
  if constexpr (C1 == 2 && C2 == 2 && C3 == 2)
    apply3_combo<2, 2, 2, 3, false>();
  if constexpr (C2 != 2 && C3 != 2)
  {
    apply3_combo<C1, C2, C3, 0, true>();
    apply3_combo<C1, C2, C3, 1, true>();
    apply3_combo<C1, C2, C3, 2, true>();
  }
}
template <int C1, int C2> void apply3_c3()
{
  apply3_k<C1, C2, 0>();
  apply3_k<C1, C2, 1>();
  apply3_k<C1, C2, 2>();
}
template <int C1> void apply3_c2()
{
  apply3_c3<C1, 0>();
  apply3_c3<C1, 1>();
  apply3_c3<C1, 2>();
}

// ---------------------------------------------------------------- map
template <int C, int K> void map_combo()
{
  static std::string const fn = "map_cat";
  static std::string const sig = fn + ":" + cat_names[C] + ":" + kind_names[K];
  for (A3 const &sz : sizes())
  {
    if (!vrt::begin_text(fn.c_str(), fn + " grid=" + cat_names[C] + " param=" + kind_names[K] + " size=" + show(N, sz)))
      continue;
    vrt::nontrivial(product(N, sz) >= 1);
    vrt::maybe_sample();
    cgrid_t a = make(sz, 1000);
    calls = 0;
    rvalue_seen = 0;
    lgrid_t const r = g::map(as<C>(a), f1<K>{});
    check_result(r, sz, sig, [](A3 const &p) { return 7L * (1000 + enc(p)) + 1L; });
    info_check(calls == static_cast<std::size_t>(product(N, sz)), sig + ":calls"); // number of invocations is not documented
    if (C != 2)
    {
      check_unchanged(a, sz, 1000, sig + ":lvalue");
      VRT_CHECK(rvalue_seen == 0, sig + ":lvalue_cell_passed_as_rvalue", "cells of an lvalue grid reached the function as rvalues");
    }
  }
}

// ---------------------------------------------------------------- resize
template <int C> void resize_combo()
{
  static std::string const fn = "resize_cat";
  static std::string const sig = fn + ":" + cat_names[C];
  for (A3 const &old_sz : sizes())
    for (A3 const &new_sz : sizes())
    {
      if (!vrt::begin_text(fn.c_str(), fn + " grid=" + cat_names[C] + " old=" + show(N, old_sz) + " new=" + show(N, new_sz)))
        continue;
      std::vector<A3> const ref = ref_range(N, A3{0, 0, 0}, new_sz);
      std::size_t kept = 0;
      for (A3 const &p : ref)
        kept += ref_in_range(N, old_sz, p) ? 1U : 0U;
      vrt::nontrivial(kept > 0);
      vrt::maybe_sample();
      cgrid_t a = make(old_sz, 1000);
      cgrid_t const r = g::resize(as<C>(a), mkdim<S, N>(new_sz),
                                  [](cgrid_t::pos const &p) { return cell(5000 + enc(comps<N>(p, 0))); });
      if (comps<N>(r.size(), 1) != new_sz || static_cast<std::size_t>(r.end() - r.begin()) != ref.size())
        vrt::fail(sig + ":size", "result has size " + show(N, comps<N>(r.size(), 1)) + ", want " + show(N, new_sz));
      else
        for (std::size_t k = 0; k < ref.size(); ++k)
        {
          int const got = (r.begin() + static_cast<std::ptrdiff_t>(k))->v;
          int const want = ref_in_range(N, old_sz, ref[k]) ? 1000 + enc(ref[k]) : 5000 + enc(ref[k]);
          if (got != want)
          {
            vrt::fail(sig + ":cell", vrt::fmt("cell %s = %d, want %d%s", show(N, ref[k]).c_str(), got, want,
                                              got == MOVED ? " (moved-from)" : ""));
            break;
          }
        }
      if (C != 2)
        check_unchanged(a, old_sz, 1000, sig + ":lvalue");
    }
}

// ---------------------------------------------------------------- fill
struct fill_by_value
{
  cell operator()(cgrid_t::pos p) const
  {
    ++calls;
    return cell(6000 + enc(comps<N>(p, 0)));
  }
};
struct fill_by_cref
{
  cell operator()(cgrid_t::pos const &p) const
  {
    ++calls;
    return cell(6000 + enc(comps<N>(p, 0)));
  }
};
// returns a reference to a cell it owns: fill must copy, not move from it
struct fill_returning_ref
{
  cell *store;
  cell const &operator()(cgrid_t::pos const &p) const
  {
    ++calls;
    store->v = 6000 + enc(comps<N>(p, 0));
    return *store;
  }
};

template <class F> void fill_combo(char const *kind, F const &f)
{
  static std::string const fn = "fill_cat";
  std::string const sig = fn + ":" + kind;
  for (A3 const &sz : sizes())
  {
    if (!vrt::begin_text(fn.c_str(), fn + " function=" + kind + " size=" + show(N, sz)))
      continue;
    vrt::nontrivial(product(N, sz) >= 1);
    cgrid_t a = make(sz, 1000);
    calls = 0;
    g::fill(a, f);
    check_unchanged(a, sz, 6000, sig);
    info_check(calls == static_cast<std::size_t>(product(N, sz)), sig + ":calls"); // number of invocations is not documented
  }
}
}

void register_cat_shards()
{
  vrt::shard("apply2_cat/const&", [] { apply2_c1<0>(); });
  vrt::shard("apply2_cat/&", [] { apply2_c1<1>(); });
  vrt::shard("apply2_cat/&&", [] { apply2_c1<2>(); });
  vrt::shard("apply3_cat/const&", [] { apply3_c2<0>(); });
  vrt::shard("apply3_cat/&", [] { apply3_c2<1>(); });
  vrt::shard("apply3_cat/&&", [] { apply3_c2<2>(); });
  vrt::shard("map_resize_fill_cat", [] {
    map_combo<0, 0>();
    map_combo<0, 1>();
    map_combo<0, 2>();
    map_combo<1, 0>();
    map_combo<1, 1>();
    map_combo<1, 2>();
    map_combo<2, 0>();
    map_combo<2, 1>();
    map_combo<2, 2>();
    map_combo<2, 3>();
    resize_combo<0>();
    resize_combo<1>();
    resize_combo<2>();
    fill_combo("by_value", fill_by_value{});
    fill_combo("by_cref", fill_by_cref{});
    cell store(0);
    fill_combo("returning_cref", fill_returning_ref{&store});
  });
}
}

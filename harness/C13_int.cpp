// C13: instantiations for T = int, N = 1,2,3
#include <C13_impl.hpp>
void c13::reg_int()
{
  c13::reg_full<int>();
  c13::reg_callbacks<int>(); // init_max / init_dim with counting, stream-like and throwing callbacks
}

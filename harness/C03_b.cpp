// C03: second half of the shape family (optional, many, sum, commands, base, parse_help)
#include "C03_common.hpp"

namespace c03
{
#define SHAPE(NAME, PARSER, DESC, ALPHA)                                                       \
  vrt::shard("shape/" NAME, [] {                                                               \
    auto const parser{PARSER};                                                                 \
    run_shape(NAME, parser, DESC, ALPHA, maxlen());                                            \
    run_shape(NAME "+extended_names", parser, DESC, extended_names(ALPHA), 3);                 \
  }, 120)

void register_b()
{
  SHAPE("optional_arg", (o::make_optional(arg<la, int>("a"))), S_optional(S_arg("la", "a", vt::int_)), alpha({"3"}));
  SHAPE("optional_option", (o::make_optional(op<la, int>("o", "opt"))), S_optional(S_option("la", "o", "opt", vt::int_, std::nullopt)),
        alpha({"-o", "--opt"}));
  // optional / many around a product (finding F8)
  SHAPE("optional_product", (o::make_optional(o::apply(arg<la, std::string>("a"), arg<lb, std::string>("b")))),
        S_optional(S_product({S_arg("la", "a", vt::string_), S_arg("lb", "b", vt::string_)})), alpha({"y"}));
  SHAPE("optional_product_then_arg", (o::apply(o::make_optional(o::apply(arg<la, int>("a"), arg<lb, int>("b"))), arg<lc, std::string>("c"))),
        S_product({S_optional(S_product({S_arg("la", "a", vt::int_), S_arg("lb", "b", vt::int_)})), S_arg("lc", "c", vt::string_)}), alpha({"3"}));
  SHAPE("many_arg", (o::make_many(arg<la, int>("a"))), S_many(S_arg("la", "a", vt::int_)), alpha({"3"}));
  SHAPE("many_product", (o::make_many(o::apply(arg<la, std::string>("a"), arg<lb, std::string>("b")))),
        S_many(S_product({S_arg("la", "a", vt::string_), S_arg("lb", "b", vt::string_)})), alpha({"y"}));
  SHAPE("many_option", (o::make_many(op<la, std::string>("o", "opt"))), S_many(S_option("la", "o", "opt", vt::string_, std::nullopt)),
        alpha({"-o", "--opt"}));
  SHAPE("many_option_arg_product", (o::make_many(o::apply(op<la, int>("o", "opt"), arg<lb, std::string>("b")))),
        S_many(S_product({S_option("la", "o", "opt", vt::int_, std::nullopt), S_arg("lb", "b", vt::string_)})), alpha({"-o", "--opt"}));
  SHAPE("product_many_switch", (o::apply(o::make_many(arg<la, std::string>("a")), sw<lb>("f", "flag"))),
        S_product({S_many(S_arg("la", "a", vt::string_)), S_switch("lb", "f", "flag")}), alpha({"-f", "--flag"}));
  SHAPE("product_arg_many", (o::apply(arg<la, int>("a"), o::make_many(arg<lb, std::string>("b")))),
        S_product({S_arg("la", "a", vt::int_), S_many(S_arg("lb", "b", vt::string_))}), alpha({"3"}));
  SHAPE("product_optional_option", (o::apply(o::make_optional(arg<la, int>("a")), opd<lb, int>("o", "opt", 9))),
        S_product({S_optional(S_arg("la", "a", vt::int_)), S_option("lb", "o", "opt", vt::int_, "9")}), alpha({"-o", "--opt", "3"}));
  SHAPE("optional_many", (o::make_optional(o::make_many(arg<la, int>("a")))), S_optional(S_many(S_arg("la", "a", vt::int_))), alpha({"3"}));
  SHAPE("sum_arg_arg", (o::make_sum<ls>(arg<la, int>("a"), arg<lb, std::string>("b"))),
        S_sum("ls", S_arg("la", "a", vt::int_), S_arg("lb", "b", vt::string_)), alpha({"3"}));
  SHAPE("sum_unit_switch_arg", (o::make_sum<ls>(usw<la>(nullptr, "help"), arg<lb, int>("b"))),
        S_sum("ls", S_unit_switch("la", std::nullopt, "help"), S_arg("lb", "b", vt::int_)), alpha({"--help", "3"}));
  // unit inside compositions: it succeeds only on an empty remaining state and consumes nothing, so as the left part of a
  // sum or product the right part only ever sees an empty state, and as the right part it demands that everything is gone
  SHAPE("sum_unit_arg", (o::make_sum<ls>(o::unit<la>{}, arg<lb, int>("b"))), S_sum("ls", S_unit("la"), S_arg("lb", "b", vt::int_)), alpha({"3"}));
  SHAPE("sum_arg_unit", (o::make_sum<ls>(arg<lb, int>("b"), o::unit<la>{})), S_sum("ls", S_arg("lb", "b", vt::int_), S_unit("la")), alpha({"3"}));
  SHAPE("product_unit_switch", (o::apply(o::unit<la>{}, sw<lb>("f", "flag"))), S_product({S_unit("la"), S_switch("lb", "f", "flag")}),
        alpha({"-f", "--flag"}));
  SHAPE("product_switch_unit", (o::apply(sw<lb>("f", "flag"), o::unit<la>{})), S_product({S_switch("lb", "f", "flag"), S_unit("la")}),
        alpha({"-f", "--flag"}));
  SHAPE("product_unit_optional_arg", (o::apply(o::unit<la>{}, o::make_optional(arg<lb, int>("b")))),
        S_product({S_unit("la"), S_optional(S_arg("lb", "b", vt::int_))}), alpha({"3"}));
  SHAPE("optional_unit", (o::make_optional(o::unit<la>{})), S_optional(S_unit("la")), alpha({"3"}));
  // every leaf kind in every composition position it was not yet seen in
  SHAPE("optional_switch", (o::make_optional(sw<la>("f", "flag"))), S_optional(S_switch("la", "f", "flag")), alpha({"-f", "--flag"}));
  SHAPE("optional_flag", (o::make_optional(fl<la, int>("f", "flag", 42, 10))), S_optional(S_flag("la", "f", "flag", "42", "10")), alpha({"-f", "--flag"}));
  SHAPE("optional_unit_switch", (o::make_optional(usw<la>("u", "unit"))), S_optional(S_unit_switch("la", "u", "unit")), alpha({"-u", "--unit"}));
  SHAPE("many_unit_switch", (o::make_many(usw<la>("u", "unit"))), S_many(S_unit_switch("la", "u", "unit")), alpha({"-u", "--unit"}));
  SHAPE("product_flag_arg", (o::apply(fl<la, int>("f", "flag", 42, 10), arg<lb, std::string>("b"))),
        S_product({S_flag("la", "f", "flag", "42", "10"), S_arg("lb", "b", vt::string_)}), alpha({"-f", "--flag"}));
  SHAPE("product_arg_flag", (o::apply(arg<lb, std::string>("b"), fl<la, int>("f", "flag", 42, 10))),
        S_product({S_arg("lb", "b", vt::string_), S_flag("la", "f", "flag", "42", "10")}), alpha({"-f", "--flag"}));
  SHAPE("product_usw_arg", (o::apply(usw<la>("u", "unit"), arg<lb, std::string>("b"))),
        S_product({S_unit_switch("la", "u", "unit"), S_arg("lb", "b", vt::string_)}), alpha({"-u", "--unit"}));
  SHAPE("product_arg_usw", (o::apply(arg<lb, std::string>("b"), usw<la>("u", "unit"))),
        S_product({S_arg("lb", "b", vt::string_), S_unit_switch("la", "u", "unit")}), alpha({"-u", "--unit"}));
  SHAPE("sum_switch_arg", (o::make_sum<ls>(sw<la>("f", "flag"), arg<lb, int>("b"))), S_sum("ls", S_switch("la", "f", "flag"), S_arg("lb", "b", vt::int_)),
        alpha({"-f", "--flag", "3"}));
  SHAPE("sum_arg_switch", (o::make_sum<ls>(arg<lb, int>("b"), sw<la>("f", "flag"))), S_sum("ls", S_arg("lb", "b", vt::int_), S_switch("la", "f", "flag")),
        alpha({"-f", "--flag", "3"}));
  SHAPE("sum_arg_flag", (o::make_sum<ls>(arg<lb, int>("b"), fl<la, int>("f", "flag", 42, 10))),
        S_sum("ls", S_arg("lb", "b", vt::int_), S_flag("la", "f", "flag", "42", "10")), alpha({"-f", "--flag", "3"}));
  SHAPE("sum_option_arg", (o::make_sum<ls>(op<la, int>("o", "opt"), arg<lb, std::string>("b"))),
        S_sum("ls", S_option("la", "o", "opt", vt::int_, std::nullopt), S_arg("lb", "b", vt::string_)), alpha({"-o", "--opt", "3"}));
  SHAPE("sum_arg_option", (o::make_sum<ls>(arg<lb, int>("b"), op<la, std::string>("o", "opt"))),
        S_sum("ls", S_arg("lb", "b", vt::int_), S_option("la", "o", "opt", vt::string_, std::nullopt)), alpha({"-o", "--opt", "3"}));
  SHAPE("sum_usw_usw", (o::make_sum<ls>(usw<la>("u", "unit"), usw<lb>("v", "vnit"))),
        S_sum("ls", S_unit_switch("la", "u", "unit"), S_unit_switch("lb", "v", "vnit")), alpha({"-u", "--unit", "-v", "--vnit"}));
  SHAPE("sum_product_arg", (o::make_sum<ls>(o::apply(arg<la, int>("a"), arg<lb, int>("b")), arg<lc, std::string>("c"))),
        S_sum("ls", S_product({S_arg("la", "a", vt::int_), S_arg("lb", "b", vt::int_)}), S_arg("lc", "c", vt::string_)), alpha({"3"}));
  SHAPE("sum_option_option", (o::make_sum<ls>(op<la, int>("o", "opt"), op<lb, std::string>("p", "pp"))),
        S_sum("ls", S_option("la", "o", "opt", vt::int_, std::nullopt), S_option("lb", "p", "pp", vt::string_, std::nullopt)),
        alpha({"-o", "--opt", "--pp"}));
  SHAPE("optional_sum", (o::make_optional(o::make_sum<ls>(usw<la>("h", "help"), arg<lb, int>("b")))),
        S_optional(S_sum("ls", S_unit_switch("la", "h", "help"), S_arg("lb", "b", vt::int_))), alpha({"-h", "--help", "3"}));
  SHAPE("commands_basic",
        (o::make_commands(o::make_optional(op<la, std::string>("g", "git-dir")),
                          o::make_sub_command<tx>("clone", arg<lb, std::string>("path"), o::optional_help_text{}),
                          o::make_sub_command<ty>("pull", o::unit<lc>{}, o::optional_help_text{}))),
        S_commands(S_optional(S_option("la", "g", "git-dir", vt::string_, std::nullopt)),
                   {{"clone", "tx", S_arg("lb", "path", vt::string_)}, {"pull", "ty", S_unit("lc")}}),
        alpha({"-g", "--git-dir", "clone", "pull"}));
  SHAPE("commands_switch_many",
        (o::make_commands(sw<la>("v", "verbose"), o::make_sub_command<tx>("x", o::make_many(arg<lb, int>("n")), o::optional_help_text{}),
                          o::make_sub_command<ty>("y", o::apply(opd<lc, int>("o", "opt", 0), arg<ld, std::string>("d")), o::optional_help_text{}))),
        S_commands(S_switch("la", "v", "verbose"),
                   {{"x", "tx", S_many(S_arg("lb", "n", vt::int_))},
                    {"y", "ty", S_product({S_option("lc", "o", "opt", vt::int_, "0"), S_arg("ld", "d", vt::string_)})}}),
        // "x" is both a foreign word of the common alphabet and a sub-command name here
        alpha({"-v", "--verbose", "y", "-o", "3"}));
  // type erasure through options::base
  vrt::shard("shape/base_product", [] {
    using result_type = o::result_of<decltype(o::apply(arg<la, int>("a"), sw<lb>("f", "flag")))>;
    o::base_unique_ptr<result_type> const parser{o::make_base<result_type>(o::apply(arg<la, int>("a"), sw<lb>("f", "flag")))};
    run_shape("base_product", parser, S_product({S_arg("la", "a", vt::int_), S_switch("lb", "f", "flag")}), alpha({"-f", "--flag", "3"}), maxlen());
  }, 120);
  vrt::shard("shape/base_in_product", [] {
    using inner_type = o::result_of<decltype(o::make_optional(arg<la, int>("a")))>;
    auto const parser{o::apply(o::make_base<inner_type>(o::make_optional(arg<la, int>("a"))), op<lb, std::string>("o", "opt"))};
    run_shape("base_in_product", parser, S_product({S_optional(S_arg("la", "a", vt::int_)), S_option("lb", "o", "opt", vt::string_, std::nullopt)}),
              alpha({"-o", "--opt", "3"}), maxlen());
  }, 120);
  // parse_help = sum(help switch, parser) parsed to empty; left => usage text.  Run with the default help switch
  // (--help only) and with user-built help switches that have a short name or other names.
  vrt::shard("shape/parse_help", [] {
    struct hs
    {
      char const *tag;
      std::optional<std::string> shortn;
      std::string longn;
    };
    for (hs const &h : {hs{"default", std::nullopt, "help"}, hs{"short_and_long", std::string("h"), "help"}, hs{"other_names", std::string("u"), "usage"}})
    {
    auto const parser{o::apply(arg<la, int>("a"), sw<lb>("f", "flag"))};
    shape_ptr const desc = S_sum("label", S_unit_switch("help", h.shortn, h.longn), S_product({S_arg("la", "a", vt::int_), S_switch("lb", "f", "flag")}));
    o::help_switch const hswitch = h.shortn ? o::help_switch{o::optional_short_name{o::short_name{fcppt::string{*h.shortn}}}, o::long_name{fcppt::string{h.longn}}}
                                            : (h.longn == "help" ? o::default_help_switch() : o::help_switch{o::optional_short_name{}, o::long_name{fcppt::string{h.longn}}});
    static std::string tag;
    tag = std::string("options::parse_help[") + h.tag + "]";
    std::vector<std::string> al{"--" + h.longn, "-f", "--flag", "3"};
    if (h.shortn)
    {
      al.push_back("-" + *h.shortn);
      al.push_back("--" + *h.shortn);
      al.push_back("-" + h.longn);
    }
    enumerate_vectors(alpha_from(al), h.shortn ? std::min(maxlen(), 3) : maxlen(), [&](tokens const &args) {
      if (!vrt::begin_text(tag.c_str(), std::string("shape parse_help[") + h.tag + "] args " + show_tokens(args)))
        return;
      bool acc = true;
      std::optional<std::string> const want = ref_interp::parse(*desc, args, acc);
      fcppt::args_vector av(args.begin(), args.end());
      auto const res = o::parse_help(hswitch, parser, av);
      // help_result is a variant of result<record> and help_text
      std::optional<std::string> const got = fcppt::variant::match(
          res,
          [](o::result<o::result_of<decltype(parser)>> const &r) {
            return fcppt::either::match(
                r, [](o::error const &) { return std::optional<std::string>(); }, [](auto const &rec) { return std::optional<std::string>("R" + render(rec)); });
          },
          [](o::help_text const &) { return std::optional<std::string>("HELP"); });
      std::optional<std::string> want2;
      if (want)
      {
        // reference record is {label=L{help=unit}} or {label=R{...}}
        want2 = want->find("label=L") != std::string::npos ? std::string("HELP") : "R" + want->substr(std::string("{label=R").size(), want->size() - std::string("{label=R").size() - 1);
      }
      vrt::nontrivial(want.has_value());
      vrt::maybe_sample();
      if (got != want2)
        vrt::fail(std::string("parse_help:differs:") + h.tag, "real: " + (got ? *got : std::string("error")) + "  reference: " + (want2 ? *want2 : std::string("error")));
    });
    }
  }, 120);
}
}

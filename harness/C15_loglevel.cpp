// C15, part: fcppt::log::level -- the library's own enum with a to_string customisation.
// level_to_string / level_from_string and operator<< / operator>> round-trip for every enumerator; every other
// string of a candidate set (all strings over {e,r,o} up to length 5, case changes, prefixes, extensions and
// single-character edits of the names) gives nothing.  Reference: the table of enumerator names.
#include "C15_common.hpp"

#include <fcppt/enum/from_string.hpp>
#include <fcppt/enum/to_string.hpp>
#include <fcppt/log/level.hpp>
#include <fcppt/log/level_from_string.hpp>
#include <fcppt/log/level_input.hpp>
#include <fcppt/log/level_output.hpp>
#include <fcppt/log/level_to_string.hpp>
#include <fcppt/log/level_to_string_impl.hpp>
#include <fcppt/log/optional_level.hpp>
#include <fcppt/optional/object_impl.hpp>

#include <memory>
#include <set>
#include <sstream>
#include <string>
#include <vector>

namespace
{
using lvl = fcppt::log::level;
struct entry
{
  lvl l;
  char const *name;
};
entry const table[] = {{lvl::verbose, "verbose"}, {lvl::debug, "debug"}, {lvl::info, "info"},
                       {lvl::warning, "warning"}, {lvl::error, "error"}, {lvl::fatal, "fatal"}};

int lookup(std::string const &s)
{
  for (int i = 0; i < 6; ++i)
    if (s == table[i].name)
      return i;
  return -1;
}

std::vector<std::string> candidates()
{
  std::set<std::string> c;
  c.insert("");
  for (entry const &e : table)
  {
    std::string const n = e.name;
    c.insert(n);
    for (std::size_t k = 0; k <= n.size(); ++k)
    {
      c.insert(n.substr(0, k));
      c.insert(n.substr(k));
      for (char ins : {' ', 'x', '\0', '_'})
        c.insert(n.substr(0, k) + ins + n.substr(k));
      if (k < n.size())
      {
        std::string m = n;
        m[k] = static_cast<char>(m[k] ^ 0x20); // case change
        c.insert(m);
        m = n;
        m[k] = static_cast<char>(m[k] + 1);
        c.insert(m);
        c.insert(n.substr(0, k) + n.substr(k + 1));
      }
    }
    c.insert(n + n);
    c.insert(std::string("level::") + n);
  }
  std::string const alpha = "ero";
  std::vector<std::string> cur{""};
  for (int len = 1; len <= 5; ++len)
  {
    std::vector<std::string> next;
    for (std::string const &p : cur)
      for (char a : alpha)
        next.push_back(p + a);
    for (std::string const &s : next)
      c.insert(s);
    cur = next;
  }
  return std::vector<std::string>(c.begin(), c.end());
}

std::string printable(std::string const &s)
{
  std::string r = "\"";
  for (char ch : s)
    r += ch == '\0' ? std::string("\\0") : std::string(1, ch);
  return r + "\"";
}

void round_trips()
{
  for (int i = 0; i < 6; ++i)
  {
    if (!vrt::begin("log::level round trip", i))
      continue;
    vrt::nontrivial(true);
    lvl const l = table[i].l;
    std::string const want = table[i].name;
    std::string const ts(fcppt::log::level_to_string(l));
    VRT_CHECK(ts == want, "log::level:to_string", "level_to_string gives %s, the enumerator is %s", printable(ts).c_str(), want.c_str());
    VRT_CHECK(std::string(fcppt::enum_::to_string(l)) == want, "log::level:enum_to_string", "enum_::to_string gives %s",
              printable(std::string(fcppt::enum_::to_string(l))).c_str());
    fcppt::log::optional_level const back = fcppt::log::level_from_string(fcppt::string_view(ts));
    VRT_CHECK(back.has_value() && back.get_unsafe() == l, "log::level:from_string_of_to_string", "level_from_string(level_to_string(%s)) is %s",
              want.c_str(), back.has_value() ? std::string(fcppt::log::level_to_string(back.get_unsafe())).c_str() : "nothing");
    std::ostringstream os;
    os << l;
    VRT_CHECK(os.good() && os.str() == want, "log::level:output", "operator<< wrote %s", printable(os.str()).c_str());
    for (int j = 0; j < 6; ++j)
    {
      // two levels in one stream, read back in order; the target starts as a different level
      std::stringstream ss;
      ss << l << ' ' << table[j].l;
      lvl a = table[(i + 1) % 6].l, b = table[(j + 1) % 6].l;
      ss >> a >> b;
      VRT_CHECK(!ss.fail() && a == l && b == table[j].l, "log::level:stream_round_trip", "wrote %s %s, read %s %s (fail=%d)", want.c_str(),
                table[j].name, std::string(fcppt::log::level_to_string(a)).c_str(), std::string(fcppt::log::level_to_string(b)).c_str(),
                int(ss.fail()));
    }
  }
}

void from_string_all()
{
  for (std::string const &s : candidates())
  {
    if (!vrt::begin_text("log::level_from_string", printable(s)))
      continue;
    int const want = lookup(s);
    vrt::nontrivial(want < 0 && !s.empty());
    vrt::maybe_sample();
    // exact-size heap block: an implementation reading past the view is caught by ASan
    std::unique_ptr<char[]> buf(new char[s.size() == 0 ? 1 : s.size()]);
    std::copy(s.begin(), s.end(), buf.get());
    fcppt::log::optional_level const r = fcppt::log::level_from_string(fcppt::string_view(buf.get(), s.size()));
    if (want >= 0)
      VRT_CHECK(r.has_value() && r.get_unsafe() == table[want].l, "log::level:from_string_name", "%s gave %s", printable(s).c_str(),
                r.has_value() ? std::string(fcppt::log::level_to_string(r.get_unsafe())).c_str() : "nothing");
    else
      VRT_CHECK(!r.has_value(), "log::level:from_string_spurious", "%s is no level name but gave %s", printable(s).c_str(),
                r.has_value() ? std::string(fcppt::log::level_to_string(r.get_unsafe())).c_str() : "?");
    // stream input of one whitespace-free token: succeeds exactly for names; a failed read sets failbit
    if (!s.empty() && s.find_first_of(std::string(" \0", 2)) == std::string::npos)
    {
      std::istringstream is(s);
      lvl v = lvl::info;
      is >> v;
      if (want >= 0)
        VRT_CHECK(!is.fail() && v == table[want].l, "log::level:input_name", "reading %s failed or gave another level", printable(s).c_str());
      else
        VRT_CHECK(is.fail(), "log::level:input_spurious", "reading %s succeeded (%s)", printable(s).c_str(),
                  std::string(fcppt::log::level_to_string(v)).c_str());
    }
  }
}
}

void c15::register_loglevel()
{
  vrt::shard("log_level_strings", [] {
    round_trips();
    from_string_all();
  });
}

// C15 -- textual and binary encodings round-trip losslessly.
// Shared declarations of the three translation units of the harness (engine E):
//   C15.cpp       main(), io::write/io::read, endianness::swap/convert/reverse_mem
//   C15_text.cpp  output_to_*string -> extract_from_string, enum strings/streams, vector/dim streams
//   C15_conv.cpp  narrow/widen/from_std_wstring/to_std_wstring (+_locale) in C.UTF-8
//   C15_state.cpp   history (sticky state left by earlier conversions) and stream-state (hex/oct/showbase/...) dimensions
//   C15_env.cpp     scripted output sinks / input sources (environment answers) and hostile wide tokens
//   C15_locale.cpp  the *_locale text entry points with digit-grouping locales, under several global locales
#pragma once
#include <vrt.hpp>

#include <cstdint>
#include <limits>
#include <set>
#include <string>
#include <type_traits>
#include <vector>

namespace c15
{
using i128 = __int128;

void register_binary();
void register_text();
void register_conv();
void register_locale();
void register_state();
void register_env();
void register_loglevel();

template <class T> constexpr i128 lo() { return static_cast<i128>(std::numeric_limits<T>::min()); }
template <class T> constexpr i128 hi() { return static_cast<i128>(std::numeric_limits<T>::max()); }
template <class T> constexpr bool fits(i128 v) { return v >= lo<T>() && v <= hi<T>(); }

// the boundary lattice of an integer type: 0, +-small, +-(2^k-1), +-2^k, +-(2^k+1), powers of ten
// (the number of decimal digits changes there), min, max and neighbours
template <class T> std::vector<T> lattice()
{
  std::set<i128> s;
  auto add = [&](i128 v) {
    if (fits<T>(v))
      s.insert(v);
  };
  for (i128 d = 0; d <= 12; ++d)
  {
    add(d);
    add(-d);
  }
  for (int k = 1; k <= 64; ++k)
  {
    i128 const p = i128(1) << k;
    for (i128 d : {i128(-1), i128(0), i128(1)})
    {
      add(p + d);
      add(-(p + d));
    }
  }
  i128 t = 10;
  for (int k = 1; k <= 19; ++k, t *= 10)
    for (i128 d : {i128(-1), i128(0), i128(1)})
    {
      add(t + d);
      add(-(t + d));
    }
  add(lo<T>());
  add(lo<T>() + 1);
  add(hi<T>());
  add(hi<T>() - 1);
  add(hi<T>() / 2);
  add(hi<T>() / 2 + 1);
  add(hi<T>() / 3);
  add(i128(1234567890));
  add(-i128(1234567890));
  add(i128(1234567890123456789LL));
  add(-i128(1234567890123456789LL));
  std::vector<T> r;
  for (i128 v : s)
    r.push_back(static_cast<T>(v));
  return r;
}

// decimal text of a 128-bit integer (reference, independent of iostreams)
inline std::string dec(i128 v)
{
  if (v == 0)
    return "0";
  bool const neg = v < 0;
  std::string r;
  while (v != 0)
  {
    int d = static_cast<int>(v % 10);
    if (d < 0)
      d = -d;
    r.insert(r.begin(), static_cast<char>('0' + d));
    v /= 10;
  }
  if (neg)
    r.insert(r.begin(), '-');
  return r;
}

inline std::string hex_bytes(std::string const &s)
{
  std::string r;
  for (unsigned char c : s)
    r += vrt::fmt("%02x ", c);
  if (!r.empty())
    r.pop_back();
  return r;
}
}

// C20 compile probe: fcppt::random::distribution::basic::param() const -- "Returns the
// parameters used to construct the distribution" (translation of the wrapped distribution's
// parameters back into the fcppt parameters class), instantiated for uniform_int<int>.
// Must compile; it is never run.
#include <fcppt/random/distribution/basic.hpp>
#include <fcppt/random/distribution/parameters/uniform_int.hpp>

using params = fcppt::random::distribution::parameters::uniform_int<int>;
using distribution = fcppt::random::distribution::basic<params>;

params c20_probe_param_getter(distribution const &_dist) { return _dist.param(); }

// C13 -- axis-aligned boxes behave as half-open point sets (shared template code).
//
// Engine E.  Every box whose corners lie on an explicit finite lattice is built as a real
// fcppt::math::box::object<T,N>; the reference is the *explicit point set*
//   { x in probe points : pos_i <= x_i < max_i for all i }
// stored as a bit mask over probe points that reach one step beyond the corner range, so that two
// boxes of the domain denote the same set iff their masks are equal.  Results of fcppt
// functions are read back corner by corner, looked up in the same table and compared as sets.
//
// The lattice is a set of integer indices; a coordinate policy maps an index to a value of T strictly
// monotonically, so the model is evaluated exactly for every T:
//   coord_int  built-in integers and the heap-backed heap_int (C13_heapint.hpp): index = value
//   coord_dec  float/double: corner c is the non-dyadic value c/10; both floating-point neighbours of
//              every corner value are additional probe points
//   coord_ext  float/double: +-infinity, +-max, denormals, ... (comparison/selection functions only)
// Functions that only compare and select (contains_point, intersects, intersection, contains,
// extend_bounding_box, the (min,max) constructor, init_max, getters) must return lattice values
// exactly for every T.  Functions whose documented result involves arithmetic (size, box(pos,size),
// init_dim, corner_points, center, shrink, stretch_absolute, distance, operator<) are compared with
// exact integers for integer-like T and with the documented formula evaluated in T for floating point.
// Every entry point is called with lvalue arguments and again with temporaries.
#ifndef VERIF_C13_IMPL_HPP
#define VERIF_C13_IMPL_HPP

#include <vrt.hpp>

#include <fcppt/array/object_impl.hpp>
#include <fcppt/math/size_constant.hpp>
#include <fcppt/math/size_type.hpp>
#include <fcppt/math/box/center.hpp>
#include <fcppt/math/box/comparison.hpp>
#include <fcppt/math/box/contains.hpp>
#include <fcppt/math/box/contains_point.hpp>
#include <fcppt/math/box/corner_points.hpp>
#include <fcppt/math/box/distance.hpp>
#include <fcppt/math/box/extend_bounding_box.hpp>
#include <fcppt/math/box/init_dim.hpp>
#include <fcppt/math/box/init_max.hpp>
#include <fcppt/math/box/intersection.hpp>
#include <fcppt/math/box/intersects.hpp>
#include <fcppt/math/box/interval.hpp>
#include <fcppt/math/box/null.hpp>
#include <fcppt/math/box/object_impl.hpp>
#include <fcppt/math/box/shrink.hpp>
#include <fcppt/math/box/stretch_absolute.hpp>
#include <fcppt/math/box/structure_cast.hpp>
#include <fcppt/cast/static_cast_fun.hpp>
#include <fcppt/math/dim/comparison.hpp>
#include <fcppt/math/dim/static.hpp>
#include <fcppt/math/vector/comparison.hpp>
#include <fcppt/math/vector/static.hpp>
#include <fcppt/tuple/get.hpp>
#include <fcppt/tuple/make.hpp>
#include <fcppt/tuple/object_impl.hpp>

#include <algorithm>
#include <array>
#include <bitset>
#include <cmath>
#include <cstddef>
#include <cstdio>
#include <limits>
#include <deque>
#include <map>
#include <string>
#include <type_traits>
#include <utility>
#include <vector>

namespace c13
{
using ll = long long;
using sz = fcppt::math::size_type;
constexpr std::size_t mask_bits = 512;
using mask = std::bitset<mask_bits>;

template <class T> struct tname;
template <> struct tname<int> { static constexpr char const *v = "int"; };
template <> struct tname<unsigned> { static constexpr char const *v = "unsigned"; };
template <> struct tname<long> { static constexpr char const *v = "long"; };
template <> struct tname<unsigned long> { static constexpr char const *v = "ulong"; };
template <> struct tname<float> { static constexpr char const *v = "float"; };
template <> struct tname<double> { static constexpr char const *v = "double"; };

// names handed to vrt::begin_text must have stable addresses and stable contents
inline char const *intern(std::string const &s)
{
  static std::deque<std::string> pool;
  static std::map<std::string, char const *> idx;
  auto it = idx.find(s);
  if (it != idx.end())
    return it->second;
  pool.push_back(s);
  char const *p = pool.back().c_str();
  idx[s] = p;
  return p;
}

// Reference coordinates are integers ("lattice indices").  A coordinate policy C maps an index q to the
// value C::to(q) of the coordinate type T, strictly monotonically (q1 < q2  <=>  to(q1) < to(q2)), so the
// half-open point-set model can be evaluated exactly on the indices whatever T is.  Box corners sit on the
// indices that are multiples of C::stride; the indices in between are extra probe points.
template <sz N> using pt = std::array<ll, N>;
constexpr ll off_lattice = std::numeric_limits<ll>::min() / 4; // a value of T that is no lattice value

inline ll floor_div(ll a, ll b) { return a >= 0 ? a / b : -((-a + b - 1) / b); }

// hook: number of reads of moved-from scalars since the last call (only a scalar with observable moves counts)
template <class T> struct move_probe
{
  static unsigned long take() { return 0; }
};

// hook: number of live heap cells owned by coordinate values (only a heap-backed scalar counts)
template <class T> struct live_probe
{
  static long count() { return 0; }
};

// built-in integers and integer-like user-defined scalars: index q is the value q
template <class T> struct coord_int
{
  static constexpr ll stride = 1;
  static constexpr bool exact = true;  // T's arithmetic is exact integer arithmetic on the lattice
  static constexpr bool arith = true;  // functions whose result involves arithmetic are checked
  static constexpr ll margin = 1;      // probe points reach one corner step beyond the corner range
  static constexpr bool clip_at_zero = std::is_unsigned_v<T>;
  static T to(ll q) { return static_cast<T>(q); }
  static bool from(T const &v, ll &q)
  {
    q = static_cast<ll>(v);
    return true;
  }
  static std::string show(ll q) { return std::to_string(q); }
  static std::string raw(T const &v) { return std::to_string(static_cast<ll>(v)); }
  static char const *suffix() { return ""; }
  static std::pair<ll, ll> range(ll r)
  {
    if constexpr (std::is_unsigned_v<T>)
      return {0, 2 * r};
    else
      return {-r, r};
  }
};

// floating point, decimal lattice: corner c has the NON-dyadic value c/10 (index 3c); indices 3c-1 and 3c+1
// are its two floating-point neighbours (probe points only)
template <class T> struct coord_dec
{
  static constexpr ll stride = 3;
  static constexpr bool exact = false;
  static constexpr bool arith = true;
  static constexpr ll margin = 1;
  static constexpr bool clip_at_zero = false;
  static T base(ll c) { return static_cast<T>(c) / static_cast<T>(10); }
  static T to(ll q)
  {
    ll const c = floor_div(q + 1, 3), r = q - 3 * c;
    T const v = base(c);
    if (r == 0)
      return v;
    return std::nextafter(v, r > 0 ? std::numeric_limits<T>::infinity() : -std::numeric_limits<T>::infinity());
  }
  static bool from(T const &v, ll &q)
  {
    if (!std::isfinite(v) || std::fabs(v) > static_cast<T>(1e6))
      return false;
    ll const c0 = std::llround(static_cast<double>(v) * 10.0);
    for (ll c = c0 - 1; c <= c0 + 1; ++c)
      for (ll r = -1; r <= 1; ++r)
        if (to(3 * c + r) == v)
        {
          q = 3 * c + r;
          return true;
        }
    return false;
  }
  static std::string show(ll q)
  {
    ll const c = floor_div(q + 1, 3), r = q - 3 * c, a = c < 0 ? -c : c;
    std::string s = (c < 0 ? "-" : "") + std::to_string(a / 10) + "." + std::to_string(a % 10);
    return s + (r > 0 ? "+ulp" : (r < 0 ? "-ulp" : ""));
  }
  static std::string raw(T const &v)
  {
    char b[64];
    std::snprintf(b, sizeof b, "%.17g", static_cast<double>(v));
    return b;
  }
  static char const *suffix() { return ""; }
  static std::pair<ll, ll> range(ll r) { return {-r, r}; }
};

// floating point, extreme values: infinities, largest/smallest magnitudes and ordinary values.  Only the
// functions that compare and select (no arithmetic) are run on it.  V=0: 13 values, V=1: 7 values.
template <class T, int V> struct coord_ext
{
  static constexpr ll stride = 1;
  static constexpr bool exact = false;
  static constexpr bool arith = false;
  static constexpr ll margin = 0;
  static constexpr bool clip_at_zero = false;
  using lim = std::numeric_limits<T>;
  static constexpr ll half = V == 0 ? 6 : 3;
  static T to(ll q)
  {
    if constexpr (V == 0)
    {
      T const t[13] = {-lim::infinity(), -lim::max(), static_cast<T>(-1e30), static_cast<T>(-2.7), static_cast<T>(-0.1),
                       -lim::denorm_min(), static_cast<T>(0), lim::denorm_min(), lim::min(), static_cast<T>(0.1),
                       static_cast<T>(1e30), lim::max(), lim::infinity()};
      return t[q + half];
    }
    else
    {
      T const t[7] = {-lim::infinity(), -lim::max(), static_cast<T>(-0.1), static_cast<T>(0), lim::denorm_min(), lim::max(),
                      lim::infinity()};
      return t[q + half];
    }
  }
  static bool from(T const &v, ll &q)
  {
    for (ll k = -half; k <= half; ++k)
      if (to(k) == v)
      {
        q = k;
        return true;
      }
    return false;
  }
  static std::string show(ll q)
  {
    if constexpr (V == 0)
    {
      char const *n[13] = {"-inf", "-max", "-1e30", "-2.7", "-0.1", "-denorm_min", "0", "denorm_min", "min", "0.1", "1e30", "max", "inf"};
      return n[q + half];
    }
    else
    {
      char const *n[7] = {"-inf", "-max", "-0.1", "0", "denorm_min", "max", "inf"};
      return n[q + half];
    }
  }
  static std::string raw(T const &v) { return coord_dec<T>::raw(v); }
  static char const *suffix() { return ":extreme"; }
  static std::pair<ll, ll> range(ll) { return {-half, half}; }
};

template <class T, class = void> struct default_coord
{
  using type = coord_int<T>;
};
template <class T> struct default_coord<T, std::enable_if_t<std::is_floating_point_v<T>>>
{
  using type = coord_dec<T>;
};

// reference box: corners as lattice indices
template <sz N> struct rbox
{
  pt<N> p{}, m{};
  bool operator==(rbox const &o) const { return p == o.p && m == o.m; }
};

// THE definition of the property: x belongs to the box iff pos_i <= x_i < max_i for every i
template <sz N> inline bool member(rbox<N> const &b, pt<N> const &x)
{
  for (sz i = 0; i < N; ++i)
    if (!(b.p[i] <= x[i] && x[i] < b.m[i]))
      return false;
  return true;
}

template <class T, sz N> inline fcppt::math::vector::static_<T, N> mkvec_t(std::array<T, N> const &a)
{
  using V = fcppt::math::vector::static_<T, N>;
  if constexpr (N == 1)
    return V(a[0]);
  else if constexpr (N == 2)
    return V(a[0], a[1]);
  else
    return V(a[0], a[1], a[2]);
}
template <class T, sz N> inline fcppt::math::dim::static_<T, N> mkdim_t(std::array<T, N> const &a)
{
  using D = fcppt::math::dim::static_<T, N>;
  if constexpr (N == 1)
    return D(a[0]);
  else if constexpr (N == 2)
    return D(a[0], a[1]);
  else
    return D(a[0], a[1], a[2]);
}

// all points of [lo,hi]^N in lexicographic order
template <sz N> inline std::vector<pt<N>> grid(ll lo, ll hi, ll step = 1)
{
  std::vector<pt<N>> r;
  if (hi < lo)
    return r;
  pt<N> x;
  x.fill(lo);
  for (;;)
  {
    r.push_back(x);
    sz i = N;
    while (i > 0)
    {
      --i;
      if (x[i] + step <= hi)
      {
        x[i] += step;
        break;
      }
      x[i] = lo;
      if (i == 0)
        return r;
    }
  }
}

// interval distance as documented in fcppt/math/interval_distance.hpp for [a,b], [c,d] with a<b, c<d, in the
// arithmetic of W; returns false where the documentation does not determine the value (containment with a
// shared end point)
template <class W> inline bool ref_interval_distance(W a, W b, W c, W d, W &want)
{
  if (b <= c)
    want = c - b; // disjoint or touching
  else if (d <= a)
    want = a - d;
  else if (a < c && d < b)
    want = -std::min(c - a, b - d); // [c,d] strictly inside [a,b]: minus the shorter remaining part
  else if (c < a && b < d)
    want = -std::min(a - c, d - b);
  else if (a < c && b < d)
    want = -(b - c); // partial overlap: minus the common length
  else if (c < a && d < b)
    want = -(d - a);
  else
    return false;
  return true;
}

#define C13_FWD(f) [](auto &&...c13_a) { return f(std::forward<decltype(c13_a)>(c13_a)...); }

template <class T, sz N, class C = typename default_coord<T>::type> struct dom
{
  using box = fcppt::math::box::object<T, N>;
  using vec = typename box::vector;
  using dimt = typename box::dim;
  using tarr = std::array<T, N>;
  using mask = std::bitset<C::stride == 1 ? 512 : 1024>;
  static constexpr ll S = C::stride;
  static constexpr bool is_unsigned = C::clip_at_zero;

  // lattice indices <-> values of T
  static tarr vals(pt<N> const &a)
  {
    tarr r{};
    for (sz i = 0; i < N; ++i)
      r[i] = C::to(a[i]);
    return r;
  }
  static vec mkvec(pt<N> const &a) { return mkvec_t<T, N>(vals(a)); }
  static dimt mkdim(pt<N> const &a) { return mkdim_t<T, N>(vals(a)); }
  static box mkbox(rbox<N> const &b) { return box(mkvec(b.p), mkvec(b.m)); } // (min, max) constructor
  template <class V> static pt<N> rdany(V const &v)
  {
    pt<N> r{};
    for (sz i = 0; i < N; ++i)
      if (!C::from(v.get_unsafe(i), r[i]))
        r[i] = off_lattice;
    return r;
  }
  static pt<N> rdv(vec const &v) { return rdany(v); }
  static pt<N> rdd(dimt const &v) { return rdany(v); }
  static rbox<N> rd(box const &b)
  {
    rbox<N> r;
    r.p = rdany(b.pos());
    r.m = rdany(b.max());
    return r;
  }
  static std::string sh(pt<N> const &x)
  {
    std::string r = "(";
    for (sz i = 0; i < N; ++i)
    {
      if (i)
        r += ",";
      r += x[i] == off_lattice ? std::string("?") : C::show(x[i]);
    }
    return r + ")";
  }
  static std::string sh(rbox<N> const &b) { return "[" + sh(b.p) + ";" + sh(b.m) + ")"; }
  // the actual values, whether on the lattice or not
  template <class V> static std::string raw(V const &v)
  {
    std::string r = "(";
    for (sz i = 0; i < N; ++i)
    {
      if (i)
        r += ",";
      r += C::raw(v.get_unsafe(i));
    }
    return r + ")";
  }
  static std::string raw(box const &b) { return "[" + raw(b.pos()) + ";" + raw(b.max()) + ")"; }
  using corner_array = decltype(fcppt::math::box::corner_points(std::declval<box const &>()));
  static bool same(bool a, bool b) { return a == b; }
  static bool same(vec const &a, vec const &b)
  {
    for (sz i = 0; i < N; ++i)
    {
      T const &x = a.get_unsafe(i), &y = b.get_unsafe(i);
      if (!(x == y || (x != x && y != y))) // equal, or both NaN
        return false;
    }
    return true;
  }
  static bool same(box const &a, box const &b) { return same(a.pos(), b.pos()) && same(a.max(), b.max()); }
  static bool same(corner_array const &a, corner_array const &b)
  {
    for (std::size_t k = 0; k < a.size(); ++k)
      if (!same(a.get_unsafe(k), b.get_unsafe(k)))
        return false;
    return true;
  }
  // call f with the arguments as lvalues and again with temporaries (rvalues); the results must agree
  template <class F, class... A> static auto both(F f, std::string const &s, A const &...a)
  {
    auto r = f(a...);
    auto r2 = f(A(a)...);
    if (!same(r, r2))
      vrt::fail(s + ":rvalue_args", "the result differs when the arguments are temporaries");
    return r;
  }
  static void probe(std::string const &s)
  {
    // Reading a moved-from coordinate is not forbidden by anything the property or the documentation says (the
    // state of a moved-from scalar is the scalar's business); a harmful read shows in the results, which are
    // checked.  Information only.
    if (unsigned long const n = move_probe<T>::take())
      vrt::count("info:" + s + ":read_of_moved_from_scalar", n);
  }

  ll lo, hi;   // corner range (corner c has lattice index S*c)
  ll plo, phi; // probe-point range (lattice indices)
  ll R;
  std::vector<rbox<N>> boxes; // every box with corners in [lo,hi]
  std::vector<box> fboxes;    // the same as real fcppt objects
  std::vector<mask> masks;    // explicit point sets over the probe points
  std::vector<char> nonempty, inverted;
  std::vector<pt<N>> minpt, maxpt; // extent of the point set (non-empty boxes only)
  std::vector<std::string> names;
  std::vector<pt<N>> points;     // probe points
  std::vector<std::size_t> iter; // boxes that are iterated over (all, or the non-empty ones)
  std::string tag;

  char const *fn(char const *f) const { return intern(std::string(f) + tag); }

  std::ptrdiff_t index_of(rbox<N> const &b) const
  {
    std::size_t idx = 0;
    for (int which = 0; which < 2; ++which)
      for (sz i = 0; i < N; ++i)
      {
        ll const q = which == 0 ? b.p[i] : b.m[i];
        if (q == off_lattice)
          return -1;
        ll const c = floor_div(q, S);
        if (c * S != q || c < lo || c > hi)
          return -1;
        idx = idx * static_cast<std::size_t>(R) + static_cast<std::size_t>(c - lo);
      }
    return static_cast<std::ptrdiff_t>(idx);
  }

  dom(ll lo_, ll hi_, bool only_nonempty) : lo(lo_), hi(hi_)
  {
    plo = S * (lo - C::margin);
    if (is_unsigned)
      plo = std::max<ll>(plo, 0);
    phi = S * (hi + C::margin);
    R = hi - lo + 1;
    tag = std::string("<") + tname<T>::v + C::suffix() + "," + std::to_string(N) + ">";
    points = grid<N>(plo, phi);
    if (points.size() > mask().size())
    {
      vrt::fail("harness:mask_too_small", "more probe points than the mask has bits");
      points.clear();
    }
    for (ll q = plo; q < phi; ++q)
      if (!(C::to(q) < C::to(q + 1)))
        vrt::fail("harness:lattice_not_monotone", "to(" + std::to_string(q) + ") !< to(" + std::to_string(q + 1) + ")");
    for (ll q = plo; q <= phi; ++q)
    {
      ll back = 0;
      if (!C::from(C::to(q), back) || back != q)
        vrt::fail("harness:lattice_round_trip", "from(to(" + std::to_string(q) + ")) gives " + std::to_string(back));
    }
    std::vector<pt<N>> const corners = grid<N>(S * lo, S * hi, S);
    for (pt<N> const &p : corners)
      for (pt<N> const &m : corners)
      {
        rbox<N> b;
        b.p = p;
        b.m = m;
        boxes.push_back(b);
      }
    for (std::size_t i = 0; i < boxes.size(); ++i)
    {
      rbox<N> const &b = boxes[i];
      if (index_of(b) != static_cast<std::ptrdiff_t>(i))
        vrt::fail("harness:index", "box index is not the enumeration order");
      mask mk;
      pt<N> mn{}, mx{};
      bool any = false;
      for (std::size_t k = 0; k < points.size(); ++k)
        if (member<N>(b, points[k]))
        {
          mk.set(k);
          for (sz c = 0; c < N; ++c)
          {
            mn[c] = any ? std::min(mn[c], points[k][c]) : points[k][c];
            mx[c] = any ? std::max(mx[c], points[k][c]) : points[k][c];
          }
          any = true;
        }
      bool inv = false;
      for (sz c = 0; c < N; ++c)
        if (b.m[c] < b.p[c])
          inv = true;
      masks.push_back(mk);
      nonempty.push_back(any ? 1 : 0);
      inverted.push_back(inv ? 1 : 0);
      minpt.push_back(mn);
      maxpt.push_back(mx);
      names.push_back(sh(b));
      fboxes.push_back(mkbox(b));
      if (!only_nonempty || any)
        iter.push_back(i);
    }
    probe("harness:setup");
  }

  // "interesting" relative placement of two boxes: both non-empty and they share a boundary coordinate
  // on some axis (touching / flush edges) or overlap partially (common points, neither contains the other)
  bool interesting(std::size_t a, std::size_t b) const
  {
    if (!nonempty[a] || !nonempty[b])
      return false;
    rbox<N> const &A = boxes[a], &B = boxes[b];
    for (sz i = 0; i < N; ++i)
      if (A.p[i] == B.p[i] || A.p[i] == B.m[i] || A.m[i] == B.p[i] || A.m[i] == B.m[i])
        return true;
    mask const c = masks[a] & masks[b];
    return c.any() && c != masks[a] && c != masks[b];
  }

  // ------------------------------------------------------------------ pairs of boxes
  void pairs(unsigned part, unsigned nparts) const
  {
    char const *n_intersects = fn("intersects"), *n_intersection = fn("intersection"), *n_contains = fn("contains"),
               *n_extend = fn("extend_bounding_box(box,box)"), *n_distance = fn("distance"),
               *n_cmp = fn("comparison");
    std::string const s_intersects = n_intersects, s_intersection = n_intersection, s_contains = n_contains,
                      s_extend = n_extend, s_distance = n_distance, s_cmp = n_cmp;
    rbox<N> null_box; // all zero
    std::string d;
    d.reserve(256);
    for (std::size_t ia = 0; ia < iter.size(); ++ia)
    {
      if (ia % nparts != part)
        continue;
      if (vrt::out_of_time())
        return;
      std::size_t const a = iter[ia];
      box const &A = fboxes[a];
      for (std::size_t const b : iter)
      {
        box const &B = fboxes[b];
        d.assign("a=");
        d += names[a];
        d += " b=";
        d += names[b];
        mask const common = masks[a] & masks[b];
        bool const both_ne = nonempty[a] && nonempty[b];
        bool const inter = interesting(a, b);

        // intersects: for non-empty boxes, true exactly when a common point exists
        if (both_ne && vrt::begin_text(n_intersects, d))
        {
          vrt::nontrivial(inter);
          vrt::maybe_sample();
          bool const r = both(C13_FWD(fcppt::math::box::intersects), s_intersects, A, B);
          VRT_CHECK(r == common.any(), s_intersects + (r ? ":spurious" : ":missed"), "intersects=%d, common points=%zu",
                    int(r), common.count());
          probe(s_intersects);
        }
        // intersection: contains exactly the common points (all boxes); null box for non-empty disjoint inputs.
        // Its corners are selected from the inputs' corners (or are the null box), so they are lattice values
        // exactly, for every coordinate type.
        if (vrt::begin_text(n_intersection, d))
        {
          vrt::nontrivial(inter);
          vrt::maybe_sample();
          box const R_ = both(C13_FWD(fcppt::math::box::intersection), s_intersection, A, B);
          rbox<N> const r = rd(R_);
          std::ptrdiff_t const ri = index_of(r);
          if (ri < 0)
          {
            // A NON-empty box is determined by its point set, so a result with a corner that is no lattice value
            // cannot have exactly the common points.  An EMPTY result may have any corners ("contains exactly the
            // common points" only asks for emptiness then): information only.
            bool result_empty = false;
            for (sz i = 0; i < N; ++i)
              if (!(R_.pos().get_unsafe(i) < R_.max().get_unsafe(i)))
                result_empty = true;
            if (result_empty && common.none())
              vrt::count("info:" + s_intersection + ":empty_result_with_other_corners");
            else
              vrt::fail(s_intersection + ":corner_not_from_inputs", "result " + raw(R_) + " has a corner that is no corner of a or b");
          }
          else
            VRT_CHECK(masks[static_cast<std::size_t>(ri)] == common, s_intersection + ":point_set",
                      "result %s has %zu points, the boxes have %zu common points", sh(r).c_str(),
                      masks[static_cast<std::size_t>(ri)].count(), common.count());
          if (both_ne && common.none())
            VRT_CHECK(r == null_box, s_intersection + ":not_null", "disjoint non-empty boxes gave %s, not the null box",
                      raw(R_).c_str());
          probe(s_intersection);
        }
        // contains(outer=a, inner=b): for non-empty inner, true exactly when inner is a subset of outer
        if (nonempty[b] && vrt::begin_text(n_contains, d))
        {
          vrt::nontrivial(inter);
          bool const r = both(C13_FWD(fcppt::math::box::contains), s_contains, A, B);
          bool const subset = (masks[b] & ~masks[a]).none();
          VRT_CHECK(r == subset, s_contains + (r ? ":spurious" : ":missed"), "contains=%d, inner\\outer has %zu points",
                    int(r), (masks[b] & ~masks[a]).count());
          probe(s_contains);
        }
        // extend_bounding_box of two non-empty boxes: the smallest box containing both
        if (both_ne && vrt::begin_text(n_extend, d))
        {
          vrt::nontrivial(inter);
          box const R_ = both(C13_FWD(fcppt::math::box::extend_bounding_box), s_extend, A, B);
          rbox<N> const r = rd(R_);
          rbox<N> want;
          for (sz i = 0; i < N; ++i)
          {
            want.p[i] = std::min(minpt[a][i], minpt[b][i]);
            want.m[i] = std::max(maxpt[a][i], maxpt[b][i]) + 1;
          }
          VRT_CHECK(r == want, s_extend + ":wrong", "got %s, hull of the two point sets is %s", raw(R_).c_str(),
                    sh(want).c_str());
          // the same from the point sets alone: contains the union, and no face can be moved inwards
          std::ptrdiff_t const ri = index_of(r);
          mask const uni = masks[a] | masks[b];
          if (ri < 0)
            vrt::fail(s_extend + ":corner_not_from_inputs", "result " + raw(R_));
          else
          {
            VRT_CHECK((uni & ~masks[static_cast<std::size_t>(ri)]).none(), s_extend + ":not_superset",
                      "result %s misses points of the inputs", sh(r).c_str());
            for (sz i = 0; i < N; ++i)
              for (int side = 0; side < 2; ++side)
              {
                rbox<N> s = r;
                if (side == 0)
                  s.p[i] += S;
                else
                  s.m[i] -= S;
                std::ptrdiff_t const si = index_of(s);
                if (si >= 0)
                  VRT_CHECK((uni & ~masks[static_cast<std::size_t>(si)]).any(), s_extend + ":not_minimal",
                            "result %s can be shrunk on axis %d side %d", sh(r).c_str(), int(i), side);
              }
          }
          probe(s_extend);
        }
        if constexpr (C::arith)
        {
          // distance: per axis the documented interval distance (only where the documentation determines it),
          // evaluated in exact integers for integer-like T and with the documented formula in T otherwise
          if (both_ne)
          {
            using W = std::conditional_t<C::exact, ll, T>;
            auto const w = [](ll q) -> W
            {
              if constexpr (C::exact)
                return q;
              else
                return C::to(q);
            };
            std::array<W, N> want{};
            bool defined = true, neg = false;
            for (sz i = 0; i < N && defined; ++i)
            {
              defined = ref_interval_distance<W>(w(boxes[a].p[i]), w(boxes[a].m[i]), w(boxes[b].p[i]), w(boxes[b].m[i]), want[i]);
              if (want[i] < 0)
                neg = true;
            }
            if (defined && !(is_unsigned && neg) && vrt::begin_text(n_distance, d))
            {
              vrt::nontrivial(neg || inter);
              vec const r = both(C13_FWD(fcppt::math::box::distance), s_distance, A, B);
              bool ok = true;
              for (sz i = 0; i < N; ++i)
              {
                T expect{};
                if constexpr (C::exact)
                  expect = C::to(want[i]);
                else
                  expect = want[i];
                if (!(r.get_unsafe(i) == expect))
                  ok = false;
              }
              VRT_CHECK(ok, s_distance + ":wrong", "got %s", raw(r).c_str());
              probe(s_distance);
            }
          }
          // comparison: == is equality of the corners; < is the documented lexicographic order on (pos,size)
          if (vrt::begin_text(n_cmp, d))
          {
            vrt::nontrivial(a != b && boxes[a].p == boxes[b].p);
            bool const eq = A == B, ne = A != B, lt = A < B, gt = B < A;
            bool const same_box = boxes[a] == boxes[b];
            VRT_CHECK(eq == same_box, s_cmp + ":eq", "operator== gives %d", int(eq));
            VRT_CHECK(ne == !same_box, s_cmp + ":ne", "operator!= gives %d", int(ne));
            std::array<T, 2 * N> ka{}, kb{};
            for (sz i = 0; i < N; ++i)
            {
              ka[i] = C::to(boxes[a].p[i]);
              kb[i] = C::to(boxes[b].p[i]);
              // size in T's own arithmetic (wraps for inverted unsigned boxes, as box::size() does)
              ka[N + i] = static_cast<T>(C::to(boxes[a].m[i]) - C::to(boxes[a].p[i]));
              kb[N + i] = static_cast<T>(C::to(boxes[b].m[i]) - C::to(boxes[b].p[i]));
            }
            // "Compare two boxes lexicographically" does not say whether the second key is size or max; the check
            // is a verdict only where both readings agree (they differ for inverted unsigned boxes, whose size wraps)
            std::array<T, 2 * N> ma{}, mb{};
            for (sz i = 0; i < N; ++i)
            {
              ma[i] = ka[i];
              mb[i] = kb[i];
              ma[N + i] = C::to(boxes[a].m[i]);
              mb[N + i] = C::to(boxes[b].m[i]);
            }
            if ((ka < kb) == (ma < mb))
              VRT_CHECK(lt == (ka < kb), s_cmp + ":lt", "operator< gives %d, lexicographic (pos,size) and (pos,max) give %d",
                        int(lt), int(ka < kb));
            else if (lt != (ka < kb))
              vrt::count("info:" + s_cmp + ":lt_differs_from_pos_size_order");
            VRT_CHECK(int(lt) + int(gt) + int(eq) == 1, s_cmp + ":trichotomy", "lt=%d gt=%d eq=%d", int(lt), int(gt),
                      int(eq));
            probe(s_cmp);
          }
        }
      }
    }
  }

  // ------------------------------------------------------------------ box x probe point
  void point_cases() const
  {
    char const *n_cp = fn("contains_point"), *n_ep = fn("extend_bounding_box(box,point)");
    std::string const s_cp = n_cp, s_ep = n_ep;
    std::string d;
    d.reserve(256);
    for (std::size_t const a : iter)
    {
      if (vrt::out_of_time())
        return;
      box const &A = fboxes[a];
      rbox<N> const &ra = boxes[a];
      for (std::size_t k = 0; k < points.size(); ++k)
      {
        pt<N> const &x = points[k];
        d.assign("a=");
        d += names[a];
        d += " p=";
        d += sh(x);
        bool const in = member<N>(ra, x);
        if (in != masks[a].test(k))
          vrt::fail("harness:mask", "mask bit differs from the membership predicate");
        bool boundary = false;
        for (sz i = 0; i < N; ++i)
          if (x[i] == ra.p[i] - 1 || x[i] == ra.p[i] || x[i] == ra.m[i] - 1 || x[i] == ra.m[i])
            boundary = true;
        vec const X = mkvec(x);
        if (vrt::begin_text(n_cp, d))
        {
          vrt::nontrivial(nonempty[a] && boundary);
          vrt::maybe_sample();
          bool const r = both(C13_FWD(fcppt::math::box::contains_point), s_cp, A, X);
          VRT_CHECK(r == in, s_cp + (r ? ":spurious" : ":missed"), "contains_point=%d, membership=%d", int(r), int(in));
          probe(s_cp);
        }
        // extend_bounding_box(box, point) is not part of the statement's two-box clause.  Its documentation
        // ("the same box if the point is contained, else just big enough to hold the point") and the
        // repository's own test fix the closed-hull reading min(p,pos)/max(p,max); the point then lies ON the
        // exclusive maximum, which is counted as information, not as a violation.
        if (!inverted[a] && vrt::begin_text(n_ep, d))
        {
          vrt::nontrivial(!in);
          box const R_ = both(C13_FWD(fcppt::math::box::extend_bounding_box), s_ep, A, X);
          rbox<N> const r = rd(R_);
          if (in)
            VRT_CHECK(r == ra, s_ep + ":changed", "point is inside but the box changed to %s", raw(R_).c_str());
          rbox<N> want;
          for (sz i = 0; i < N; ++i)
          {
            want.p[i] = std::min(x[i], ra.p[i]);
            want.m[i] = std::max(x[i], ra.m[i]);
          }
          // "a box that's just big enough to hold the given point": the lower corner is min(p,pos) under every
          // reading; the upper corner is max(p,max) under the closed reading (what the code and the repository's
          // test do) and max(succ(p),max) under the half-open reading.  Verdict: lower corner, and the upper corner
          // neither below the closed hull nor (integer-like T) above the half-open one; anything in between is
          // information.
          bool lower_ok = true, upper_ok = true;
          for (sz i = 0; i < N; ++i)
          {
            if (r.p[i] != want.p[i])
              lower_ok = false;
            if (r.m[i] == off_lattice)
            {
              if (!(R_.max().get_unsafe(i) >= C::to(want.m[i])))
                upper_ok = false;
            }
            else if (r.m[i] < want.m[i] || (C::exact && r.m[i] > std::max(x[i] + 1, ra.m[i])))
              upper_ok = false;
          }
          VRT_CHECK(lower_ok && upper_ok, s_ep + ":hull", "got %s, closed hull is %s", raw(R_).c_str(), sh(want).c_str());
          if (lower_ok && upper_ok && !(r == want))
            vrt::count("info:" + s_ep + ":not_the_closed_hull");
          if (!member<N>(r, x))
            vrt::count("info:extend_point_result_excludes_point(half-open)");
          probe(s_ep);
        }
      }
    }
  }

  // ------------------------------------------------------------------ single boxes
  template <sz I> void interval_check(box const &A, rbox<N> const &ra, std::string const &s) const
  {
    auto const t = fcppt::math::box::interval<I>(A);
    VRT_CHECK(C::to(ra.p[I]) == fcppt::tuple::get<0>(t) && C::to(ra.m[I]) == fcppt::tuple::get<1>(t), s + ":interval",
              "interval<%d> is not (pos,max)", int(I));
  }

  void unary() const
  {
    char const *n_obj = fn("object"), *n_corner = fn("corner_points"), *n_center = fn("center");
    std::string const s_obj = n_obj, s_corner = n_corner, s_center = n_center;
    std::string d;
    // the null box is the box at the origin with size zero; it is empty
    if (vrt::begin_text(n_obj, "null box"))
    {
      box const Z = fcppt::math::box::null<box>();
      rbox<N> zero;
      VRT_CHECK(rd(Z) == zero, s_obj + ":null", "null box is %s", raw(Z).c_str());
      probe(s_obj);
    }
    for (std::size_t const a : iter)
    {
      box const &A = fboxes[a];
      rbox<N> const &ra = boxes[a];
      tarr const P = vals(ra.p), M = vals(ra.m);
      d.assign("a=");
      d += names[a];
      bool representable = true; // size = max - pos is representable in T
      pt<N> sizes{};
      for (sz i = 0; i < N; ++i)
      {
        sizes[i] = ra.m[i] - ra.p[i];
        if (is_unsigned && sizes[i] < 0)
          representable = false;
      }
      if (vrt::begin_text(n_obj, d))
      {
        vrt::nontrivial(nonempty[a] != 0);
        vrt::maybe_sample();
        VRT_CHECK(rd(A) == ra, s_obj + ":min_max_ctor", "pos()/max() differ from the constructor arguments");
        if constexpr (C::arith && C::exact)
        {
          pt<N> const sz_got = rdd(A.size());
          if (representable)
            VRT_CHECK(sz_got == sizes, s_obj + ":size", "size() is %s, max-pos is %s", raw(A.size()).c_str(), sh(sizes).c_str());
          if (nonempty[a])
          {
            // size = number of distinct coordinates of the point set per axis
            ll vol = 1;
            for (sz i = 0; i < N; ++i)
            {
              VRT_CHECK(sz_got[i] == maxpt[a][i] - minpt[a][i] + 1, s_obj + ":size_vs_points", "axis %d", int(i));
              vol *= sz_got[i];
            }
            VRT_CHECK(static_cast<std::size_t>(vol) == masks[a].count(), s_obj + ":volume",
                      "product of size() is %lld, %zu points", vol, masks[a].count());
          }
        }
        if constexpr (C::arith && !C::exact)
        {
          // floating point: size() is the documented max - pos, evaluated in T
          dimt const sz_got = A.size();
          for (sz i = 0; i < N; ++i)
            VRT_CHECK(sz_got.get_unsafe(i) == M[i] - P[i], s_obj + ":size", "axis %d: size() is %s", int(i), raw(sz_got).c_str());
        }
        if (nonempty[a])
        {
          // consistent with the point set: pos = least point, max = least upper bound of the points
          rbox<N> const got = rd(A);
          for (sz i = 0; i < N; ++i)
          {
            VRT_CHECK(got.p[i] == minpt[a][i], s_obj + ":pos_vs_points", "axis %d", int(i));
            VRT_CHECK(got.m[i] == maxpt[a][i] + 1, s_obj + ":max_vs_points", "axis %d", int(i));
          }
        }
        // left/right/top/bottom/front/back are undocumented; which corner each returns is a convention of the
        // implementation: information only
        if (!(A.left() == P[0] && A.right() == M[0]))
          vrt::count("info:" + s_obj + ":left_right_convention");
        interval_check<0>(A, ra, s_obj);
        if constexpr (N >= 2)
        {
          if (!(A.top() == P[1] && A.bottom() == M[1]))
            vrt::count("info:" + s_obj + ":top_bottom_convention");
          interval_check<1>(A, ra, s_obj);
        }
        if constexpr (N >= 3)
        {
          if (!(A.front() == P[2] && A.back() == M[2]))
            vrt::count("info:" + s_obj + ":front_back_convention");
          interval_check<2>(A, ra, s_obj);
        }
        // setters through the reference getters
        box Mb = fboxes[0];
        Mb.pos() = A.pos();
        Mb.max() = A.max();
        VRT_CHECK(rd(Mb) == ra, s_obj + ":setters", "pos()/max() as setters");
        probe(s_obj);
      }
      if constexpr (C::arith)
      {
        // corner_points: the 2^N vertices pos + bits*size; vertex k takes max on axis i iff bit i of k is set
        // (order documented in vector::bit_strings)
        if (vrt::begin_text(n_corner, d))
        {
          vrt::nontrivial(nonempty[a] != 0);
          auto const cp = both(C13_FWD(fcppt::math::box::corner_points), s_corner, A);
          std::size_t const n = std::size_t(1) << N;
          VRT_CHECK(cp.size() == n, s_corner + ":count", "%zu corners", std::size_t(cp.size()));
          if constexpr (C::exact)
          {
            std::vector<pt<N>> got, want;
            for (std::size_t k = 0; k < n && k < cp.size(); ++k)
            {
              pt<N> const g = rdv(cp.get_unsafe(k));
              pt<N> w{};
              for (sz i = 0; i < N; ++i)
                w[i] = ((k >> i) & 1U) ? ra.m[i] : ra.p[i];
              got.push_back(g);
              want.push_back(w);
            }
            bool const order_ok = got == want;
            std::sort(got.begin(), got.end());
            std::sort(want.begin(), want.end());
            VRT_CHECK(got == want, s_corner + ":set", "the corners are not {pos_i,max_i}^N");
            // the order of the corners is not documented for corner_points (it follows vector::bit_strings in the
            // implementation): information only
            if (got == want && !order_ok)
              vrt::count("info:" + s_corner + ":order_differs_from_bit_strings");
          }
          else
          {
            // floating point: every corner coordinate is pos_i or max_i; for max_i the implementation's pos + 1*size
            // (rounded in T) is accepted as well as max_i itself.  Compared as a multiset, the order is information.
            std::vector<std::array<int, N>> got, want; // per coordinate: 0 = pos, 1 = max, 2 = neither
            bool ok = true, order_ok = true;
            for (std::size_t k = 0; k < n && k < cp.size(); ++k)
            {
              std::array<int, N> g{}, w{};
              for (sz i = 0; i < N; ++i)
              {
                T const v = cp.get_unsafe(k).get_unsafe(i);
                bool const is_pos = v == P[i], is_max = v == M[i] || v == P[i] + (M[i] - P[i]);
                bool const degenerate = P[i] == M[i];
                int const bit = static_cast<int>((k >> i) & 1U);
                g[i] = degenerate ? (is_pos ? 0 : 2) : (is_pos ? 0 : (is_max ? 1 : 2));
                w[i] = degenerate ? 0 : bit;
                if (g[i] == 2)
                  ok = false;
                if (g[i] != w[i])
                  order_ok = false;
              }
              got.push_back(g);
              want.push_back(w);
            }
            std::sort(got.begin(), got.end());
            std::sort(want.begin(), want.end());
            if (got != want)
              ok = false;
            VRT_CHECK(ok, s_corner + ":set", "the corners of %s are not {pos_i,max_i}^N", raw(A).c_str());
            if (ok && !order_ok)
              vrt::count("info:" + s_corner + ":order_differs_from_bit_strings");
          }
          probe(s_corner);
        }
        // center: pos + size/2 computed in T (documented as possibly not the real centre); for a non-empty box
        // it is a point of the box
        if (!inverted[a] && vrt::begin_text(n_center, d))
        {
          vrt::nontrivial(nonempty[a] != 0);
          vec const cv = both(C13_FWD(fcppt::math::box::center), s_center, A);
          if constexpr (C::exact)
          {
            pt<N> const c = rdv(cv);
            for (sz i = 0; i < N; ++i)
            {
              ll const twice = 2 * c[i] - (ra.p[i] + ra.m[i]);
              // "might not calculate the real center, since the calculation is performed using T": within 1/2 of
              // the real centre, rounded either way
              VRT_CHECK(twice >= -1 && twice <= 1, s_center + ":wrong", "axis %d: centre %lld of [%lld,%lld)", int(i), c[i],
                        ra.p[i], ra.m[i]);
            }
            // not promised (a centre rounded upwards may sit on the exclusive maximum of a box of size 1)
            if (nonempty[a] && !member<N>(ra, c))
              vrt::count("info:" + s_center + ":outside");
          }
          else
          {
            for (sz i = 0; i < N; ++i)
            {
              // the midpoint evaluated in T: pos + size/2 and (pos+max)/2 are both accepted, and anything within a
              // few ulps of them, inside the closed box
              T const w1 = P[i] + (M[i] - P[i]) / static_cast<T>(2), w2 = (P[i] + M[i]) / static_cast<T>(2);
              T const got = cv.get_unsafe(i);
              T const tol = static_cast<T>(4) * std::numeric_limits<T>::epsilon() *
                                std::max(std::max(std::fabs(P[i]), std::fabs(M[i])), static_cast<T>(1));
              bool const close = got == w1 || got == w2 || std::fabs(got - w1) <= tol;
              VRT_CHECK(close && P[i] <= got && got <= M[i], s_center + ":wrong", "axis %d: centre %s", int(i), C::raw(got).c_str());
              if (nonempty[a] && !(got < M[i]))
                vrt::count("info:" + s_center + ":outside");
            }
          }
          probe(s_center);
        }
      }
    }
  }

  // ------------------------------------------------------------------ every way of constructing a box
  // (min,max), (pos,size), init_max, init_dim, structure_cast, copy/move construction and assignment, each with
  // lvalue and with rvalue arguments.  Whatever the way, the box must have the stated corners and contain
  // exactly the points of [pos, max) / [pos, pos+size).
  void membership(box const &B, rbox<N> const &want, std::string const &s, char const *how) const
  {
    rbox<N> const got = rd(B);
    if (!(got == want))
    {
      vrt::fail(s + ":" + how, "box is " + raw(B) + ", expected " + sh(want));
      return;
    }
    for (std::size_t k = 0; k < points.size(); ++k)
      if (fcppt::math::box::contains_point(B, mkvec(points[k])) != member<N>(want, points[k]))
      {
        vrt::fail(s + ":" + how + ":membership", "point " + sh(points[k]) + " of box " + raw(B));
        return;
      }
  }

  void construct() const
  {
    char const *n_c = fn("construct");
    std::string const s = n_c;
    std::string d;
    for (std::size_t const a : iter)
    {
      if (vrt::out_of_time())
        return;
      rbox<N> const &ra = boxes[a];
      d.assign("a=");
      d += names[a];
      if (!vrt::begin_text(n_c, d))
        continue;
      vrt::nontrivial(nonempty[a] != 0);
      vrt::maybe_sample();
      tarr const P = vals(ra.p), M = vals(ra.m);
      {
        vec const p = mkvec(ra.p), m = mkvec(ra.m);
        box const b1(p, m); // (min,max), lvalues
        membership(b1, ra, s, "min_max_lvalue");
        VRT_CHECK(rdv(p) == ra.p && rdv(m) == ra.m, s + ":min_max_lvalue:argument_changed", "lvalue arguments were modified");
        box const b2(mkvec(ra.p), mkvec(ra.m)); // temporaries
        membership(b2, ra, s, "min_max_rvalue");
        vec p3 = mkvec(ra.p), m3 = mkvec(ra.m);
        box const b3(std::move(p3), std::move(m3)); // moved-from named objects
        membership(b3, ra, s, "min_max_moved");
        box const b4 = fcppt::math::box::init_max<box>([&P, &M]<sz I>(fcppt::math::size_constant<I>)
                                                       { return fcppt::tuple::make(T(P[I]), T(M[I])); });
        membership(b4, ra, s, "init_max");
        // copies and moves of the box itself
        box const c1(b1);
        membership(c1, ra, s, "copy_ctor");
        membership(b1, ra, s, "copy_ctor:source");
        box src(b1);
        box const c2(std::move(src));
        membership(c2, ra, s, "move_ctor");
        box c3 = fboxes[0];
        c3 = b1;
        membership(c3, ra, s, "copy_assign");
        membership(b1, ra, s, "copy_assign:source");
        box c4 = fboxes[fboxes.size() - 1];
        box src2(b1);
        c4 = std::move(src2);
        membership(c4, ra, s, "move_assign");
      }
      if constexpr (C::arith)
      {
        bool representable = true;
        pt<N> sizes{};
        tarr D{}, PD{}; // size in T, and pos + size in T
        for (sz i = 0; i < N; ++i)
        {
          sizes[i] = ra.m[i] - ra.p[i];
          if (is_unsigned && sizes[i] < 0)
            representable = false;
          D[i] = static_cast<T>(M[i] - P[i]);
          PD[i] = static_cast<T>(P[i] + D[i]);
        }
        if (representable)
        {
          // box(pos,size) is the set [pos, pos+size): for integer-like T that is the box a itself; for floating
          // point pos+size is evaluated in T (same formula) and, when it is a lattice value, membership follows
          auto const check = [&](box const &B, char const *how)
          {
            if constexpr (C::exact)
              membership(B, ra, s, how);
            else
            {
              bool ok = true;
              for (sz i = 0; i < N; ++i)
                if (!(B.pos().get_unsafe(i) == P[i] && B.max().get_unsafe(i) == PD[i]))
                  ok = false;
              if (!ok)
                vrt::fail(s + ":" + how, "box is " + raw(B) + ", expected pos " + sh(ra.p) + " and max = pos+size evaluated in T");
              for (sz i = 0; i < N; ++i) // size() gives back max - pos, whatever the rounding
                VRT_CHECK(B.size().get_unsafe(i) == PD[i] - P[i], s + ":" + how + ":size", "axis %d", int(i));
            }
          };
          vec const p = mkvec_t<T, N>(P);
          dimt const dd = mkdim_t<T, N>(D);
          box const b1(p, dd); // lvalues
          check(b1, "pos_size_lvalue");
          bool unchanged = true;
          for (sz i = 0; i < N; ++i)
            if (!(p.get_unsafe(i) == P[i] && dd.get_unsafe(i) == D[i]))
              unchanged = false;
          VRT_CHECK(unchanged, s + ":pos_size_lvalue:argument_changed", "lvalue arguments were modified");
          box const b2(mkvec_t<T, N>(P), mkdim_t<T, N>(D)); // temporaries
          check(b2, "pos_size_rvalue");
          vec p3 = mkvec_t<T, N>(P);
          dimt d3 = mkdim_t<T, N>(D);
          box const b3(std::move(p3), std::move(d3));
          check(b3, "pos_size_moved");
          box const b4 = fcppt::math::box::init_dim<box>([&P, &D]<sz I>(fcppt::math::size_constant<I>)
                                                         { return fcppt::tuple::make(T(P[I]), T(D[I])); });
          check(b4, "init_dim");
          // structure_cast to the same box type with a static_cast per element goes through (pos,size)
          box const b5 = fcppt::math::box::structure_cast<box, fcppt::cast::static_cast_fun>(fboxes[a]);
          check(b5, "structure_cast");
          if constexpr (C::exact)
            VRT_CHECK(b1 == fboxes[a] && !(b1 != fboxes[a]), s + ":pos_size_eq", "box(pos,size) != box(pos,pos+size)");
        }
      }
      probe(s);
    }
  }

  // ------------------------------------------------------------------ shrink / stretch_absolute
  // shrink(b,v), v>=0      = { x : x+d in b for ALL d with |d_i| <= v_i }   (erosion by the cube)
  // stretch_absolute(b,v)  = { x : x+d in b for SOME d with |d_i| <= v_i }  (dilation; non-empty b only)
  void shrink_stretch(ll vmax) const
  {
    if constexpr (!C::arith)
      return;
    else if constexpr (!C::exact)
      shrink_stretch_fp();
    else
    {
      char const *n_sh = fn("shrink"), *n_st = fn("stretch_absolute");
      std::string const s_sh = n_sh, s_st = n_st;
      ll const blo = is_unsigned ? std::max<ll>(lo - vmax - 1, 0) : lo - vmax - 1, bhi = hi + vmax + 1;
      std::vector<pt<N>> const big = grid<N>(blo, bhi);
      std::vector<pt<N>> const vs = grid<N>(0, vmax);
      std::string d;
      for (std::size_t const a : iter)
      {
        if (vrt::out_of_time())
          return;
        box const &A = fboxes[a];
        rbox<N> const &ra = boxes[a];
        for (pt<N> const &v : vs)
        {
          d.assign("a=");
          d += names[a];
          d += " v=";
          d += sh(v);
          bool any_v = false, sh_repr = true, st_repr = true;
          for (sz i = 0; i < N; ++i)
          {
            if (v[i] > 0)
              any_v = true;
            if (is_unsigned && ra.m[i] - v[i] < 0)
              sh_repr = false;
            if (is_unsigned && ra.p[i] - v[i] < 0)
              st_repr = false;
          }
          std::vector<pt<N>> const cube = offsets(v);
          vec const V = mkvec(v);
          for (int which = 0; which < 2; ++which)
          {
            bool const is_shrink = which == 0;
            if (is_shrink ? !sh_repr : (!st_repr || !nonempty[a]))
              continue;
            if (!vrt::begin_text(is_shrink ? n_sh : n_st, d))
              continue;
            vrt::nontrivial(any_v && nonempty[a]);
            vrt::maybe_sample();
            std::string const &s = is_shrink ? s_sh : s_st;
            box const R_ = is_shrink ? both(C13_FWD(fcppt::math::box::shrink), s, A, V)
                                     : both(C13_FWD(fcppt::math::box::stretch_absolute), s, A, V);
            rbox<N> const r = rd(R_);
            bool in_range = true;
            for (sz i = 0; i < N; ++i)
              if (r.p[i] < blo || r.p[i] > bhi || r.m[i] < blo || r.m[i] > bhi)
                in_range = false;
            bool result_nonempty = true;
            for (sz i = 0; i < N; ++i)
              if (!(r.p[i] < r.m[i]))
                result_nonempty = false;
            // an empty result may have any corners; a non-empty one outside the range has points it must not have
            if (result_nonempty)
              VRT_CHECK(in_range, s + ":corner_out_of_range", "result %s", raw(R_).c_str());
            for (pt<N> const &x : big)
            {
              bool want = is_shrink;
              for (pt<N> const &o : cube)
              {
                pt<N> y = x;
                for (sz i = 0; i < N; ++i)
                  y[i] += o[i];
                bool const in = member<N>(ra, y);
                if (is_shrink && !in)
                {
                  want = false;
                  break;
                }
                if (!is_shrink && in)
                {
                  want = true;
                  break;
                }
              }
              if (member<N>(r, x) != want)
              {
                vrt::fail(s + ":point_set", "result " + sh(r) + (want ? " misses " : " wrongly contains ") + sh(x));
                break;
              }
            }
            probe(s);
          }
        }
      }
    }
  }

  // floating point: the corners are the documented pos+v / max-v (pos-v / max+v) evaluated in T; rounding is
  // monotone, so for v >= 0 shrink(b,v) is a subset of b and stretch_absolute(b,v) a superset, point by point
  void shrink_stretch_fp() const
  {
    char const *n_sh = fn("shrink"), *n_st = fn("stretch_absolute");
    std::string const s_sh = n_sh, s_st = n_st;
    T const amounts[4] = {static_cast<T>(0), static_cast<T>(0.1), static_cast<T>(0.25), static_cast<T>(1)};
    std::vector<pt<N>> const vs = grid<N>(0, 3);
    std::string d;
    for (std::size_t const a : iter)
    {
      if (vrt::out_of_time())
        return;
      box const &A = fboxes[a];
      rbox<N> const &ra = boxes[a];
      tarr const P = vals(ra.p), M = vals(ra.m);
      for (pt<N> const &vi : vs)
      {
        tarr v{};
        d.assign("a=");
        d += names[a];
        d += " v=(";
        for (sz i = 0; i < N; ++i)
        {
          v[i] = amounts[vi[i]];
          d += (i ? "," : "") + C::raw(v[i]);
        }
        d += ")";
        vec const V = mkvec_t<T, N>(v);
        for (int which = 0; which < 2; ++which)
        {
          bool const is_shrink = which == 0;
          if (!is_shrink && !nonempty[a])
            continue;
          if (!vrt::begin_text(is_shrink ? n_sh : n_st, d))
            continue;
          vrt::nontrivial(nonempty[a] != 0);
          std::string const &s = is_shrink ? s_sh : s_st;
          box const R_ = is_shrink ? both(C13_FWD(fcppt::math::box::shrink), s, A, V)
                                   : both(C13_FWD(fcppt::math::box::stretch_absolute), s, A, V);
          bool ok = true;
          for (sz i = 0; i < N; ++i)
          {
            T const wp = is_shrink ? P[i] + v[i] : P[i] - v[i], wm = is_shrink ? M[i] - v[i] : M[i] + v[i];
            if (!(R_.pos().get_unsafe(i) == wp && R_.max().get_unsafe(i) == wm))
              ok = false;
          }
          VRT_CHECK(ok, s + ":corners", "result %s", raw(R_).c_str());
          for (std::size_t k = 0; k < points.size(); ++k)
          {
            bool in_r = true;
            for (sz i = 0; i < N; ++i)
            {
              T const x = C::to(points[k][i]);
              if (!(R_.pos().get_unsafe(i) <= x && x < R_.max().get_unsafe(i)))
                in_r = false;
            }
            bool const in_a = masks[a].test(k);
            if (is_shrink ? (in_r && !in_a) : (in_a && !in_r))
            {
              vrt::fail(s + ":point_set", "result " + raw(R_) + (is_shrink ? " is no subset: " : " is no superset: ") + sh(points[k]));
              break;
            }
          }
        }
      }
    }
  }

  // all d with |d_i| <= v_i
  static std::vector<pt<N>> offsets(pt<N> const &v)
  {
    std::vector<pt<N>> r;
    pt<N> x;
    for (sz i = 0; i < N; ++i)
      x[i] = -v[i];
    for (;;)
    {
      r.push_back(x);
      sz i = N;
      bool done = true;
      while (i > 0)
      {
        --i;
        if (x[i] < v[i])
        {
          ++x[i];
          done = false;
          break;
        }
        x[i] = -v[i];
      }
      if (done)
        return r;
    }
  }
};

// ---------------------------------------------------------------------- init_max / init_dim with observable callbacks
// Documentation of both: "Initializes an object of type Box by calling _function for every index. The result
// must be a tuple where the first element is the min position (position) and the second element is the max
// position (size)."  So the callback runs once per index -- N invocations, every index exactly once -- and axis
// i of the box is made of the ONE pair returned for index i.  The order of the indices is not documented and is
// only counted as information.
struct boom
{
};

template <class T, sz N> struct script_callback
{
  struct state
  {
    int count = 0;
    int throw_at = 0; // 1-based invocation that throws, 0 = never
    std::array<int, 4 * N> index{};
  };
  state *st;
  std::array<std::pair<T, T>, N> const *script;
  T const *exhausted; // returned when the script has run out

  template <sz I> fcppt::tuple::object<T, T> operator()(fcppt::math::size_constant<I>) const
  {
    int const k = st->count++;
    if (k < static_cast<int>(4 * N))
      st->index[static_cast<std::size_t>(k)] = static_cast<int>(I);
    if (st->throw_at != 0 && st->count == st->throw_at)
      throw boom{};
    if (k >= static_cast<int>(N)) // stream-like: the k-th invocation gets the k-th pair of the script
      return fcppt::tuple::make(T(*exhausted), T(*exhausted));
    auto const &p = (*script)[static_cast<std::size_t>(k)];
    return fcppt::tuple::make(T(p.first), T(p.second));
  }
};

template <class T, sz N, class C = typename default_coord<T>::type> inline void callback_cases()
{
  using box = fcppt::math::box::object<T, N>;
  using cb = script_callback<T, N>;
  std::string const tag = std::string("<") + tname<T>::v + "," + std::to_string(N) + ">";
  ll const choice[3] = {-1, 0, 2}; // corner units; values C::to(stride * c)
  T const exhausted = C::to(C::stride * 3);
  std::size_t total = 1;
  for (sz i = 0; i < 2 * N; ++i)
    total *= 3;
  for (int which = 0; which < 2; ++which)
  {
    bool const is_dim = which == 1;
    std::string const base = std::string(is_dim ? "init_dim" : "init_max") + tag;
    char const *n_state = intern(base + ":stateful_callback"), *n_throw = intern(base + ":throwing_callback");
    auto const run = [is_dim](cb const &f) { return is_dim ? fcppt::math::box::init_dim<box>(f) : fcppt::math::box::init_max<box>(f); };
    for (std::size_t sc = 0; sc < total; ++sc)
    {
      std::array<std::pair<T, T>, N> script;
      std::string d = "script=(";
      std::size_t rest = sc;
      bool distinct = true;
      for (sz i = 0; i < N; ++i)
      {
        ll const a = choice[rest % 3];
        rest /= 3;
        ll const b = choice[rest % 3];
        rest /= 3;
        script[i] = std::make_pair(C::to(C::stride * a), C::to(C::stride * b));
        d += (i ? ",(" : "(") + C::show(C::stride * a) + "," + C::show(C::stride * b) + ")";
        for (sz j = 0; j < i; ++j)
          if (script[j].first == script[i].first && script[j].second == script[i].second)
            distinct = false;
      }
      d += ")";
      // (a) count and indices, (b) the box is made of the pair returned for each index
      if (vrt::begin_text(n_state, d))
      {
        vrt::nontrivial(distinct && N > 1);
        vrt::maybe_sample();
        typename cb::state st;
        box const B = run(cb{&st, &script, &exhausted});
        VRT_CHECK(st.count == static_cast<int>(N), base + ":callback_count", "callback invoked %d times for %d axes", st.count,
                  int(N));
        std::array<int, N> inv; // invocation that received index i
        inv.fill(-1);
        bool once = true, ascending = true;
        for (int k = 0; k < st.count && k < static_cast<int>(4 * N); ++k)
        {
          int const i = st.index[static_cast<std::size_t>(k)];
          if (i < 0 || i >= static_cast<int>(N) || inv[static_cast<std::size_t>(i)] != -1)
            once = false;
          else
            inv[static_cast<std::size_t>(i)] = k;
          if (i != k)
            ascending = false;
        }
        for (int const v : inv)
          if (v < 0)
            once = false;
        VRT_CHECK(once, base + ":callback_indices", "not every index exactly once");
        if (once && st.count == static_cast<int>(N))
        {
          if (!ascending)
            vrt::count("info:init_callback_order_not_ascending");
          bool ok = true;
          for (sz i = 0; i < N; ++i)
          {
            auto const &p = script[static_cast<std::size_t>(inv[i])];
            T const want_max = is_dim ? static_cast<T>(p.first + p.second) : p.second;
            if (!(B.pos().get_unsafe(i) == p.first && B.max().get_unsafe(i) == want_max))
              ok = false;
          }
          VRT_CHECK(ok, base + ":callback_box", "box %s is not made of the pair returned for each index",
                    (dom<T, N, C>::raw(B)).c_str());
        }
        if (unsigned long const n = move_probe<T>::take())
          vrt::count("info:" + base + ":read_of_moved_from_scalar", n);
      }
      // (c) the k-th invocation throws: the exception propagates, no further invocation, nothing leaks
      for (int k = 1; k <= static_cast<int>(N); ++k)
      {
        if (!vrt::begin_text(n_throw, d + " throw_at=" + std::to_string(k)))
          continue;
        vrt::nontrivial(k > 1);
        long const live0 = live_probe<T>::count();
        typename cb::state st;
        st.throw_at = k;
        bool thrown = false;
        try
        {
          box const B = run(cb{&st, &script, &exhausted});
          (void)B;
        }
        catch (boom const &)
        {
          thrown = true;
        }
        catch (...)
        {
          vrt::fail(base + ":callback_exception_replaced", "a different exception arrived");
          thrown = true;
        }
        VRT_CHECK(thrown, base + ":callback_exception_swallowed", "the callback's exception did not propagate");
        VRT_CHECK(st.count == k, base + ":callback_count_after_throw", "callback invoked %d times, it threw at invocation %d",
                  st.count, k);
        VRT_CHECK(live_probe<T>::count() == live0, base + ":callback_throw_leak", "%ld coordinate cells leaked",
                  live_probe<T>::count() - live0);
        move_probe<T>::take();
      }
    }
  }
}

template <class T> inline void reg_callbacks()
{
  vrt::shard(std::string("callbacks<") + tname<T>::v + ">", [] {
    callback_cases<T, 1>();
    callback_cases<T, 2>();
    callback_cases<T, 3>();
  });
}

// The corner "radius" is chosen inside the shard (the tier is not known while shards are registered):
// rq in the quick tier, rt in the thorough tier.  Shard names do not depend on the tier.
template <class T, sz N, class C = typename default_coord<T>::type>
inline void reg_small(std::string const &name, ll rq, ll rt, ll vmax)
{
  vrt::shard(name, [rq, rt, vmax] {
    auto const rg = C::range(vrt::thorough() ? rt : rq);
    dom<T, N, C> const D(rg.first, rg.second, false);
    D.unary();
    D.construct();
    D.point_cases();
    D.shrink_stretch(vmax);
  });
}
template <class T, sz N, class C = typename default_coord<T>::type>
inline void reg_pairs(std::string const &name, ll rq, ll rt, bool only_nonempty, unsigned nparts)
{
  for (unsigned p = 0; p < nparts; ++p)
    vrt::shard(name + "/" + std::to_string(p), [rq, rt, only_nonempty, p, nparts] {
      auto const rg = C::range(vrt::thorough() ? rt : rq);
      dom<T, N, C> const D(rg.first, rg.second, only_nonempty);
      D.pairs(p, nparts);
    });
}

// registration of the shards of one coordinate type (defined in C13_<type>.cpp)
void reg_int();
void reg_unsigned();
void reg_wide();
void reg_float();
void reg_double();
void reg_heap();

template <class T> inline void reg_full()
{
  std::string const t = tname<T>::v;
  // 1-D: corners [-4,4] (thorough [-8,8]); all boxes, all pairs
  reg_small<T, 1>("single<" + t + ",1>", 4, 8, 2);
  reg_pairs<T, 1>("pairs<" + t + ",1>", 4, 8, false, 1);
  // 2-D: corners [-2,2] quick, [-3,3] thorough; all pairs of all boxes
  reg_small<T, 2>("single<" + t + ",2>", 2, 3, 2);
  reg_pairs<T, 2>("pairs<" + t + ",2>", 2, 3, false, 16);
  // 3-D: corners [-1,1]; all pairs of all boxes
  reg_small<T, 3>("single<" + t + ",3>", 1, 1, 2);
  reg_pairs<T, 3>("pairs<" + t + ",3>", 1, 1, false, 8);
  // wider corner ranges, non-empty boxes only (all relative placements with gaps and strict nesting)
  reg_pairs<T, 2>("pairs_nonempty<" + t + ",2>", 3, 5, true, 16);
  reg_pairs<T, 3>("pairs_nonempty<" + t + ",3>", 2, 2, true, 8);
}

// floating-point coordinate types
template <class T> inline void reg_fp()
{
  std::string const t = tname<T>::v;
  // decimal (non-dyadic) corners c/10 with both floating-point neighbours of every corner as probe points
  // 1-D: c in [-15,15] quick, [-30,30] thorough; all boxes, all pairs
  reg_small<T, 1>("single<" + t + ",1>", 15, 30, 0);
  reg_pairs<T, 1>("pairs<" + t + ",1>", 15, 30, false, 16);
  // 2-D: c in [-2,2] quick, [-3,3] thorough; all boxes, all pairs
  reg_small<T, 2>("single<" + t + ",2>", 2, 3, 0);
  reg_pairs<T, 2>("pairs<" + t + ",2>", 2, 3, false, 16);
  // extreme corners (+-infinity, +-max, denormals, ...): comparison/selection functions only
  reg_small<T, 1, coord_ext<T, 0>>("single<" + t + ":extreme,1>", 0, 0, 0);
  reg_pairs<T, 1, coord_ext<T, 0>>("pairs<" + t + ":extreme,1>", 0, 0, false, 1);
  reg_small<T, 2, coord_ext<T, 1>>("single<" + t + ":extreme,2>", 0, 0, 0);
  reg_pairs<T, 2, coord_ext<T, 1>>("pairs<" + t + ":extreme,2>", 0, 0, false, 16);
}
}

#endif

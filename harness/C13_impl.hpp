// C13 -- axis-aligned boxes behave as half-open point sets (shared template code).
//
// Engine E.  Every box whose corners lie in an explicit integer range is built as a real
// fcppt::math::box::object<T,N>; the reference is the *explicit point set*
//   { x in lattice^N : pos_i <= x_i < max_i for all i }
// stored as a bit mask over a lattice that is one step wider than the corner range, so that two
// boxes of the domain denote the same set iff their masks are equal.  Results of fcppt
// functions are read back corner by corner, looked up in the same table and compared as sets.
#ifndef VERIF_C13_IMPL_HPP
#define VERIF_C13_IMPL_HPP

#include <vrt.hpp>

#include <fcppt/array/object_impl.hpp>
#include <fcppt/math/size_constant.hpp>
#include <fcppt/math/size_type.hpp>
#include <fcppt/math/box/center.hpp>
#include <fcppt/math/box/comparison.hpp>
#include <fcppt/math/box/contains.hpp>
#include <fcppt/math/box/contains_point.hpp>
#include <fcppt/math/box/corner_points.hpp>
#include <fcppt/math/box/distance.hpp>
#include <fcppt/math/box/extend_bounding_box.hpp>
#include <fcppt/math/box/init_dim.hpp>
#include <fcppt/math/box/init_max.hpp>
#include <fcppt/math/box/intersection.hpp>
#include <fcppt/math/box/intersects.hpp>
#include <fcppt/math/box/interval.hpp>
#include <fcppt/math/box/null.hpp>
#include <fcppt/math/box/object_impl.hpp>
#include <fcppt/math/box/shrink.hpp>
#include <fcppt/math/box/stretch_absolute.hpp>
#include <fcppt/math/dim/comparison.hpp>
#include <fcppt/math/dim/static.hpp>
#include <fcppt/math/vector/comparison.hpp>
#include <fcppt/math/vector/static.hpp>
#include <fcppt/tuple/get.hpp>
#include <fcppt/tuple/make.hpp>
#include <fcppt/tuple/object_impl.hpp>

#include <algorithm>
#include <array>
#include <bitset>
#include <cstddef>
#include <deque>
#include <map>
#include <string>
#include <type_traits>
#include <utility>
#include <vector>

namespace c13
{
using ll = long long;
using sz = fcppt::math::size_type;
constexpr std::size_t mask_bits = 512;
using mask = std::bitset<mask_bits>;

template <class T> struct tname;
template <> struct tname<int> { static constexpr char const *v = "int"; };
template <> struct tname<unsigned> { static constexpr char const *v = "unsigned"; };
template <> struct tname<long> { static constexpr char const *v = "long"; };
template <> struct tname<unsigned long> { static constexpr char const *v = "ulong"; };

// names handed to vrt::begin_text must have stable addresses and stable contents
inline char const *intern(std::string const &s)
{
  static std::deque<std::string> pool;
  static std::map<std::string, char const *> idx;
  auto it = idx.find(s);
  if (it != idx.end())
    return it->second;
  pool.push_back(s);
  char const *p = pool.back().c_str();
  idx[s] = p;
  return p;
}

template <sz N> using pt = std::array<ll, N>;

// reference box: corners as plain integers
template <sz N> struct rbox
{
  pt<N> p{}, m{};
  bool operator==(rbox const &o) const { return p == o.p && m == o.m; }
};

// THE definition of the property: x belongs to the box iff pos_i <= x_i < max_i for every i
template <sz N> inline bool member(rbox<N> const &b, pt<N> const &x)
{
  for (sz i = 0; i < N; ++i)
    if (!(b.p[i] <= x[i] && x[i] < b.m[i]))
      return false;
  return true;
}

template <sz N> inline std::string show(pt<N> const &x)
{
  std::string r = "(";
  for (sz i = 0; i < N; ++i)
  {
    if (i)
      r += ",";
    r += std::to_string(x[i]);
  }
  return r + ")";
}
template <sz N> inline std::string show(rbox<N> const &b) { return "[" + show<N>(b.p) + ";" + show<N>(b.m) + ")"; }

template <class T, sz N> inline fcppt::math::vector::static_<T, N> mkvec(pt<N> const &a)
{
  using V = fcppt::math::vector::static_<T, N>;
  if constexpr (N == 1)
    return V(static_cast<T>(a[0]));
  else if constexpr (N == 2)
    return V(static_cast<T>(a[0]), static_cast<T>(a[1]));
  else
    return V(static_cast<T>(a[0]), static_cast<T>(a[1]), static_cast<T>(a[2]));
}
template <class T, sz N> inline fcppt::math::dim::static_<T, N> mkdim(pt<N> const &a)
{
  using D = fcppt::math::dim::static_<T, N>;
  if constexpr (N == 1)
    return D(static_cast<T>(a[0]));
  else if constexpr (N == 2)
    return D(static_cast<T>(a[0]), static_cast<T>(a[1]));
  else
    return D(static_cast<T>(a[0]), static_cast<T>(a[1]), static_cast<T>(a[2]));
}
template <class T, sz N> inline fcppt::math::box::object<T, N> mkbox(rbox<N> const &b)
{
  return fcppt::math::box::object<T, N>(mkvec<T, N>(b.p), mkvec<T, N>(b.m)); // (min, max) constructor
}
template <class V, sz N> inline pt<N> rdvec(V const &v)
{
  pt<N> r{};
  for (sz i = 0; i < N; ++i)
    r[i] = static_cast<ll>(v.get_unsafe(i));
  return r;
}
template <class T, sz N> inline rbox<N> rdbox(fcppt::math::box::object<T, N> const &b)
{
  rbox<N> r;
  r.p = rdvec<typename fcppt::math::box::object<T, N>::vector, N>(b.pos());
  r.m = rdvec<typename fcppt::math::box::object<T, N>::vector, N>(b.max());
  return r;
}

// all points of [lo,hi]^N in lexicographic order
template <sz N> inline std::vector<pt<N>> grid(ll lo, ll hi)
{
  std::vector<pt<N>> r;
  if (hi < lo)
    return r;
  pt<N> x;
  x.fill(lo);
  for (;;)
  {
    r.push_back(x);
    sz i = N;
    while (i > 0)
    {
      --i;
      if (x[i] < hi)
      {
        ++x[i];
        break;
      }
      x[i] = lo;
      if (i == 0)
        return r;
    }
  }
}

// interval distance as documented in fcppt/math/interval_distance.hpp for [a,b], [c,d] with a<b, c<d;
// returns false where the documentation does not determine the value (containment with a shared end point)
inline bool ref_interval_distance(ll a, ll b, ll c, ll d, ll &want)
{
  if (b <= c)
    want = c - b; // disjoint or touching
  else if (d <= a)
    want = a - d;
  else if (a < c && d < b)
    want = -std::min(c - a, b - d); // [c,d] strictly inside [a,b]: minus the shorter remaining part
  else if (c < a && b < d)
    want = -std::min(a - c, d - b);
  else if (a < c && b < d)
    want = -(b - c); // partial overlap: minus the common length
  else if (c < a && d < b)
    want = -(d - a);
  else
    return false;
  return true;
}

template <class T, sz N> struct dom
{
  using box = fcppt::math::box::object<T, N>;
  using vec = typename box::vector;
  using dimt = typename box::dim;
  static constexpr bool is_unsigned = std::is_unsigned_v<T>;
  // comma-free spellings for use inside VRT_CHECK
  static rbox<N> rd(box const &b) { return rdbox<T, N>(b); }
  static pt<N> rdv(vec const &v) { return rdvec<vec, N>(v); }
  static pt<N> rdd(dimt const &v) { return rdvec<dimt, N>(v); }

  ll lo, hi;   // corner range
  ll llo, lhi; // lattice range
  ll R, L;
  std::vector<rbox<N>> boxes; // every box with corners in [lo,hi]
  std::vector<box> fboxes;    // the same as real fcppt objects
  std::vector<mask> masks;    // explicit point sets over the lattice
  std::vector<char> nonempty, inverted;
  std::vector<pt<N>> minpt, maxpt; // extent of the point set (non-empty boxes only)
  std::vector<std::string> names;
  std::vector<pt<N>> points;     // lattice
  std::vector<std::size_t> iter; // boxes that are iterated over (all, or the non-empty ones)
  std::string tag;

  char const *fn(char const *f) const { return intern(std::string(f) + tag); }

  std::ptrdiff_t index_of(rbox<N> const &b) const
  {
    std::size_t idx = 0;
    for (sz i = 0; i < N; ++i)
    {
      if (b.p[i] < lo || b.p[i] > hi)
        return -1;
      idx = idx * static_cast<std::size_t>(R) + static_cast<std::size_t>(b.p[i] - lo);
    }
    for (sz i = 0; i < N; ++i)
    {
      if (b.m[i] < lo || b.m[i] > hi)
        return -1;
      idx = idx * static_cast<std::size_t>(R) + static_cast<std::size_t>(b.m[i] - lo);
    }
    return static_cast<std::ptrdiff_t>(idx);
  }

  dom(ll lo_, ll hi_, bool only_nonempty) : lo(lo_), hi(hi_)
  {
    llo = is_unsigned ? std::max<ll>(lo - 1, 0) : lo - 1;
    lhi = hi + 1;
    R = hi - lo + 1;
    L = lhi - llo + 1;
    tag = std::string("<") + tname<T>::v + "," + std::to_string(N) + ">";
    points = grid<N>(llo, lhi);
    if (points.size() > mask_bits)
    {
      vrt::fail("harness:mask_too_small", "lattice has more points than the mask has bits");
      points.clear();
    }
    std::vector<pt<N>> const corners = grid<N>(lo, hi);
    for (pt<N> const &p : corners)
      for (pt<N> const &m : corners)
      {
        rbox<N> b;
        b.p = p;
        b.m = m;
        boxes.push_back(b);
      }
    for (std::size_t i = 0; i < boxes.size(); ++i)
    {
      rbox<N> const &b = boxes[i];
      if (index_of(b) != static_cast<std::ptrdiff_t>(i))
        vrt::fail("harness:index", "box index is not the enumeration order");
      mask mk;
      pt<N> mn{}, mx{};
      bool any = false;
      for (std::size_t k = 0; k < points.size(); ++k)
        if (member<N>(b, points[k]))
        {
          mk.set(k);
          for (sz c = 0; c < N; ++c)
          {
            mn[c] = any ? std::min(mn[c], points[k][c]) : points[k][c];
            mx[c] = any ? std::max(mx[c], points[k][c]) : points[k][c];
          }
          any = true;
        }
      bool inv = false;
      for (sz c = 0; c < N; ++c)
        if (b.m[c] < b.p[c])
          inv = true;
      masks.push_back(mk);
      nonempty.push_back(any ? 1 : 0);
      inverted.push_back(inv ? 1 : 0);
      minpt.push_back(mn);
      maxpt.push_back(mx);
      names.push_back(show<N>(b));
      fboxes.push_back(mkbox<T, N>(b));
      if (!only_nonempty || any)
        iter.push_back(i);
    }
  }

  // "interesting" relative placement of two boxes: both non-empty and they share a boundary coordinate
  // on some axis (touching / flush edges) or overlap partially (common points, neither contains the other)
  bool interesting(std::size_t a, std::size_t b) const
  {
    if (!nonempty[a] || !nonempty[b])
      return false;
    rbox<N> const &A = boxes[a], &B = boxes[b];
    for (sz i = 0; i < N; ++i)
      if (A.p[i] == B.p[i] || A.p[i] == B.m[i] || A.m[i] == B.p[i] || A.m[i] == B.m[i])
        return true;
    mask const c = masks[a] & masks[b];
    return c.any() && c != masks[a] && c != masks[b];
  }

  // ------------------------------------------------------------------ pairs of boxes
  void pairs(unsigned part, unsigned nparts) const
  {
    char const *n_intersects = fn("intersects"), *n_intersection = fn("intersection"), *n_contains = fn("contains"),
               *n_extend = fn("extend_bounding_box(box,box)"), *n_distance = fn("distance"),
               *n_cmp = fn("comparison");
    std::string const s_intersects = n_intersects, s_intersection = n_intersection, s_contains = n_contains,
                      s_extend = n_extend, s_distance = n_distance, s_cmp = n_cmp;
    rbox<N> null_box; // all zero
    std::string d;
    d.reserve(256);
    for (std::size_t ia = 0; ia < iter.size(); ++ia)
    {
      if (ia % nparts != part)
        continue;
      if (vrt::out_of_time())
        return;
      std::size_t const a = iter[ia];
      box const &A = fboxes[a];
      for (std::size_t const b : iter)
      {
        box const &B = fboxes[b];
        d.assign("a=");
        d += names[a];
        d += " b=";
        d += names[b];
        mask const common = masks[a] & masks[b];
        bool const both = nonempty[a] && nonempty[b];
        bool const inter = interesting(a, b);

        // intersects: for non-empty boxes, true exactly when a common point exists
        if (both && vrt::begin_text(n_intersects, d))
        {
          vrt::nontrivial(inter);
          vrt::maybe_sample();
          bool const r = fcppt::math::box::intersects(A, B);
          VRT_CHECK(r == common.any(), s_intersects + (r ? ":spurious" : ":missed"), "intersects=%d, common points=%zu",
                    int(r), common.count());
        }
        // intersection: contains exactly the common points (all boxes); null box for non-empty disjoint inputs
        if (vrt::begin_text(n_intersection, d))
        {
          vrt::nontrivial(inter);
          vrt::maybe_sample();
          rbox<N> const r = rd(fcppt::math::box::intersection(A, B));
          std::ptrdiff_t const ri = index_of(r);
          if (ri < 0)
            vrt::fail(s_intersection + ":corner_outside_inputs", "result " + show<N>(r));
          else
            VRT_CHECK(masks[static_cast<std::size_t>(ri)] == common, s_intersection + ":point_set",
                      "result %s has %zu points, the boxes have %zu common points", show<N>(r).c_str(),
                      masks[static_cast<std::size_t>(ri)].count(), common.count());
          if (both && common.none())
            VRT_CHECK(r == null_box, s_intersection + ":not_null", "disjoint non-empty boxes gave %s, not the null box",
                      show<N>(r).c_str());
        }
        // contains(outer=a, inner=b): for non-empty inner, true exactly when inner is a subset of outer
        if (nonempty[b] && vrt::begin_text(n_contains, d))
        {
          vrt::nontrivial(inter);
          bool const r = fcppt::math::box::contains(A, B);
          bool const subset = (masks[b] & ~masks[a]).none();
          VRT_CHECK(r == subset, s_contains + (r ? ":spurious" : ":missed"), "contains=%d, inner\\outer has %zu points",
                    int(r), (masks[b] & ~masks[a]).count());
        }
        // extend_bounding_box of two non-empty boxes: the smallest box containing both
        if (both && vrt::begin_text(n_extend, d))
        {
          vrt::nontrivial(inter);
          rbox<N> const r = rd(fcppt::math::box::extend_bounding_box(A, B));
          rbox<N> want;
          for (sz i = 0; i < N; ++i)
          {
            want.p[i] = std::min(minpt[a][i], minpt[b][i]);
            want.m[i] = std::max(maxpt[a][i], maxpt[b][i]) + 1;
          }
          VRT_CHECK(r == want, s_extend + ":wrong", "got %s, hull of the two point sets is %s", show<N>(r).c_str(),
                    show<N>(want).c_str());
          // the same from the point sets alone: contains the union, and no face can be moved inwards
          std::ptrdiff_t const ri = index_of(r);
          mask const uni = masks[a] | masks[b];
          if (ri < 0)
            vrt::fail(s_extend + ":corner_outside_inputs", "result " + show<N>(r));
          else
          {
            VRT_CHECK((uni & ~masks[static_cast<std::size_t>(ri)]).none(), s_extend + ":not_superset",
                      "result %s misses points of the inputs", show<N>(r).c_str());
            for (sz i = 0; i < N; ++i)
              for (int side = 0; side < 2; ++side)
              {
                rbox<N> s = r;
                if (side == 0)
                  ++s.p[i];
                else
                  --s.m[i];
                std::ptrdiff_t const si = index_of(s);
                if (si >= 0)
                  VRT_CHECK((uni & ~masks[static_cast<std::size_t>(si)]).any(), s_extend + ":not_minimal",
                            "result %s can be shrunk on axis %d side %d", show<N>(r).c_str(), int(i), side);
              }
          }
        }
        // distance: per axis the documented interval distance (only where the documentation determines it)
        if (both)
        {
          pt<N> want{};
          bool defined = true, neg = false;
          for (sz i = 0; i < N && defined; ++i)
          {
            defined = ref_interval_distance(boxes[a].p[i], boxes[a].m[i], boxes[b].p[i], boxes[b].m[i], want[i]);
            if (want[i] < 0)
              neg = true;
          }
          if (defined && !(is_unsigned && neg) && vrt::begin_text(n_distance, d))
          {
            vrt::nontrivial(neg || inter);
            pt<N> const r = rdv(fcppt::math::box::distance(A, B));
            bool ok = true;
            for (sz i = 0; i < N; ++i)
              if (static_cast<T>(want[i]) != static_cast<T>(r[i]))
                ok = false;
            VRT_CHECK(ok, s_distance + ":wrong", "got %s want %s", show<N>(r).c_str(), show<N>(want).c_str());
          }
        }
        // comparison: == is equality of the corners; < is the documented lexicographic order on (pos,size)
        if (vrt::begin_text(n_cmp, d))
        {
          vrt::nontrivial(a != b && boxes[a].p == boxes[b].p);
          bool const eq = A == B, ne = A != B, lt = A < B, gt = B < A;
          bool const same = boxes[a] == boxes[b];
          VRT_CHECK(eq == same, s_cmp + ":eq", "operator== gives %d", int(eq));
          VRT_CHECK(ne == !same, s_cmp + ":ne", "operator!= gives %d", int(ne));
          std::array<T, 2 * N> ka{}, kb{};
          for (sz i = 0; i < N; ++i)
          {
            ka[i] = static_cast<T>(boxes[a].p[i]);
            kb[i] = static_cast<T>(boxes[b].p[i]);
            // size in T's own arithmetic (wraps for inverted unsigned boxes, as box::size() does)
            ka[N + i] = static_cast<T>(static_cast<T>(boxes[a].m[i]) - static_cast<T>(boxes[a].p[i]));
            kb[N + i] = static_cast<T>(static_cast<T>(boxes[b].m[i]) - static_cast<T>(boxes[b].p[i]));
          }
          VRT_CHECK(lt == (ka < kb), s_cmp + ":lt", "operator< gives %d, lexicographic (pos,size) gives %d", int(lt),
                    int(ka < kb));
          VRT_CHECK(int(lt) + int(gt) + int(eq) == 1, s_cmp + ":trichotomy", "lt=%d gt=%d eq=%d", int(lt), int(gt),
                    int(eq));
        }
      }
    }
  }

  // ------------------------------------------------------------------ box x lattice point
  void point_cases() const
  {
    char const *n_cp = fn("contains_point"), *n_ep = fn("extend_bounding_box(box,point)");
    std::string const s_cp = n_cp, s_ep = n_ep;
    std::string d;
    d.reserve(256);
    for (std::size_t const a : iter)
    {
      if (vrt::out_of_time())
        return;
      box const &A = fboxes[a];
      rbox<N> const &ra = boxes[a];
      for (std::size_t k = 0; k < points.size(); ++k)
      {
        pt<N> const &x = points[k];
        d.assign("a=");
        d += names[a];
        d += " p=";
        d += show<N>(x);
        bool const in = member<N>(ra, x);
        if (in != masks[a].test(k))
          vrt::fail("harness:mask", "mask bit differs from the membership predicate");
        bool boundary = false;
        for (sz i = 0; i < N; ++i)
          if (x[i] == ra.p[i] - 1 || x[i] == ra.p[i] || x[i] == ra.m[i] - 1 || x[i] == ra.m[i])
            boundary = true;
        vec const X = mkvec<T, N>(x);
        if (vrt::begin_text(n_cp, d))
        {
          vrt::nontrivial(nonempty[a] && boundary);
          vrt::maybe_sample();
          bool const r = fcppt::math::box::contains_point(A, X);
          VRT_CHECK(r == in, s_cp + (r ? ":spurious" : ":missed"), "contains_point=%d, membership=%d", int(r), int(in));
        }
        // extend_bounding_box(box, point) is not part of the statement's two-box clause.  Its documentation
        // ("the same box if the point is contained, else just big enough to hold the point") and the
        // repository's own test fix the closed-hull reading min(p,pos)/max(p,max); the point then lies ON the
        // exclusive maximum, which is counted as information, not as a violation.
        if (!inverted[a] && vrt::begin_text(n_ep, d))
        {
          vrt::nontrivial(!in);
          rbox<N> const r = rd(fcppt::math::box::extend_bounding_box(A, X));
          if (in)
            VRT_CHECK(r == ra, s_ep + ":changed", "point is inside but the box changed to %s", show<N>(r).c_str());
          rbox<N> want;
          for (sz i = 0; i < N; ++i)
          {
            want.p[i] = std::min(x[i], ra.p[i]);
            want.m[i] = std::max(x[i], ra.m[i]);
          }
          VRT_CHECK(r == want, s_ep + ":hull", "got %s want closed hull %s", show<N>(r).c_str(), show<N>(want).c_str());
          if (!member<N>(r, x))
            vrt::count("info:extend_point_result_excludes_point(half-open)");
        }
      }
    }
  }

  // ------------------------------------------------------------------ single boxes
  template <sz I> void interval_check(box const &A, rbox<N> const &ra, std::string const &s) const
  {
    auto const t = fcppt::math::box::interval<I>(A);
    VRT_CHECK(static_cast<T>(ra.p[I]) == fcppt::tuple::get<0>(t) && static_cast<T>(ra.m[I]) == fcppt::tuple::get<1>(t),
              s + ":interval", "interval<%d> is not (pos,max)", int(I));
  }

  void unary() const
  {
    char const *n_obj = fn("object"), *n_corner = fn("corner_points"), *n_center = fn("center");
    std::string const s_obj = n_obj, s_corner = n_corner, s_center = n_center;
    std::string d;
    // the null box is the box at the origin with size zero; it is empty
    if (vrt::begin_text(n_obj, "null box"))
    {
      rbox<N> const r = rd(fcppt::math::box::null<box>());
      rbox<N> zero;
      VRT_CHECK(r == zero, s_obj + ":null", "null box is %s", show<N>(r).c_str());
    }
    for (std::size_t const a : iter)
    {
      box const &A = fboxes[a];
      rbox<N> const &ra = boxes[a];
      d.assign("a=");
      d += names[a];
      bool representable = true; // size = max - pos is representable in T
      pt<N> sizes{};
      for (sz i = 0; i < N; ++i)
      {
        sizes[i] = ra.m[i] - ra.p[i];
        if (is_unsigned && sizes[i] < 0)
          representable = false;
      }
      if (vrt::begin_text(n_obj, d))
      {
        vrt::nontrivial(nonempty[a] != 0);
        vrt::maybe_sample();
        VRT_CHECK(rd(A) == ra, s_obj + ":min_max_ctor", "pos()/max() differ from the constructor arguments");
        pt<N> const sz_got = rdd(A.size());
        if (representable)
        {
          VRT_CHECK(sz_got == sizes, s_obj + ":size", "size() is %s, max-pos is %s", show<N>(sz_got).c_str(),
                    show<N>(sizes).c_str());
          box const viadim(mkvec<T, N>(ra.p), mkdim<T, N>(sizes)); // (pos, size) constructor
          VRT_CHECK(rd(viadim) == ra, s_obj + ":pos_dim_ctor", "box(pos,size) has max %s",
                    show<N>(rd(viadim).m).c_str());
          VRT_CHECK(viadim == A && !(viadim != A), s_obj + ":pos_dim_ctor_eq", "box(pos,size) != box(pos,pos+size)");
          box const im = fcppt::math::box::init_dim<box>(
              [&ra, &sizes]<sz I>(fcppt::math::size_constant<I>)
              { return fcppt::tuple::make(static_cast<T>(ra.p[I]), static_cast<T>(sizes[I])); });
          VRT_CHECK(rd(im) == ra, s_obj + ":init_dim", "init_dim gives %s", show<N>(rd(im)).c_str());
        }
        if (nonempty[a])
        {
          // consistent with the point set: pos = least point, max = greatest point + 1, size = number of
          // distinct coordinates per axis
          for (sz i = 0; i < N; ++i)
          {
            VRT_CHECK(static_cast<ll>(A.pos().get_unsafe(i)) == minpt[a][i], s_obj + ":pos_vs_points", "axis %d", int(i));
            VRT_CHECK(static_cast<ll>(A.max().get_unsafe(i)) == maxpt[a][i] + 1, s_obj + ":max_vs_points", "axis %d",
                      int(i));
            VRT_CHECK(sz_got[i] == maxpt[a][i] - minpt[a][i] + 1, s_obj + ":size_vs_points", "axis %d", int(i));
          }
          ll vol = 1;
          for (sz i = 0; i < N; ++i)
            vol *= sz_got[i];
          VRT_CHECK(static_cast<std::size_t>(vol) == masks[a].count(), s_obj + ":volume", "product of size() is %lld, %zu points",
                    vol, masks[a].count());
        }
        box const imx = fcppt::math::box::init_max<box>(
            [&ra]<sz I>(fcppt::math::size_constant<I>)
            { return fcppt::tuple::make(static_cast<T>(ra.p[I]), static_cast<T>(ra.m[I])); });
        VRT_CHECK(rd(imx) == ra, s_obj + ":init_max", "init_max gives %s", show<N>(rd(imx)).c_str());
        VRT_CHECK(A.left() == static_cast<T>(ra.p[0]) && A.right() == static_cast<T>(ra.m[0]), s_obj + ":left_right",
                  "left/right");
        interval_check<0>(A, ra, s_obj);
        if constexpr (N >= 2)
        {
          VRT_CHECK(A.top() == static_cast<T>(ra.p[1]) && A.bottom() == static_cast<T>(ra.m[1]), s_obj + ":top_bottom",
                    "top/bottom");
          interval_check<1>(A, ra, s_obj);
        }
        if constexpr (N >= 3)
        {
          VRT_CHECK(A.front() == static_cast<T>(ra.p[2]) && A.back() == static_cast<T>(ra.m[2]), s_obj + ":front_back",
                    "front/back");
          interval_check<2>(A, ra, s_obj);
        }
        // setters through the reference getters
        box M = fboxes[0];
        M.pos() = A.pos();
        M.max() = A.max();
        VRT_CHECK(rd(M) == ra, s_obj + ":setters", "pos()/max() as setters");
      }
      // corner_points: the 2^N vertices; vertex k takes max on axis i iff bit i of k is set (order documented
      // in vector::bit_strings)
      if (vrt::begin_text(n_corner, d))
      {
        vrt::nontrivial(nonempty[a] != 0);
        auto const cp = fcppt::math::box::corner_points(A);
        std::size_t const n = std::size_t(1) << N;
        VRT_CHECK(cp.size() == n, s_corner + ":count", "%zu corners", std::size_t(cp.size()));
        std::vector<pt<N>> got, want;
        for (std::size_t k = 0; k < n && k < cp.size(); ++k)
        {
          pt<N> g{}, w{};
          for (sz i = 0; i < N; ++i)
          {
            g[i] = static_cast<ll>(cp.get_unsafe(k).get_unsafe(i));
            w[i] = ((k >> i) & 1U) ? ra.m[i] : ra.p[i];
          }
          got.push_back(g);
          want.push_back(w);
        }
        bool const order_ok = got == want;
        std::sort(got.begin(), got.end());
        std::sort(want.begin(), want.end());
        VRT_CHECK(got == want, s_corner + ":set", "the corners are not {pos_i,max_i}^N");
        if (got == want)
          VRT_CHECK(order_ok, s_corner + ":order", "corner order differs from bit_strings order");
      }
      // center: pos + size/2 computed in T (documented as possibly not the real centre); for a non-empty box
      // it is a point of the box and within 1/2 of the real centre
      if (!inverted[a] && vrt::begin_text(n_center, d))
      {
        vrt::nontrivial(nonempty[a] != 0);
        pt<N> const c = rdv(fcppt::math::box::center(A));
        for (sz i = 0; i < N; ++i)
        {
          ll const twice = 2 * c[i] - (ra.p[i] + ra.m[i]);
          VRT_CHECK(twice == 0 || twice == -1, s_center + ":wrong", "axis %d: centre %lld of [%lld,%lld)", int(i), c[i],
                    ra.p[i], ra.m[i]);
        }
        if (nonempty[a])
          VRT_CHECK(member<N>(ra, c), s_center + ":outside", "centre %s is not a point of the box", show<N>(c).c_str());
      }
    }
  }

  // ------------------------------------------------------------------ shrink / stretch_absolute
  // shrink(b,v), v>=0      = { x : x+d in b for ALL d with |d_i| <= v_i }   (erosion by the cube)
  // stretch_absolute(b,v)  = { x : x+d in b for SOME d with |d_i| <= v_i }  (dilation; non-empty b only)
  void shrink_stretch(ll vmax) const
  {
    char const *n_sh = fn("shrink"), *n_st = fn("stretch_absolute");
    std::string const s_sh = n_sh, s_st = n_st;
    ll const blo = is_unsigned ? std::max<ll>(lo - vmax - 1, 0) : lo - vmax - 1, bhi = hi + vmax + 1;
    std::vector<pt<N>> const big = grid<N>(blo, bhi);
    std::vector<pt<N>> const vs = grid<N>(0, vmax);
    std::string d;
    for (std::size_t const a : iter)
    {
      if (vrt::out_of_time())
        return;
      box const &A = fboxes[a];
      rbox<N> const &ra = boxes[a];
      for (pt<N> const &v : vs)
      {
        d.assign("a=");
        d += names[a];
        d += " v=";
        d += show<N>(v);
        bool any_v = false, sh_repr = true, st_repr = true;
        pt<N> mv{};
        for (sz i = 0; i < N; ++i)
        {
          if (v[i] > 0)
            any_v = true;
          if (is_unsigned && ra.m[i] - v[i] < 0)
            sh_repr = false;
          if (is_unsigned && ra.p[i] - v[i] < 0)
            st_repr = false;
          mv[i] = -v[i];
        }
        std::vector<pt<N>> const cube = offsets(v);
        vec const V = mkvec<T, N>(v);
        for (int which = 0; which < 2; ++which)
        {
          bool const is_shrink = which == 0;
          if (is_shrink ? !sh_repr : (!st_repr || !nonempty[a]))
            continue;
          if (!vrt::begin_text(is_shrink ? n_sh : n_st, d))
            continue;
          vrt::nontrivial(any_v && nonempty[a]);
          vrt::maybe_sample();
          std::string const &s = is_shrink ? s_sh : s_st;
          rbox<N> const r = rd(is_shrink ? fcppt::math::box::shrink(A, V) : fcppt::math::box::stretch_absolute(A, V));
          bool in_range = true;
          for (sz i = 0; i < N; ++i)
            if (r.p[i] < blo || r.p[i] > bhi || r.m[i] < blo || r.m[i] > bhi)
              in_range = false;
          VRT_CHECK(in_range, s + ":corner_out_of_range", "result %s", show<N>(r).c_str());
          for (pt<N> const &x : big)
          {
            bool want = is_shrink;
            for (pt<N> const &o : cube)
            {
              pt<N> y = x;
              for (sz i = 0; i < N; ++i)
                y[i] += o[i];
              bool const in = member<N>(ra, y);
              if (is_shrink && !in)
              {
                want = false;
                break;
              }
              if (!is_shrink && in)
              {
                want = true;
                break;
              }
            }
            if (member<N>(r, x) != want)
            {
              vrt::fail(s + ":point_set", "result " + show<N>(r) + (want ? " misses " : " wrongly contains ") + show<N>(x));
              break;
            }
          }
        }
      }
    }
  }

  // all d with |d_i| <= v_i
  static std::vector<pt<N>> offsets(pt<N> const &v)
  {
    std::vector<pt<N>> r;
    pt<N> x;
    for (sz i = 0; i < N; ++i)
      x[i] = -v[i];
    for (;;)
    {
      r.push_back(x);
      sz i = N;
      bool done = true;
      while (i > 0)
      {
        --i;
        if (x[i] < v[i])
        {
          ++x[i];
          done = false;
          break;
        }
        x[i] = -v[i];
      }
      if (done)
        return r;
    }
  }
};

// corner range of "radius" r: [-r,r] for signed T, [0,2r] for unsigned T
template <class T> inline std::pair<ll, ll> range(ll r)
{
  if constexpr (std::is_unsigned_v<T>)
    return {0, 2 * r};
  else
    return {-r, r};
}

// The corner "radius" is chosen inside the shard (the tier is not known while shards are registered):
// rq in the quick tier, rt in the thorough tier.  Shard names do not depend on the tier.
template <class T, sz N> inline void reg_small(std::string const &name, ll rq, ll rt, ll vmax)
{
  vrt::shard(name, [rq, rt, vmax] {
    auto const rg = range<T>(vrt::thorough() ? rt : rq);
    dom<T, N> const D(rg.first, rg.second, false);
    D.unary();
    D.point_cases();
    D.shrink_stretch(vmax);
  });
}
template <class T, sz N>
inline void reg_pairs(std::string const &name, ll rq, ll rt, bool only_nonempty, unsigned nparts)
{
  for (unsigned p = 0; p < nparts; ++p)
    vrt::shard(name + "/" + std::to_string(p), [rq, rt, only_nonempty, p, nparts] {
      auto const rg = range<T>(vrt::thorough() ? rt : rq);
      dom<T, N> const D(rg.first, rg.second, only_nonempty);
      D.pairs(p, nparts);
    });
}

// registration of the shards of one coordinate type (defined in C13_<type>.cpp)
void reg_int();
void reg_unsigned();
void reg_wide();

template <class T> inline void reg_full()
{
  std::string const t = tname<T>::v;
  // 1-D: corners [-4,4] (thorough [-8,8]); all boxes, all pairs
  reg_small<T, 1>("single<" + t + ",1>", 4, 8, 2);
  reg_pairs<T, 1>("pairs<" + t + ",1>", 4, 8, false, 1);
  // 2-D: corners [-2,2] quick, [-3,3] thorough; all pairs of all boxes
  reg_small<T, 2>("single<" + t + ",2>", 2, 3, 2);
  reg_pairs<T, 2>("pairs<" + t + ",2>", 2, 3, false, 16);
  // 3-D: corners [-1,1]; all pairs of all boxes
  reg_small<T, 3>("single<" + t + ",3>", 1, 1, 2);
  reg_pairs<T, 3>("pairs<" + t + ",3>", 1, 1, false, 8);
  // wider corner ranges, non-empty boxes only (all relative placements with gaps and strict nesting)
  reg_pairs<T, 2>("pairs_nonempty<" + t + ",2>", 3, 5, true, 16);
  reg_pairs<T, 3>("pairs_nonempty<" + t + ",3>", 2, 2, true, 8);
}
}

#endif

// C12 (c) -- fault enumeration (environment deviations, bound 1): the stream reads from a
// custom std::basic_streambuf that delivers the text one character at a time and misbehaves
// at the k-th read (or k-th seek), for every k that a fixed script reaches:
//   EOF_ONCE     the k-th read reports end-of-file although characters remain (transient)
//   EOF_FOREVER  the k-th and every later read report end-of-file (truncated input)
//   THROW_READ   the k-th read throws (the std stream turns that into badbit)
//   SEEK_FAIL    the k-th seekoff/seekpos returns pos_type(-1)
//   SEEK_THROW   the k-th seekoff/seekpos throws
// Oracle (deliberately permissive about *recovery*, strict about what the statement says):
//   * the get_char during which the fault fires never yields a character;
//   * a character that is yielded is always the next character of the text after the model
//     index, a position that is returned always equals the model (offset, line, column) --
//     a failed read consumes nothing;
//   * fcppt::parse::detail::exception may only be thrown once a fault has fired; no other
//     exception type may escape;
//   * before any fault, and after a set_position that returned normally, reads must deliver
//     (unless the buffer faults again);
//   * through the documented entry point phrase_parse_stream(*char_, ...) the result is a
//     failure or a success holding a prefix of the text that stops before the failing read;
//     a throwing buffer (THROW_READ) must give a failure ("catches all exceptions produced by
//     _input and returns them as an error").
#include "C12_common.hpp"
#include "C12_faultbuf.hpp"

#include <fcppt/parse/basic_char.hpp>
#include <fcppt/parse/error.hpp>
#include <fcppt/parse/phrase_parse_stream.hpp>
#include <fcppt/parse/result.hpp>
#include <fcppt/parse/operators/repetition.hpp>
#include <fcppt/parse/skipper/epsilon.hpp>

#include <stdexcept>
#include <streambuf>

namespace
{
using namespace c12;

// number of violations recorded so far in this process (to tell "the fault was not reached because an
// earlier check of this case already failed" from a broken harness)
std::uint64_t fails()
{
  std::uint64_t c = 0;
  for (auto const &kv : vrt::S().viol_count)
    c += kv.second;
  return c;
}

template <class Ch> struct fault_runner
{
  std::basic_string<Ch> const &text;
  faulty_buf<Ch> buf;
  std::basic_istream<Ch> is;
  real_stream<Ch> rs;
  std::string const t = std::string("<") + cname<Ch>::v + ">";
  // model
  std::size_t index = 0;
  bool must_deliver = true; // no fault fired yet, or a set_position returned normally since
  struct saved
  {
    std::size_t index;
    position<Ch> pos;
  };
  std::vector<saved> slots;
  bool aborted = false;

  fault_runner(std::basic_string<Ch> const &tx, int mode, int k) : text(tx), buf(tx, mode, k), is(&buf), rs(is) {}

  std::string where() const { return vrt::fmt("index %zu of %s, read #%d seek #%d", index, show_text(text).c_str(), buf.reads, buf.seeks); }

  template <class F> bool guarded(char const *opname, F &&f)
  {
    buf.fired_now = false;
    try
    {
      f();
      return true;
    }
    catch (fcppt::parse::detail::exception<Ch> const &e)
    {
      VRT_CHECK(buf.fired_ever, std::string(opname) + t + ":exception_without_fault", "'%s' at %s although the buffer never failed",
                narrow_msg(e.what()).c_str(), where().c_str());
      must_deliver = false;
    }
    catch (std::exception const &e)
    {
      vrt::fail(std::string(opname) + t + ":foreign_exception", std::string(e.what()) + " escaped at " + where());
      aborted = true;
    }
    return false;
  }

  // returns true if a character was delivered
  bool gc()
  {
    bool delivered = false;
    guarded("get_char", [&] {
      fcppt::optional::object<Ch> const got = fcppt::parse::get_char(rs.ref());
      if (buf.fired_now)
      {
        VRT_CHECK(!got.has_value(), "get_char" + t + ":char_from_failing_read:" + mode_name(buf.mode), "%s: the read failed, get_char returned %s",
                  where().c_str(), show_opt(got).c_str());
        must_deliver = false;
      }
      if (got.has_value())
      {
        VRT_CHECK(index < text.size() && got.get_unsafe() == text[index], "get_char" + t + ":wrong_char_under_fault:" + mode_name(buf.mode),
                  "%s: got %s", where().c_str(), show_opt(got).c_str());
        if (index < text.size())
          ++index;
        delivered = true;
      }
      else if (index < text.size() && !buf.fired_now)
        VRT_CHECK(!must_deliver, "get_char" + t + ":nothing_before_end:" + mode_name(buf.mode), "%s: nothing although characters remain and no fault is pending",
                  where().c_str());
    });
    return delivered;
  }
  void gp()
  {
    guarded("get_position", [&] {
      position<Ch> const p = fcppt::parse::get_position(rs.ref());
      std::string const d = position_diff(p, text, index);
      VRT_CHECK(d.empty(), "get_position" + t + ":wrong_under_fault:" + mode_name(buf.mode), "%s: %s", where().c_str(), d.c_str());
      if (d.empty())
        slots.push_back(saved{index, p});
    });
  }
  void sp(saved const &s)
  {
    guarded("set_position", [&] {
      fcppt::parse::set_position(rs.ref(), s.pos);
      if (buf.fired_now)
      {
        // the seek failed but set_position returned normally: the stream is still where it was
        vrt::fail("set_position" + t + ":failed_seek_ignored:" + mode_name(buf.mode), where() + ": the seek failed, set_position returned normally");
        must_deliver = false;
        return;
      }
      index = s.index;
      must_deliver = true;
    });
  }

  void script()
  {
    std::size_t const n = text.size();
    for (std::size_t i = 0; i < n + 2 && !aborted; ++i)
    {
      gp();
      gc();
    }
    gp();
    gc();
    std::vector<saved> const first = slots; // positions saved during the first pass
    for (std::size_t j = first.size(); j-- > 0 && !aborted;)
    {
      sp(first[j]);
      for (std::size_t i = 0; i < n + 2 && !aborted; ++i)
      {
        gp();
        if (!gc())
          break;
      }
    }
  }
};

template <class Ch> void direct_case(char const *fn, std::basic_string<Ch> const &text, int mode, int k, int &reads, int &seeks)
{
  if (!vrt::begin_text(fn, vrt::fmt("script on %s, %s at #%d", show_text(text).c_str(), mode_name(mode), k)))
  {
    // still needed: the counts of the fault-free run steer the loops; recompute them without announcing
    if (mode == NONE)
    {
      fault_runner<Ch> r(text, NONE, 0);
      r.script();
      reads = r.buf.reads;
      seeks = r.buf.seeks;
    }
    return;
  }
  vrt::nontrivial(mode != NONE);
  vrt::maybe_sample();
  std::uint64_t const f0 = fails();
  fault_runner<Ch> r(text, mode, k);
  r.script();
  reads = r.buf.reads;
  seeks = r.buf.seeks;
  if (mode == NONE)
  {
    VRT_CHECK(fails() != f0 || (!r.buf.fired_ever && r.index == text.size() && reads > 0 && seeks > 0), "harness:fault_free_run",
              "fault-free script ended at index %zu after %d reads, %d seeks", r.index, reads, seeks);
  }
  else // the run is identical to the fault-free one up to the k-th read/seek, so it must get there (unless a check failed on the way)
    VRT_CHECK(r.buf.fired_ever || fails() != f0, "harness:fault_not_reached", "%s #%d was never reached", mode_name(mode), k);
}

template <class Ch> void phrase_case(char const *fn, std::basic_string<Ch> const &text, int mode, int k, int &reads, int &seeks)
{
  bool const announced = vrt::begin_text(fn, vrt::fmt("phrase_parse_stream(*char_) on %s, %s at #%d", show_text(text).c_str(), mode_name(mode), k));
  if (!announced && mode != NONE)
    return;
  std::string const t = std::string("<") + cname<Ch>::v + ">";
  faulty_buf<Ch> buf(text, mode, k);
  std::basic_istream<Ch> is(&buf);
  struct counts
  {
    faulty_buf<Ch> &b;
    int &r, &s;
    ~counts()
    {
      r = b.reads;
      s = b.seeks;
    }
  } const at_exit{buf, reads, seeks};
  if (!announced)
  {
    // skipped case (resume/replay): the counts of the fault-free run still steer the loops
    try
    {
      (void)fcppt::parse::phrase_parse_stream(*fcppt::parse::basic_char<Ch>{}, is, fcppt::parse::skipper::epsilon());
    }
    catch (...)
    {
    }
    return;
  }
  vrt::nontrivial(mode != NONE);
  vrt::maybe_sample();
  std::uint64_t const f0 = fails();
  try
  {
    fcppt::parse::result<Ch, std::basic_string<Ch>> const res =
        fcppt::parse::phrase_parse_stream(*fcppt::parse::basic_char<Ch>{}, is, fcppt::parse::skipper::epsilon());
    if (mode == NONE)
    {
      VRT_CHECK(res.has_success() && res.get_success_unsafe() == text, "phrase_parse_stream" + t + ":healthy", "healthy stream: %s",
                res.has_success() ? show_text(res.get_success_unsafe()).c_str() : narrow_msg(res.get_failure_unsafe().get()).c_str());
      return;
    }
    if (!buf.fired_ever)
    {
      VRT_CHECK(fails() != f0, "harness:fault_not_reached", "%s #%d not reached", mode_name(mode), k);
      return;
    }
    if (res.has_success())
    {
      std::basic_string<Ch> const &v = res.get_success_unsafe();
      bool const prefix = v.size() <= text.size() && text.compare(0, v.size(), v) == 0;
      VRT_CHECK(prefix, "phrase_parse_stream" + t + ":not_a_prefix:" + mode_name(mode), "result %s is not a prefix of %s", show_text(v).c_str(),
                show_text(text).c_str());
      if (mode == EOF_ONCE || mode == EOF_FOREVER)
        VRT_CHECK(static_cast<int>(v.size()) <= k - 1, "phrase_parse_stream" + t + ":char_from_failing_read:" + mode_name(mode),
                  "result %s has more than the %d characters read before the failing read", show_text(v).c_str(), k - 1);
      VRT_CHECK(mode != THROW_READ && mode != SEEK_THROW, "phrase_parse_stream" + t + ":success_on_throwing_buffer:" + mode_name(mode),
                "the buffer threw at #%d, the result is success %s", k, show_text(v).c_str());
    }
  }
  catch (fcppt::parse::detail::exception<Ch> const &e)
  {
    vrt::fail("phrase_parse_stream" + t + ":stream_exception_escaped:" + mode_name(mode), "'" + narrow_msg(e.what()) + "' escaped from phrase_parse_stream");
  }
  catch (std::exception const &e)
  {
    vrt::fail("phrase_parse_stream" + t + ":foreign_exception:" + mode_name(mode), std::string(e.what()) + " escaped from phrase_parse_stream");
  }
}

template <class Ch> void fault_part(int maxlen, unsigned part, unsigned nparts)
{
  std::string const fd = std::string("fault_direct<") + cname<Ch>::v + ">";
  std::string const fp = std::string("fault_phrase<") + cname<Ch>::v + ">";
  int const ntexts = texts_upto(maxlen);
  for (int no = 0; no < ntexts; ++no)
  {
    if (static_cast<unsigned>(no) % nparts != part)
      continue;
    if (vrt::out_of_time())
      return;
    std::basic_string<Ch> const text = text_by_number<Ch>(0, no);
    int reads = 0, seeks = 0;
    direct_case<Ch>(fd.c_str(), text, NONE, 0, reads, seeks);
    for (int mode = EOF_ONCE; mode <= SEEK_THROW; ++mode)
    {
      int const limit = (mode == SEEK_FAIL || mode == SEEK_THROW) ? seeks : reads;
      for (int k = 1; k <= limit; ++k)
      {
        int r2 = 0, s2 = 0;
        direct_case<Ch>(fd.c_str(), text, mode, k, r2, s2);
      }
    }
    // documented entry point; on a healthy stream *char_ performs n+1 reads (the last one hits the end) and
    // n+2 seeks (tellg before the loop and after each element, seekg at the end): taken from the fault-free run
    int preads = 0, pseeks = 0;
    phrase_case<Ch>(fp.c_str(), text, NONE, 0, preads, pseeks);
    for (int mode = EOF_ONCE; mode <= SEEK_THROW; ++mode)
    {
      int const limit = (mode == SEEK_FAIL || mode == SEEK_THROW) ? pseeks : preads;
      for (int k = 1; k <= limit; ++k)
      {
        int r2 = 0, s2 = 0;
        phrase_case<Ch>(fp.c_str(), text, mode, k, r2, s2);
      }
    }
  }
}
}

void c12::register_fault()
{
  constexpr unsigned nparts = 8;
  for (unsigned part = 0; part < nparts; ++part)
  {
    vrt::shard("fault<char>/" + std::to_string(part), [part] { fault_part<char>(vrt::thorough() ? 7 : 5, part, nparts); });
    vrt::shard("fault<wchar_t>/" + std::to_string(part), [part] { fault_part<wchar_t>(vrt::thorough() ? 7 : 5, part, nparts); });
  }
}

// C15 -- textual and binary encodings round-trip losslessly.
// Engine E: exhaustive enumeration.  This file: main() and the binary encodings
// (io::write / io::read with both std::endian values, endianness::swap / convert / reverse_mem).
//
// Reference for the byte layout: the value's bit pattern p (an unsigned integer of the same
// size) written most-significant byte first for big endian, least-significant byte first
// for little endian, computed with shifts -- independent of fcppt and of the host byte order.
#include "C15_common.hpp"

#include <fcppt/endianness/convert.hpp>
#include <fcppt/endianness/reverse_mem.hpp>
#include <fcppt/endianness/swap.hpp>
#include <fcppt/io/read.hpp>
#include <fcppt/io/write.hpp>
#include <fcppt/optional/object_impl.hpp>

#include <bit>
#include <clocale>
#include <cmath>
#include <cstdlib>
#include <cstring>
#include <memory>
#include <new>
#include <sstream>

namespace
{
using namespace c15;
using u8 = std::uint8_t;
using i8 = std::int8_t;
using u16 = std::uint16_t;
using i16 = std::int16_t;
using u32 = std::uint32_t;
using i32 = std::int32_t;
using u64 = std::uint64_t;
using i64 = std::int64_t;

template <std::size_t N> struct uint_of;
template <> struct uint_of<1> { using type = u8; };
template <> struct uint_of<2> { using type = u16; };
template <> struct uint_of<4> { using type = u32; };
template <> struct uint_of<8> { using type = u64; };
template <class T> using bits_t = typename uint_of<sizeof(T)>::type;

template <class T> bits_t<T> to_bits(T const &v)
{
  bits_t<T> b;
  std::memcpy(&b, &v, sizeof b);
  return b;
}
template <class T> T from_bits(bits_t<T> b)
{
  T v;
  std::memcpy(&v, &b, sizeof b);
  return v;
}

inline u64 rev_bytes(u64 p, unsigned n)
{
  u64 r = 0;
  for (unsigned i = 0; i < n; ++i)
    r |= ((p >> (8 * i)) & 0xffu) << (8 * (n - 1 - i));
  return r;
}

// expected stream content of bit pattern p in n bytes
inline std::string layout(u64 p, unsigned n, bool big)
{
  std::string s;
  for (unsigned i = 0; i < n; ++i)
    s += static_cast<char>(static_cast<unsigned char>((p >> (8 * (big ? n - 1 - i : i))) & 0xffu));
  return s;
}

// the enumerated bit patterns of T
template <class T> std::vector<u64> patterns()
{
  constexpr unsigned n = sizeof(T);
  std::vector<u64> r;
  if constexpr (std::is_same_v<T, bool>)
    return {0, 1};
  else if constexpr (n <= 2)
  {
    for (u64 p = 0; p < (u64(1) << (8 * n)); ++p)
      r.push_back(p);
    return r;
  }
  else
  {
    u64 const mask = n == 8 ? ~u64(0) : ((u64(1) << (8 * n)) - 1);
    std::set<u64> s;
    auto add = [&](u64 p) {
      s.insert(p & mask);
      s.insert(~p & mask);
    };
    // boundary lattice of the signed and unsigned integer of this size (as bit patterns; for
    // floating point types these are simply further patterns)
    using S = std::make_signed_t<bits_t<T>>;
    for (auto v : lattice<S>())
      add(static_cast<u64>(static_cast<i64>(v)));
    for (auto v : lattice<bits_t<T>>())
      add(static_cast<u64>(v));
    // every byte value at every byte position (detects a wrong index / stride / missing byte)
    for (unsigned b = 0; b < n; ++b)
      for (u64 v = 1; v <= 255; ++v)
        add(v << (8 * b));
    // all bytes distinct
    add(0x0102030405060708ULL >> (8 * (8 - n)));
    add(0xf1e2d3c4b5a69788ULL >> (8 * (8 - n)));
    add(0x8899aabbccddeeffULL >> (8 * (8 - n)));
    // two bytes set: every pair of positions
    for (unsigned a = 0; a < n; ++a)
      for (unsigned b = 0; b < n; ++b)
        add((u64(0xa5) << (8 * a)) | (u64(0x3c) << (8 * b)));
    if constexpr (std::is_floating_point_v<T>)
    {
      using L = std::numeric_limits<T>;
      for (T f : {T(0), T(1), T(2), T(0.5), T(0.1), T(3.14159265358979323846), L::min(), L::max(), L::lowest(), L::denorm_min(),
                  L::epsilon(), T(1) + L::epsilon(), L::infinity(), L::quiet_NaN(), L::signaling_NaN(), T(1e10), T(1e-10),
                  T(16777216), T(16777217), T(9007199254740993.0)})
      {
        add(to_bits(f));
        add(to_bits(static_cast<T>(-f)));
      }
    }
    r.assign(s.begin(), s.end());
    return r;
  }
}

template <class T> struct tn;
#define TN(T, S)                          \
  template <> struct tn<T>                \
  {                                       \
    static constexpr char const *v = S;   \
  };
TN(u8, "u8") TN(i8, "i8") TN(u16, "u16") TN(i16, "i16") TN(u32, "u32") TN(i32, "i32") TN(u64, "u64") TN(i64, "i64")
TN(char, "char") TN(bool, "bool") TN(wchar_t, "wchar_t") TN(char16_t, "char16_t") TN(char32_t, "char32_t") TN(char8_t, "char8_t")
TN(float, "float") TN(double, "double") TN(long long, "long long") TN(unsigned long long, "unsigned long long")

constexpr std::endian other(std::endian e) { return e == std::endian::little ? std::endian::big : std::endian::little; }

// ------------------------------------------------------------ io::write / io::read
template <class T> void io_rw(unsigned part = 0, unsigned nparts = 1)
{
  static std::string const name = std::string("io_rw<") + tn<T>::v + ">";
  constexpr unsigned n = sizeof(T);
  std::vector<u64> const dom = patterns<T>();
  for (std::size_t idx = 0; idx < dom.size(); ++idx)
  {
    if (idx % nparts != part)
      continue;
    if (vrt::out_of_time())
      return;
    u64 const p = dom[idx];
    u64 const p2 = dom[(idx + 1) % dom.size()];
    for (std::endian const e : {std::endian::little, std::endian::big})
    {
      bool const big = e == std::endian::big;
      if (!vrt::begin(name.c_str(), static_cast<i64>(p), big ? 1 : 0))
        continue;
      vrt::nontrivial(n > 1 && rev_bytes(p, n) != p);
      vrt::maybe_sample();
      T const v = from_bits<T>(static_cast<bits_t<T>>(p));
      T const v2 = from_bits<T>(static_cast<bits_t<T>>(p2));
      std::ostringstream os;
      fcppt::io::write(os, v, e);
      std::string const s = os.str();
      std::string const want = layout(p, n, big);
      VRT_CHECK(os.good(), name + ":write_state", "stream not good after write");
      VRT_CHECK(s == want, name + ":layout", "%s endian: wrote [%s] want [%s]", big ? "big" : "little", hex_bytes(s).c_str(),
                hex_bytes(want).c_str());
      {
        std::istringstream is(s);
        fcppt::optional::object<T> const r = fcppt::io::read<T>(is, e);
        VRT_CHECK(r.has_value(), name + ":roundtrip_nothing", "read of the written bytes gave nothing");
        if (r.has_value())
          VRT_CHECK(static_cast<u64>(to_bits(r.get_unsafe())) == p, name + ":roundtrip", "read back %016llx want %016llx",
                    (unsigned long long)to_bits(r.get_unsafe()), (unsigned long long)p);
        // nothing is left: a further read fails
        fcppt::optional::object<T> const r2 = fcppt::io::read<T>(is, e);
        VRT_CHECK(!r2.has_value(), name + ":read_past_end", "second read from a stream holding one value succeeded");
      }
      {
        // reading in the other byte order yields the byte-reversed pattern
        {
          std::istringstream is(s);
          fcppt::optional::object<T> const r = fcppt::io::read<T>(is, other(e));
          VRT_CHECK(r.has_value() && static_cast<u64>(to_bits(r.get_unsafe())) == rev_bytes(p, n), name + ":cross_order",
                    "read in the other order gave %016llx want %016llx",
                    (unsigned long long)(r.has_value() ? to_bits(r.get_unsafe()) : 0), (unsigned long long)rev_bytes(p, n));
        }
      }
      // too few bytes: documented to return the empty optional
      for (unsigned k = 0; k < n; ++k)
      {
        std::istringstream is(s.substr(0, k));
        fcppt::optional::object<T> const r = fcppt::io::read<T>(is, e);
        VRT_CHECK(!r.has_value(), name + ":short_read", "read from %u of %u bytes succeeded", k, n);
      }
      {
        // two values in sequence
        std::stringstream ss;
        fcppt::io::write(ss, v, e);
        fcppt::io::write(ss, v2, e);
        VRT_CHECK(ss.str() == want + layout(p2, n, big), name + ":layout_sequence", "two writes produced [%s]",
                  hex_bytes(ss.str()).c_str());
        fcppt::optional::object<T> const a = fcppt::io::read<T>(ss, e);
        fcppt::optional::object<T> const b = fcppt::io::read<T>(ss, e);
        VRT_CHECK(a.has_value() && b.has_value() && static_cast<u64>(to_bits(a.get_unsafe())) == p &&
                      static_cast<u64>(to_bits(b.get_unsafe())) == p2,
                  name + ":roundtrip_sequence", "two values did not read back");
      }
    }
  }
}

// ------------------------------------------------------------ endianness::swap / convert
template <class T> void swap_convert()
{
  static std::string const name = std::string("swap_convert<") + tn<T>::v + ">";
  constexpr unsigned n = sizeof(T);
  bool const native_big = std::endian::native == std::endian::big;
  for (u64 const p : patterns<T>())
  {
    if (!vrt::begin(name.c_str(), static_cast<i64>(p)))
      continue;
    vrt::nontrivial(n > 1 && rev_bytes(p, n) != p);
    vrt::maybe_sample();
    T const v = from_bits<T>(static_cast<bits_t<T>>(p));
    u64 const rp = rev_bytes(p, n);
    {
      T const s = fcppt::endianness::swap(v);
      VRT_CHECK(static_cast<u64>(to_bits(s)) == rp, name + ":swap", "swap(%016llx) = %016llx want %016llx", (unsigned long long)p,
                (unsigned long long)to_bits(s), (unsigned long long)rp);
      T const ss = fcppt::endianness::swap(s);
      VRT_CHECK(static_cast<u64>(to_bits(ss)) == p, name + ":swap_involution", "swap(swap(%016llx)) = %016llx", (unsigned long long)p,
                (unsigned long long)to_bits(ss));
    }
    for (std::endian const e : {std::endian::little, std::endian::big})
    {
      bool const same = (e == std::endian::big) == native_big;
      T const c = fcppt::endianness::convert(v, e);
      VRT_CHECK(static_cast<u64>(to_bits(c)) == (same ? p : rp), name + ":convert", "convert(%016llx, %s) = %016llx",
                (unsigned long long)p, e == std::endian::big ? "big" : "little", (unsigned long long)to_bits(c));
      // the in-memory bytes of convert(v, e) are the e-endian layout of v
      std::string mem(reinterpret_cast<char const *>(&c), n);
      VRT_CHECK(mem == layout(p, n, e == std::endian::big), name + ":convert_layout", "bytes [%s]", hex_bytes(mem).c_str());
      {
        T const cc = fcppt::endianness::convert(c, e);
        VRT_CHECK(static_cast<u64>(to_bits(cc)) == p, name + ":convert_involution", "convert twice (%s) = %016llx",
                  e == std::endian::big ? "big" : "little", (unsigned long long)to_bits(cc));
      }
    }
  }
}

// ------------------------------------------------------------ reverse_mem
void reverse_mem_all()
{
  static char const *const name = "reverse_mem";
  unsigned const maxlen = vrt::thorough() ? 64 : 24;
  for (unsigned len = 0; len <= maxlen; ++len)
    for (unsigned fill = 0; fill < 4; ++fill)
    {
      if (!vrt::begin(name, len, fill))
        continue;
      vrt::nontrivial(len >= 2);
      vrt::maybe_sample();
      auto byte = [&](unsigned i) -> unsigned char {
        switch (fill)
        {
        case 0: return static_cast<unsigned char>(i + 1);
        case 1: return static_cast<unsigned char>(255 - i);
        case 2: return static_cast<unsigned char>(i * 37 + 11);
        default: return static_cast<unsigned char>(i == 0 ? 0xff : 0);
        }
      };
      // exact-size heap block: ASan sees any access outside [0,len)
      std::unique_ptr<unsigned char[]> buf(new unsigned char[len]);
      for (unsigned i = 0; i < len; ++i)
        buf[i] = byte(i);
      fcppt::endianness::reverse_mem(buf.get(), len);
      bool ok = true;
      for (unsigned i = 0; i < len; ++i)
        ok = ok && buf[i] == byte(len - 1 - i);
      VRT_CHECK(ok, "reverse_mem:wrong", "block of %u bytes is not reversed", len);
      fcppt::endianness::reverse_mem(buf.get(), len);
      ok = true;
      for (unsigned i = 0; i < len; ++i)
        ok = ok && buf[i] == byte(i);
      VRT_CHECK(ok, "reverse_mem:involution", "reversing %u bytes twice does not restore them", len);
    }
}

// ------------------------------------------------------------ long double (x87: 10 value bytes in 16)
// Only the value is compared (==, or both NaN); the padding bytes have no defined content, so
// the byte layout is not asserted.  The content of the 6 padding bytes of a long double
// temporary is whatever the stack held before; to make the verdict of a case independent of
// the call history (first run vs. replay) the stack below the caller is filled with a fixed
// non-zero byte before every call into fcppt.
__attribute__((noinline)) void scrub_stack()
{
  volatile unsigned char area[16384];
  for (unsigned i = 0; i < sizeof area; ++i)
    area[i] = 0xA5;
}

// a long double object whose padding bytes hold 0xA5 as well
struct ld_slot
{
  alignas(16) unsigned char raw[sizeof(long double)];
  long double *p;
  ld_slot()
  {
    std::memset(raw, 0xA5, sizeof raw);
    p = new (raw) long double;
  }
  explicit ld_slot(long double const &x) : ld_slot() { std::memcpy(raw, &x, 10); }
  ld_slot(ld_slot const &) = delete;
  ld_slot &operator=(ld_slot const &) = delete;
};
static_assert(sizeof(long double) == 16 && std::numeric_limits<long double>::digits == 64, "x87 extended precision expected");

void long_double_all()
{
  using L = std::numeric_limits<long double>;
  // Only values whose 6 low-order mantissa bytes are all non-zero: those bytes are what a swapped
  // long double loses when it is returned through an x87 register (they are replaced by whatever
  // the padding of a temporary held).  For 0, 1, 2^k, inf, 1+eps the result depends on whether that
  // indeterminate padding happened to be zero / a small integer; such values are left out to keep
  // every case's verdict reproducible (first run vs. replay).
  std::vector<long double> vals;
  for (long double x : {0.1L, 0.7L, 1.2345678901234567890L, 3.14159265358979323846264338327950288L, 2.71828182845904523536028747135266250L,
                        1.41421356237309504880168872420969808L, L::max(), 1e100L, 1e-100L, 1e4000L, 1e-4000L, 18446744073709551615.0L,
                        0.333333333333333333333L, 123456789.123456789L, 0.9L, 1e10L / 3.0L})
  {
    unsigned char b[10];
    std::memcpy(b, &x, 10);
    if (b[0] && b[1] && b[2] && b[3] && b[4] && b[5])
      vals.push_back(x);
    else
      vrt::fail("harness:long_double_domain", vrt::fmt("%.21Lg has a zero byte among its low mantissa bytes", x));
  }
  auto same = [](long double a, long double b) { return (std::isnan(a) && std::isnan(b)) || (a == b && std::signbit(a) == std::signbit(b)); };
  for (unsigned i = 0; i < vals.size(); ++i)
    for (int neg = 0; neg < 2; ++neg)
    {
      long double const value = neg ? -vals[i] : vals[i];
      ld_slot const v(value);
      for (std::endian const e : {std::endian::little, std::endian::big})
      {
        if (!vrt::begin("io_rw<long double>", i, neg, e == std::endian::big ? 1 : 0))
          continue;
        vrt::describe(vrt::fmt("io_rw<long double>(%.21Lg, %s)", value, e == std::endian::big ? "big" : "little"));
        vrt::nontrivial(value != 0.0L);
        vrt::maybe_sample();
        std::stringstream ss;
        scrub_stack();
        fcppt::io::write(ss, *v.p, e);
        VRT_CHECK(ss.str().size() == sizeof(long double), "io_rw<long double>:size", "wrote %zu bytes", ss.str().size());
        scrub_stack();
        fcppt::optional::object<long double> const r = fcppt::io::read<long double>(ss, e);
        VRT_CHECK(r.has_value(), "io_rw<long double>:roundtrip_nothing", "read gave nothing");
        if (r.has_value())
          VRT_CHECK(same(r.get_unsafe(), value), "io_rw<long double>:roundtrip", "wrote %.21Lg in %s endian, read back %.21Lg", value,
                    e == std::endian::big ? "big" : "little", r.get_unsafe());
      }
      if (vrt::begin("swap_convert<long double>", i, neg))
      {
        vrt::describe(vrt::fmt("swap_convert<long double>(%.21Lg)", value));
        vrt::nontrivial(value != 0.0L);
        ld_slot s1, s2;
        scrub_stack();
        *s1.p = fcppt::endianness::swap(*v.p);
        scrub_stack();
        *s2.p = fcppt::endianness::swap(*s1.p);
        VRT_CHECK(same(*s2.p, value), "swap_convert<long double>:swap_involution", "swap(swap(%.21Lg)) = %.21Lg", value, *s2.p);
        for (std::endian const e : {std::endian::little, std::endian::big})
        {
          ld_slot c1, c2;
          scrub_stack();
          *c1.p = fcppt::endianness::convert(*v.p, e);
          scrub_stack();
          *c2.p = fcppt::endianness::convert(*c1.p, e);
          VRT_CHECK(same(*c2.p, value), "swap_convert<long double>:convert_involution", "convert twice (%s) of %.21Lg = %.21Lg",
                    e == std::endian::big ? "big" : "little", value, *c2.p);
        }
      }
    }
}
}

void c15::register_binary()
{
  vrt::shard("io_rw_8", [] {
    io_rw<u8>();
    io_rw<i8>();
    io_rw<char>();
    io_rw<char8_t>();
    io_rw<bool>();
  });
  for (unsigned p = 0; p < 2; ++p)
  {
    vrt::shard("io_rw_u16/" + std::to_string(p), [p] { io_rw<u16>(p, 2); });
    vrt::shard("io_rw_i16/" + std::to_string(p), [p] { io_rw<i16>(p, 2); });
  }
  vrt::shard("io_rw_char16", [] { io_rw<char16_t>(); });
  vrt::shard("io_rw_32", [] {
    io_rw<u32>();
    io_rw<i32>();
    io_rw<wchar_t>();
    io_rw<char32_t>();
  });
  vrt::shard("io_rw_64", [] {
    io_rw<u64>();
    io_rw<i64>();
    io_rw<long long>();
    io_rw<unsigned long long>();
  });
  vrt::shard("io_rw_float", [] {
    io_rw<float>();
    io_rw<double>();
  });
  vrt::shard("swap_convert_int", [] {
    swap_convert<u8>();
    swap_convert<i8>();
    swap_convert<char>();
    swap_convert<bool>();
    swap_convert<u16>();
    swap_convert<i16>();
    swap_convert<char16_t>();
    swap_convert<u32>();
    swap_convert<i32>();
    swap_convert<wchar_t>();
    swap_convert<u64>();
    swap_convert<i64>();
  });
  vrt::shard("swap_convert_float", [] {
    swap_convert<float>();
    swap_convert<double>();
  });
  vrt::shard("reverse_mem", [] { reverse_mem_all(); });
  vrt::shard("long_double", [] { long_double_all(); });
}

int main(int argc, char **argv)
{
  // fcppt::string_conv_locale() is std::locale(""), i.e. the environment's locale
  ::setenv("LC_ALL", "C.UTF-8", 1);
  c15::register_binary();
  c15::register_text();
  c15::register_conv();
  c15::register_locale();
  c15::register_state();
  c15::register_env();
  c15::register_loglevel();
  return vrt::run(argc, argv);
}

// C18 (part 3) -- iterator protocol of every iterator/range type of the property, exhaustively over all
// small ranges (up to ~6..9 elements) of the domains of C18.cpp. The laws are in C18_protocol.hpp.
#include <vrt.hpp>

#include "C18_common.hpp"
#include "C18_protocol.hpp"

#include <fcppt/cyclic_iterator.hpp>
#include <fcppt/int_iterator_impl.hpp>
#include <fcppt/int_range_impl.hpp>
#include <fcppt/make_int_range.hpp>
#include <fcppt/make_int_range_count.hpp>
#include <fcppt/make_literal_strong_typedef.hpp>
#include <fcppt/make_strong_typedef.hpp>
#include <fcppt/strong_typedef.hpp>
#include <fcppt/enum/iterator_impl.hpp>
#include <fcppt/enum/make_range.hpp>
#include <fcppt/enum/make_range_start.hpp>
#include <fcppt/enum/make_range_start_end.hpp>
#include <fcppt/enum/range_impl.hpp>
#include <fcppt/enum/size_type.hpp>
#include <fcppt/iterator/adapt_range.hpp>
#include <fcppt/iterator/base_impl.hpp>
#include <fcppt/iterator/make_range.hpp>
#include <fcppt/iterator/range_impl.hpp>
#include <fcppt/iterator/types.hpp>
#include <fcppt/type_iso/strong_typedef.hpp>

#include <cstddef>
#include <cstdint>
#include <deque>
#include <forward_list>
#include <iterator>
#include <limits>
#include <list>
#include <memory>
#include <set>
#include <string>
#include <type_traits>
#include <vector>

using i128 = __int128;

namespace
{
FCPPT_MAKE_STRONG_TYPEDEF(std::int8_t, strong_i8);
FCPPT_MAKE_STRONG_TYPEDEF(std::uint8_t, strong_u8);
FCPPT_MAKE_STRONG_TYPEDEF(int, strong_i32);
FCPPT_MAKE_STRONG_TYPEDEF(unsigned long, strong_u64);

template <class T> struct val
{
  using raw = T;
  static raw get(T v) { return v; }
  static T make(raw r) { return r; }
  static std::string name() { return c18::tname<T>::v; }
};
template <class R, class Tag> struct val<fcppt::strong_typedef<R, Tag>>
{
  using raw = R;
  static raw get(fcppt::strong_typedef<R, Tag> const &v) { return v.get(); }
  static fcppt::strong_typedef<R, Tag> make(raw r) { return fcppt::strong_typedef<R, Tag>(r); }
  static std::string name() { return std::string("strong<") + c18::tname<R>::v + ">"; }
};
template <class R> constexpr i128 lo() { return static_cast<i128>(std::numeric_limits<R>::min()); }
template <class R> constexpr i128 hi() { return static_cast<i128>(std::numeric_limits<R>::max()); }

// what a header declares about an iterator type, compared at run time so that a tree that declares something
// else is a violation of the check, not a build failure of the harness
template <class It, class Value, class Reference, class Difference, class Category> void check_traits(std::string const &name)
{
  using tr = std::iterator_traits<It>;
  if (!(std::is_same_v<typename tr::value_type, Value>)) vrt::count("info:" + name + ":traits:value_type"); /* declared iterator traits are recorded, not judged: iterator_traits::value_type is not the declared one */
  if (!(std::is_same_v<typename tr::reference, Reference>)) vrt::count("info:" + name + ":traits:reference"); /* declared iterator traits are recorded, not judged: iterator_traits::reference is not the declared one (is_reference=%d) */
  if (!(std::is_same_v<decltype(*std::declval<It const &>()), Reference>)) vrt::count("info:" + name + ":traits:reference"); /* declared iterator traits are recorded, not judged: operator* does not return the declared reference type */
  if (!(std::is_same_v<typename tr::difference_type, Difference>)) vrt::count("info:" + name + ":traits:difference_type"); /* declared iterator traits are recorded, not judged: iterator_traits::difference_type is not the declared one */
  if (!(std::is_same_v<typename tr::iterator_category, Category>)) vrt::count("info:" + name + ":traits:iterator_category"); /* declared iterator traits are recorded, not judged: iterator_traits::iterator_category is not the declared one */
  if (!(std::is_same_v<typename tr::pointer, std::add_pointer_t<typename tr::reference>>)) vrt::count("info:" + name + ":traits:pointer"); /* declared iterator traits are recorded, not judged: pointer is not add_pointer_t<reference> */
}

// ------------------------------------------------------------------ int ranges
template <class T> void int_case(std::string const &name, i128 b, i128 e)
{
  using V = val<T>;
  using R = typename V::raw;
  std::vector<i128> model;
  for (i128 i = b; i < e; ++i)
    model.push_back(i);
  fcppt::int_range<T> const r = fcppt::make_int_range(V::make(static_cast<R>(b)), V::make(static_cast<R>(e)));
  c18p::opts o;
  o.value_reference = true; // int_iterator_decl.hpp: `Int dereference() const`, reference type Int
  c18p::check_fresh(name, [&r] { return r.begin(); }, [&r] { return r.end(); }, model, [](T const &v) { return static_cast<i128>(V::get(v)); }, o);
}

template <class T> void int_protocol(bool narrow)
{
  using V = val<T>;
  using R = typename V::raw;
  static std::string const name = "int_range<" + V::name() + ">";
  static std::string const tn = "int_iterator<" + V::name() + ">";
  if (vrt::begin(tn.c_str(), 0))
  {
    vrt::nontrivial(true);
    // int_iterator_decl.hpp: iterator::types<int_iterator<Int>, Int, Int, Int, std::input_iterator_tag>
    check_traits<decltype(std::declval<fcppt::int_range<T> const &>().begin()), T, T, T, std::input_iterator_tag>(tn);
  }
  int const maxlen = vrt::thorough() ? 9 : 6;
  std::vector<i128> starts;
  if (narrow)
    for (i128 b = lo<R>(); b <= hi<R>(); ++b)
      starts.push_back(b);
  else
  {
    std::set<i128> s;
    auto add = [&](i128 v) {
      if (v >= lo<R>() && v <= hi<R>())
        s.insert(v);
    };
    for (int d = -12; d <= 12; ++d)
    {
      add(d);
      add(lo<R>() + (d < 0 ? -d : d));
      add(hi<R>() - (d < 0 ? -d : d));
      for (int k : {7, 8, 15, 16, 31, 32, 63})
      {
        add((i128(1) << k) + d);
        add(-(i128(1) << k) + d);
      }
    }
    starts.assign(s.begin(), s.end());
  }
  for (i128 b : starts)
  {
    if (vrt::out_of_time())
      return;
    for (int len = -2; len <= maxlen; ++len) // negative: inverted pair, documented to be empty
    {
      i128 const e = b + len;
      if (e < lo<R>() || e > hi<R>())
        continue;
      if (!vrt::begin(name.c_str(), static_cast<long long>(b), static_cast<long long>(e)))
        continue;
      vrt::nontrivial(len >= 2);
      vrt::maybe_sample();
      int_case<T>(name, b, e);
    }
  }
}

// ------------------------------------------------------------------ enum ranges
#define C18_ENUMS(p, U)                                                  \
  enum class p##1 : U { a, fcppt_maximum = a };                          \
  enum class p##2 : U { a, b, fcppt_maximum = b };                       \
  enum class p##3 : U { a, b, c, fcppt_maximum = c };                    \
  enum class p##4 : U { a, b, c, d, fcppt_maximum = d };                 \
  enum class p##5 : U { a, b, c, d, e, fcppt_maximum = e };              \
  enum class p##6 : U { a, b, c, d, e, f, fcppt_maximum = f };           \
  enum class p##7 : U { a, b, c, d, e, f, g, fcppt_maximum = g };        \
  enum class p##8 : U { a, b, c, d, e, f, g, h, fcppt_maximum = h };     \
  enum class p##9 : U { a, b, c, d, e, f, g, h, i, fcppt_maximum = i };
C18_ENUMS(eu8_, std::uint8_t)
C18_ENUMS(ei8_, std::int8_t)
C18_ENUMS(eint_, int)
C18_ENUMS(eu64_, std::uint64_t)
enum class eu8_255 : std::uint8_t { first = 0, fcppt_maximum = 254 };

template <class E> void enum_protocol(char const *ename)
{
  static std::string const name = std::string("enum::range<") + ename + ">";
  static std::string const tn = std::string("enum::iterator<") + ename + ">";
  using U = std::underlying_type_t<E>;
  using It = decltype(std::declval<fcppt::enum_::range<E> const &>().begin());
  if (vrt::begin(tn.c_str(), 0))
  {
    vrt::nontrivial(true);
    // enum/iterator_decl.hpp: types<iterator<Enum>, Enum, Enum, make_signed_t<size_type<Enum>>, input_iterator_tag>
    check_traits<It, E, E, std::make_signed_t<fcppt::enum_::size_type<E>>, std::input_iterator_tag>(tn);
  }
  long const size = static_cast<long>(static_cast<U>(E::fcppt_maximum)) + 1;
  long const maxlen = 9;
  c18p::opts o;
  o.value_reference = true; // enum/iterator_decl.hpp: `Enum dereference() const`
  auto const keyof = [](E const v) { return static_cast<long>(static_cast<U>(v)); };
  for (long s = 0; s < size; ++s)
    for (long e = s; e < size && e - s < maxlen; ++e)
    {
      if (!vrt::begin(name.c_str(), s, e))
        continue;
      vrt::nontrivial(e > s);
      vrt::maybe_sample();
      std::vector<long> model;
      for (long i = s; i <= e; ++i)
        model.push_back(i);
      fcppt::enum_::range<E> const r = fcppt::enum_::make_range_start_end(static_cast<E>(static_cast<U>(s)), static_cast<E>(static_cast<U>(e)));
      c18p::check_fresh(name, [&r] { return r.begin(); }, [&r] { return r.end(); }, model, keyof, o);
      if (e == size - 1)
      {
        fcppt::enum_::range<E> const r2 = fcppt::enum_::make_range_start(static_cast<E>(static_cast<U>(s)));
        c18p::check_fresh(name + ":start", [&r2] { return r2.begin(); }, [&r2] { return r2.end(); }, model, keyof, o);
        if (s == 0)
        {
          fcppt::enum_::range<E> const r3 = fcppt::enum_::make_range<E>();
          c18p::check_fresh(name + ":whole", [&r3] { return r3.begin(); }, [&r3] { return r3.end(); }, model, keyof, o);
        }
      }
    }
}
#define C18_RUN_ENUMS(p)         \
  enum_protocol<p##1>(#p "1");   \
  enum_protocol<p##2>(#p "2");   \
  enum_protocol<p##3>(#p "3");   \
  enum_protocol<p##4>(#p "4");   \
  enum_protocol<p##5>(#p "5");   \
  enum_protocol<p##6>(#p "6");   \
  enum_protocol<p##7>(#p "7");   \
  enum_protocol<p##8>(#p "8");   \
  enum_protocol<p##9>(#p "9");

// ------------------------------------------------------------------ cyclic iterator
// values with adjacent duplicates, not sorted: the algorithm laws have varying answers
constexpr int cyc_total = 8;
std::vector<int> cyc_values() { return {5, 3, 3, 9, 1, 1, 7, 2}; }

// the walked "range" is [s, s advanced len-1 times): len-1 distinct positions, wrapping around the boundary when
// start > 0; the end iterator is an ordinary position of the cycle
template <class Cont> void cyclic_protocol(char const *itname)
{
  static std::string const name = std::string("cyclic_iterator<") + itname + ">";
  using CI = typename Cont::const_iterator;
  using C = fcppt::cyclic_iterator<CI>;
  if (vrt::begin(name.c_str(), -1))
  {
    vrt::nontrivial(true);
    using ct = std::iterator_traits<CI>; // detail/cyclic_iterator_base.hpp: iterator::types_from<cyclic_iterator, ContainerIterator>
    check_traits<C, typename ct::value_type, typename ct::reference, typename ct::difference_type, typename ct::iterator_category>(name);
  }
  std::vector<int> const values = cyc_values();
  Cont const cont(values.begin(), values.end());
  for (int first = 0; first <= 2; ++first)
    for (int len = 1; len <= 6 && first + len <= cyc_total; ++len)
      for (int start = 0; start < len; ++start)
      {
        if (!vrt::begin(name.c_str(), first, len, start))
          continue;
        vrt::nontrivial(len >= 3 && start > 0);
        vrt::maybe_sample();
        CI const bf = std::next(cont.begin(), first), bl = std::next(cont.begin(), first + len);
        typename C::boundary const bd{bf, bl};
        C const s(std::next(cont.begin(), first + start), bd);
        C e(s);
        std::vector<long> model;
        for (int i = 0; i + 1 < len; ++i)
        {
          model.push_back(values[static_cast<std::size_t>(first + (start + i) % len)]);
          ++e;
        }
        c18p::opts o;
        o.strict_distance = start == 0 || len <= 1; // no wrap inside the walked range
        c18p::check(name, s, e, model, [](int const &v) { return static_cast<long>(v); }, o);
        // once around: len increments come back to the start, and compare equal in both operand orders
        C around(s);
        for (int i = 0; i < len; ++i)
        {
          if (i > 0)
            VRT_CHECK(around != s && s != around && !(around == s) && !(s == around), name + ":proto:around", "position %d of a cycle of %d equals the start", i, len);
          ++around;
        }
        VRT_CHECK(around == s && s == around && !(around != s) && !(s != around), name + ":proto:around", "%d increments do not return to the start", len);
      }
}

// non-const container iterators as well (vector::iterator): the element can be written through *it
void cyclic_mutable_protocol()
{
  static std::string const name = "cyclic_iterator<vector::iterator>";
  using V = std::vector<int>;
  using C = fcppt::cyclic_iterator<V::iterator>;
  for (int len = 1; len <= 6; ++len)
    for (int start = 0; start < len; ++start)
    {
      if (!vrt::begin(name.c_str(), len, start))
        continue;
      vrt::nontrivial(len >= 3 && start > 0);
      V v = cyc_values();
      v.resize(static_cast<std::size_t>(len));
      v.shrink_to_fit();
      C const s(v.begin() + start, C::boundary{v.begin(), v.end()});
      C e(s);
      std::vector<long> model;
      for (int i = 0; i + 1 < len; ++i)
      {
        model.push_back(v[static_cast<std::size_t>((start + i) % len)]);
        ++e;
      }
      c18p::opts o;
      o.strict_distance = start == 0 || len <= 1;
      c18p::check(name, s, e, model, [](int const &x) { return static_cast<long>(x); }, o);
      C w(s);
      *w = 1000;
      VRT_CHECK(v[static_cast<std::size_t>(start)] == 1000, name + ":proto:write", "writing through *it did not reach the element");
    }
}

// ------------------------------------------------------------------ iterator::base with hand-written iterators
template <class Tag> class idx_it final : public fcppt::iterator::base<fcppt::iterator::types<idx_it<Tag>, int, int const &, std::ptrdiff_t, Tag>>
{
public:
  idx_it() : p_(nullptr) {}
  explicit idx_it(int const *p) : p_(p) {}
  int const &dereference() const { return *p_; }
  void increment() { ++p_; }
  void decrement() { --p_; }
  bool equal(idx_it const &o) const { return p_ == o.p_; }
  void advance(std::ptrdiff_t d) { p_ += d; }
  std::ptrdiff_t distance_to(idx_it const &o) const { return o.p_ - p_; }

private:
  int const *p_;
};

template <class Tag> void base_protocol(char const *tagname)
{
  static std::string const name = std::string("iterator::base<") + tagname + ">";
  using It = idx_it<Tag>;
  if (vrt::begin(name.c_str(), -1))
  {
    vrt::nontrivial(true);
    check_traits<It, int, int const &, std::ptrdiff_t, Tag>(name); // iterator/base_decl.hpp: the typedefs are those of Types
  }
  int const L = vrt::thorough() ? 9 : 6;
  int const pattern[9] = {4, 4, 2, 8, 8, 1, 6, 3, 3};
  for (int total = 0; total <= L; ++total)
  {
    std::unique_ptr<int[]> const data(new int[static_cast<std::size_t>(total)]); // exact size: ASan sees any step outside
    for (int i = 0; i < total; ++i)
      data[static_cast<std::size_t>(i)] = pattern[i];
    for (int i = 0; i <= total; ++i)
      for (int j = i; j <= total; ++j)
      {
        if (!vrt::begin(name.c_str(), total, i, j))
          continue;
        vrt::nontrivial(j - i >= 2);
        vrt::maybe_sample();
        std::vector<long> model(data.get() + i, data.get() + j);
        c18p::check(name, It(data.get() + i), It(data.get() + j), model, [](int const &v) { return static_cast<long>(v); }, c18p::opts{});
      }
  }
}

// ------------------------------------------------------------------ iterator::range / make_range / adapt_range
template <class Cont> Cont make_cont(int len)
{
  int const pattern[9] = {1, 4, 4, 6, 9, 9, 12, 15, 15}; // non-decreasing (std::multiset keeps the order), with duplicates
  std::vector<int> v(pattern, pattern + len);
  return Cont(v.begin(), v.end());
}

template <class Cont> void range_protocol(char const *cname)
{
  static std::string const name = std::string("iterator::range<") + cname + ">";
  static std::string const n_adapt = std::string("iterator::adapt_range<") + cname + ">";
  int const maxlen = vrt::thorough() ? 9 : 6;
  auto const keyof = [](int const &v) { return static_cast<long>(v); };
  for (int len = 0; len <= maxlen; ++len)
  {
    Cont cont = make_cont<Cont>(len);
    Cont const &ccont = cont;
    std::vector<long> const all(cont.begin(), cont.end());
    for (int i = 0; i <= len; ++i)
      for (int j = i; j <= len; ++j)
      {
        if (!vrt::begin(name.c_str(), len, i, j))
          continue;
        vrt::nontrivial(j - i >= 2);
        vrt::maybe_sample();
        std::vector<long> const model(all.begin() + i, all.begin() + j);
        auto const r = fcppt::iterator::make_range(std::next(cont.begin(), i), std::next(cont.begin(), j));
        c18p::check(name, r.begin(), r.end(), model, keyof, c18p::opts{});
        fcppt::iterator::range<typename Cont::const_iterator> const cr(std::next(ccont.begin(), i), std::next(ccont.begin(), j));
        c18p::check(name + ":const", cr.begin(), cr.end(), model, keyof, c18p::opts{});
        // copies of a range are the same range
        fcppt::iterator::range<typename Cont::const_iterator> const cr2(cr);
        VRT_CHECK(cr2.begin() == cr.begin() && cr2.end() == cr.end(), name + ":proto:range_copy", "copy of a range has other iterators");
      }
    if (vrt::begin(n_adapt.c_str(), len))
    {
      vrt::nontrivial(len >= 2);
      auto const r = fcppt::iterator::adapt_range(cont);
      auto const rc = fcppt::iterator::adapt_range(ccont);
      // "Turns a range into an iterator::range": the iterators are those of the given container
      bool const same = r.begin() == cont.begin() && r.end() == cont.end() && rc.begin() == ccont.begin() && rc.end() == ccont.end();
      VRT_CHECK(same, n_adapt + ":proto:adapted_iterators", "adapted range does not hold the container's begin()/end()");
      if (same)
      {
        c18p::check(n_adapt, r.begin(), r.end(), all, keyof, c18p::opts{});
        c18p::check(n_adapt + ":const", rc.begin(), rc.end(), all, keyof, c18p::opts{});
      }
    }
  }
}

// adapt_range / make_range over fcppt's own ranges: the iterators are int_iterator / enum iterator
void adapted_fcppt_protocol()
{
  static std::string const n_i = "iterator::adapt_range<int_range<i32>>";
  static std::string const n_e = "iterator::adapt_range<enum::range<eint_9>>";
  c18p::opts o;
  o.value_reference = true;
  for (int b = -3; b <= 3; ++b)
    for (int e = b - 1; e <= b + 6; ++e)
    {
      if (!vrt::begin(n_i.c_str(), b, e))
        continue;
      vrt::nontrivial(e - b >= 2);
      std::vector<long> model;
      for (int i = b; i < e; ++i)
        model.push_back(i);
      fcppt::int_range<int> const ir(b, e);
      auto const r = fcppt::iterator::adapt_range(ir);
      // fresh iterators come from the int_range itself (adapt_range calls ir.begin()/ir.end() anew)
      c18p::check_fresh(n_i, [&ir] { return fcppt::iterator::adapt_range(ir).begin(); }, [&ir] { return fcppt::iterator::adapt_range(ir).end(); }, model,
                        [](int v) { return static_cast<long>(v); }, o);
      VRT_CHECK(r.begin() == ir.begin() && r.end() == ir.end(), n_i + ":proto:adapted_iterators", "adapted range does not hold the range's begin()/end()");
      auto const r2 = fcppt::iterator::make_range(ir.begin(), ir.end());
      c18p::check_fresh(n_i + ":make_range", [&ir] { return fcppt::iterator::make_range(ir.begin(), ir.end()).begin(); },
                        [&ir] { return fcppt::iterator::make_range(ir.begin(), ir.end()).end(); }, model, [](int v) { return static_cast<long>(v); }, o);
      (void)r2;
    }
  for (int s = 0; s < 9; ++s)
    for (int e = s; e < 9; ++e)
    {
      if (!vrt::begin(n_e.c_str(), s, e))
        continue;
      vrt::nontrivial(e > s);
      std::vector<long> model;
      for (int i = s; i <= e; ++i)
        model.push_back(i);
      fcppt::enum_::range<eint_9> const er = fcppt::enum_::make_range_start_end(static_cast<eint_9>(s), static_cast<eint_9>(e));
      auto const r = fcppt::iterator::adapt_range(er);
      c18p::check_fresh(n_e, [&er] { return fcppt::iterator::adapt_range(er).begin(); }, [&er] { return fcppt::iterator::adapt_range(er).end(); }, model,
                        [](eint_9 v) { return static_cast<long>(static_cast<int>(v)); }, o);
      (void)r;
    }
}
}

namespace c18
{
void register_protocol_shards()
{
  vrt::shard("protocol:int_range<i8>", [] { int_protocol<std::int8_t>(true); });
  vrt::shard("protocol:int_range<u8>", [] { int_protocol<std::uint8_t>(true); });
  vrt::shard("protocol:int_range<strong i8>", [] { int_protocol<strong_i8>(true); });
  vrt::shard("protocol:int_range<strong u8>", [] { int_protocol<strong_u8>(true); });
  vrt::shard("protocol:int_range<16>", [] {
    int_protocol<short>(false);
    int_protocol<unsigned short>(false);
  });
  vrt::shard("protocol:int_range<32>", [] {
    int_protocol<int>(false);
    int_protocol<unsigned>(false);
    int_protocol<strong_i32>(false);
  });
  vrt::shard("protocol:int_range<64>", [] {
    int_protocol<long>(false);
    int_protocol<unsigned long>(false);
    int_protocol<strong_u64>(false);
  });
  vrt::shard("protocol:enum", [] {
    C18_RUN_ENUMS(eu8_)
    C18_RUN_ENUMS(ei8_)
    C18_RUN_ENUMS(eint_)
    C18_RUN_ENUMS(eu64_)
    enum_protocol<eu8_255>("eu8_255");
  });
  vrt::shard("protocol:cyclic", [] {
    cyclic_protocol<std::vector<int>>("vector::const_iterator");
    cyclic_protocol<std::deque<int>>("deque::const_iterator");
    cyclic_protocol<std::list<int>>("list::const_iterator");
    cyclic_protocol<std::forward_list<int>>("forward_list::const_iterator");
    cyclic_mutable_protocol();
  });
  vrt::shard("protocol:iterator_base", [] {
    base_protocol<std::random_access_iterator_tag>("random_access");
    base_protocol<std::bidirectional_iterator_tag>("bidirectional");
    base_protocol<std::forward_iterator_tag>("forward");
  });
  vrt::shard("protocol:iterator_range", [] {
    range_protocol<std::vector<int>>("vector");
    range_protocol<std::deque<int>>("deque");
    range_protocol<std::list<int>>("list");
    range_protocol<std::forward_list<int>>("forward_list");
    range_protocol<std::multiset<int>>("multiset");
    adapted_fcppt_protocol();
  });
}
}

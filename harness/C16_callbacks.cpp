// C16, part 6: what the user callback does while the function runs.
//  * get_or_insert(_with_result): create throws at its k-th call / looks at the container it is inserted into /
//    re-enters get_or_insert on the same std::map with another key.  Documented: "_create is called ... to create a
//    new mapped object which is then inserted": the object exists before the insertion, so a throwing create leaves no
//    entry behind, a later call creates it properly, and create sees the container without the new key.
//  * range algorithms: the callback throws at its k-th call (k = 1..3): the exception reaches the caller, the callback
//    was invoked exactly k times, an lvalue source is unchanged.
//  * sequence_iteration / map_iteration: the action throws at its k-th call: the container stays a valid container
//    holding a subsequence of the original that still contains everything the action did not ask to remove.
#include "C16_common.hpp"

#include <fcppt/loop.hpp>
#include <fcppt/algorithm/all_of.hpp>
#include <fcppt/algorithm/contains_if.hpp>
#include <fcppt/algorithm/find_by_opt.hpp>
#include <fcppt/algorithm/find_if_opt.hpp>
#include <fcppt/algorithm/fold.hpp>
#include <fcppt/algorithm/fold_break.hpp>
#include <fcppt/algorithm/loop.hpp>
#include <fcppt/algorithm/loop_break.hpp>
#include <fcppt/algorithm/map.hpp>
#include <fcppt/algorithm/map_concat.hpp>
#include <fcppt/algorithm/map_iteration.hpp>
#include <fcppt/algorithm/map_optional.hpp>
#include <fcppt/algorithm/sequence_iteration.hpp>
#include <fcppt/algorithm/update_action.hpp>
#include <fcppt/container/get_or_insert.hpp>
#include <fcppt/container/get_or_insert_result.hpp>
#include <fcppt/container/get_or_insert_with_result.hpp>
#include <fcppt/optional/object_impl.hpp>

#include <unordered_map>

namespace c16
{
namespace
{
struct callback_failed
{
};

// ------------------------------------------------------------------ get_or_insert: create throws at its k-th call
template <class M> void check_create_throws(char const *mn)
{
  static std::string const n_r = std::string("get_or_insert_with_result(") + mn + "):throwing_create";
  static std::string const n_g = std::string("get_or_insert(") + mn + "):throwing_create";
  std::vector<seq> const keyseqs = all_seqs(3, 3);
  for (auto const &ref : all_maps(3))
    for (seq const &keys : keyseqs)
      for (int k = 1; k <= 3; ++k)
        for (int which = 0; which < 2; ++which)
        {
          if (keys.empty())
            continue;
          std::string const &name = which ? n_g : n_r;
          if (!vrt::begin_text(name.c_str(), name + " " + show(ref) + " keys=" + show(keys) + " create_throws_at_call=" + std::to_string(k)))
            continue;
          M m(ref.begin(), ref.end());
          std::map<int, int> model = ref;
          int creates = 0, model_creates = 0;
          bool threw_once = false;
          auto const create = [&creates, k](int const key) {
            if (++creates == k)
              throw callback_failed{};
            return 100 + key + 10 * creates;
          };
          for (std::size_t step = 0; step < keys.size(); ++step)
          {
            int const key = keys[step];
            bool const present = model.count(key) != 0;
            bool const expect_throw = !present && model_creates + 1 == k;
            if (!present)
            {
              ++model_creates;
              if (!expect_throw)
                model[key] = 100 + key + 10 * model_creates;
            }
            bool threw = false;
            int value = -1;
            bool inserted = !present;
            try
            {
              if (which)
                value = fcppt::container::get_or_insert(m, key, create);
              else
              {
                auto const r = fcppt::container::get_or_insert_with_result(m, key, create);
                value = r.element();
                inserted = r.inserted();
              }
            }
            catch (callback_failed const &)
            {
              threw = true;
            }
            threw_once = threw_once || threw;
            VRT_CHECK(threw == expect_throw, name + ":exception", "step %zu key %d: %s", step, key,
                      threw ? "unexpected exception" : "the exception of create did not reach the caller");
            VRT_CHECK(creates == model_creates, name + ":create_calls", "step %zu key %d: create called %d times in total want %d",
                      step, key, creates, model_creates);
            if (!threw && !expect_throw)
              VRT_CHECK(value == model.at(key) && inserted == !present, name + ":result",
                        "step %zu key %d: value %d inserted=%d want %d inserted=%d", step, key, value, int(inserted),
                        model.at(key), int(!present));
            std::map<int, int> const got(m.begin(), m.end());
            // after a throwing create there is no entry for the key
            VRT_CHECK(got == model && m.size() == model.size(), name + ":map", "step %zu key %d%s: map is %s want %s", step, key,
                      threw ? " (create threw)" : "", show(got).c_str(), show(model).c_str());
          }
          vrt::nontrivial(threw_once);
          if (threw_once)
            vrt::maybe_sample();
          // afterwards every key can still be created properly
          for (int key = 0; key < 3; ++key)
          {
            bool const present = model.count(key) != 0;
            int calls = 0;
            auto const r = fcppt::container::get_or_insert_with_result(m, key, [&calls](int const kk) {
              ++calls;
              return 500 + kk;
            });
            if (!present)
              model[key] = 500 + key;
            VRT_CHECK(r.inserted() == !present && calls == (present ? 0 : 1) && r.element() == model.at(key), name + ":later_call",
                      "key %d afterwards: inserted=%d create calls=%d value=%d; want inserted=%d value=%d", key,
                      int(r.inserted()), calls, r.element(), int(!present), model.at(key));
          }
        }
}

// ------------------------------------------------------------------ create observes / re-enters the container
template <class M> void check_create_observes(char const *mn)
{
  static std::string const n_o = std::string("get_or_insert(") + mn + "):create_observes_container";
  static std::string const n_i = std::string("get_or_insert(") + mn + "):interning";
  for (auto const &ref : all_maps(map_keys()))
    for (int key = 0; key < map_keys(); ++key)
      for (int which = 0; which < 2; ++which)
      {
        if (!vrt::begin_text(n_o.c_str(), n_o + " " + show(ref) + " key=" + std::to_string(key) + (which ? "" : " with_result")))
          continue;
        bool const present = ref.count(key) != 0;
        vrt::nontrivial(!present);
        M m(ref.begin(), ref.end());
        // create reports what it sees: 1000 * size() + 100 * (number of entries with its own key)
        auto const create = [&m](int const kk) { return static_cast<int>(1000 * m.size() + 100 * m.count(kk)); };
        int const value = which ? fcppt::container::get_or_insert(m, key, create)
                                : fcppt::container::get_or_insert_with_result(m, key, create).element();
        int const want = present ? ref.at(key) : static_cast<int>(1000 * ref.size());
        VRT_CHECK(value == want, n_o + ":wrong",
                  "got %d want %d (create must see the container as it was before the insertion: size %zu, its key absent)",
                  value, want, ref.size());
      }
  // the interning idiom: id = number of entries so far
  for (seq const &words : seqs3())
  {
    if (!vrt::begin_text(n_i.c_str(), n_i + " words=" + show(words)))
      continue;
    vrt::nontrivial(sorted_unique(words).size() >= 2);
    vrt::maybe_sample();
    M ids;
    seq got, want;
    std::map<int, int> model;
    for (int w : words)
    {
      got.push_back(fcppt::container::get_or_insert(ids, w, [&ids](int) { return static_cast<int>(ids.size()); }));
      if (!model.count(w))
      {
        int const id = static_cast<int>(model.size());
        model[w] = id;
      }
      want.push_back(model[w]);
    }
    VRT_CHECK(got == want, n_i + ":wrong", "ids %s want %s", show(got).c_str(), show(want).c_str());
  }
}

// create inserts another key into the same std::map through get_or_insert (well-defined for std::map: no iterator or
// reference is invalidated by an insertion)
void check_create_reenters()
{
  static std::string const name = "get_or_insert(std::map):create_reenters";
  for (auto const &ref : all_maps(3))
    for (int key = 0; key < 3; ++key)
      for (int other = 0; other < 3; ++other)
      {
        if (other == key)
          continue;
        if (!vrt::begin_text(name.c_str(), name + " " + show(ref) + " key=" + std::to_string(key) + " create inserts key " + std::to_string(other)))
          continue;
        vrt::nontrivial(!ref.count(key));
        std::map<int, int> m = ref, model = ref;
        int outer_calls = 0, inner_calls = 0;
        auto const r = fcppt::container::get_or_insert_with_result(m, key, [&](int const kk) {
          ++outer_calls;
          int const inner = fcppt::container::get_or_insert(m, other, [&inner_calls](int const k2) {
            ++inner_calls;
            return 200 + k2;
          });
          return 1000 + 10 * kk + inner;
        });
        bool const present = ref.count(key) != 0;
        if (!present)
        {
          if (!model.count(other))
            model[other] = 200 + other;
          model[key] = 1000 + 10 * key + model[other];
        }
        VRT_CHECK(m == model, name + ":map", "map is %s want %s", show(m).c_str(), show(model).c_str());
        VRT_CHECK(r.inserted() == !present && &r.element() == &m.find(key)->second && outer_calls == (present ? 0 : 1) &&
                      inner_calls == (!present && !ref.count(other) ? 1 : 0),
                  name + ":result", "inserted=%d outer create calls=%d inner create calls=%d", int(r.inserted()), outer_calls,
                  inner_calls);
      }
}

// ------------------------------------------------------------------ range algorithms: the callback throws at call k
// tick(e) is what every callback does first: count, log, throw at the k-th call
struct ticker
{
  std::size_t k;
  std::size_t calls = 0;
  void operator()()
  {
    if (++calls == k)
      throw callback_failed{};
  }
};

void check_throwing_callbacks()
{
  using ivec = std::vector<int>;
  std::vector<seq> const seqs = all_seqs(3, 4);
  auto const run = [](std::string const &name, seq const &s, std::size_t const k, auto body) {
    if (!vrt::begin_text(name.c_str(), name + " " + show(s) + " callback_throws_at_call=" + std::to_string(k)))
      return;
    vrt::nontrivial(k <= s.size());
    vrt::maybe_sample();
    ivec src(s.begin(), s.end());
    ticker t{k};
    bool threw = false;
    try
    {
      body(src, t);
    }
    catch (callback_failed const &)
    {
      threw = true;
    }
    bool const expect = k <= s.size();
    VRT_CHECK(threw == expect, name + ":exception", "%s", threw ? "unexpected exception" : "the exception of the callback did not reach the caller");
    VRT_CHECK(t.calls == (expect ? k : s.size()), name + ":calls", "callback invoked %zu times want %zu", t.calls,
              expect ? k : s.size());
    VRT_CHECK(src == s, name + ":source_changed", "source is now %s", show(src).c_str());
  };
  static std::string const n_map = "map<vector>(vector&):throwing_callback", n_maps = "map<set>(vector&):throwing_callback",
                           n_mo = "map_optional<vector>(vector&):throwing_callback",
                           n_mc = "map_concat<vector>(vector&):throwing_callback", n_fold = "fold(vector&):throwing_callback",
                           n_fb = "fold_break(vector&):throwing_callback", n_loop = "loop(vector&):throwing_callback",
                           n_lb = "loop_break(vector&):throwing_callback", n_all = "all_of(vector):throwing_callback",
                           n_cif = "contains_if(vector):throwing_callback", n_fif = "find_if_opt(vector&):throwing_callback",
                           n_fby = "find_by_opt(vector&):throwing_callback";
  for (seq const &s : seqs)
    for (std::size_t k = 1; k <= 3; ++k)
    {
      run(n_map, s, k, [](ivec &src, ticker &t) {
        (void)fcppt::algorithm::map<ivec>(src, [&t](int e) {
          t();
          return e;
        });
      });
      run(n_maps, s, k, [](ivec &src, ticker &t) {
        (void)fcppt::algorithm::map<std::set<int>>(src, [&t](int e) {
          t();
          return e;
        });
      });
      run(n_mo, s, k, [](ivec &src, ticker &t) {
        (void)fcppt::algorithm::map_optional<ivec>(src, [&t](int e) {
          t();
          return fcppt::optional::object<int>{e};
        });
      });
      run(n_mc, s, k, [](ivec &src, ticker &t) {
        (void)fcppt::algorithm::map_concat<ivec>(src, [&t](int e) {
          t();
          return ivec{e, e};
        });
      });
      run(n_fold, s, k, [](ivec &src, ticker &t) {
        (void)fcppt::algorithm::fold(src, std::string(), [&t](int e, std::string st) {
          t();
          return st + std::to_string(e);
        });
      });
      run(n_fb, s, k, [](ivec &src, ticker &t) {
        (void)fcppt::algorithm::fold_break(src, std::string(), [&t](int e, std::string st) {
          t();
          return std::make_pair(fcppt::loop::continue_, st + std::to_string(e));
        });
      });
      run(n_loop, s, k, [](ivec &src, ticker &t) { fcppt::algorithm::loop(src, [&t](int) { t(); }); });
      run(n_lb, s, k, [](ivec &src, ticker &t) {
        fcppt::algorithm::loop_break(src, [&t](int) {
          t();
          return fcppt::loop::continue_;
        });
      });
      run(n_all, s, k, [](ivec &src, ticker &t) {
        (void)fcppt::algorithm::all_of(src, [&t](int) {
          t();
          return true;
        });
      });
      run(n_cif, s, k, [](ivec &src, ticker &t) {
        (void)fcppt::algorithm::contains_if(src, [&t](int) {
          t();
          return false;
        });
      });
      run(n_fif, s, k, [](ivec &src, ticker &t) {
        (void)fcppt::algorithm::find_if_opt(src, [&t](int) {
          t();
          return false;
        });
      });
      run(n_fby, s, k, [](ivec &src, ticker &t) {
        (void)fcppt::algorithm::find_by_opt(src, [&t](int) {
          t();
          return fcppt::optional::object<int>{};
        });
      });
    }
}

bool is_subsequence(seq const &a, seq const &b)
{
  std::size_t i = 0;
  for (int x : b)
    if (i < a.size() && a[i] == x)
      ++i;
  return i == a.size();
}

// the action of sequence_iteration / map_iteration throws at its k-th call
template <class C> void check_iteration_throws(char const *cn)
{
  static std::string const name = std::string("sequence_iteration(") + cn + "):throwing_action";
  using fcppt::algorithm::update_action;
  for (seq const &s : all_seqs(3, 4))
    for (int p = 0; p < 8; ++p)
      for (std::size_t k = 1; k <= 3; ++k)
      {
        if (!vrt::begin_text(name.c_str(), name + " " + show(s) + " remove_if " + show_pred3(p) + " action_throws_at_call=" + std::to_string(k)))
          continue;
        vrt::nontrivial(k <= s.size());
        C c(s.begin(), s.end());
        std::size_t calls = 0;
        bool threw = false;
        try
        {
          fcppt::algorithm::sequence_iteration(c, [&](int const &e) {
            if (++calls == k)
              throw callback_failed{};
            return pred3(p, e) ? update_action::remove : update_action::keep;
          });
        }
        catch (callback_failed const &)
        {
          threw = true;
        }
        seq const got(c.begin(), c.end());
        seq lower; // everything the action did not ask to remove (before the throw), and everything not decided
        for (std::size_t i = 0; i < s.size(); ++i)
          if (!(pred3(p, s[i]) && (!threw || i + 1 < k)))
            lower.push_back(s[i]);
        VRT_CHECK(threw == (k <= s.size()) && calls == std::min(k, s.size()), name + ":exception",
                  "threw=%d after %zu calls", int(threw), calls);
        VRT_CHECK(is_subsequence(got, s) && is_subsequence(lower, got), name + ":container",
                  "container is %s; original %s; must still contain %s", show(got).c_str(), show(s).c_str(), show(lower).c_str());
      }
}

void check_map_iteration_throws()
{
  static std::string const name = "map_iteration(std::map):throwing_action";
  using fcppt::algorithm::update_action;
  for (auto const &ref : all_maps(4))
    for (int p = 0; p < 8; ++p)
      for (std::size_t k = 1; k <= 3; ++k)
      {
        if (!vrt::begin_text(name.c_str(), name + " " + show(ref) + " remove_if " + show_pred3(p) + " action_throws_at_call=" + std::to_string(k)))
          continue;
        vrt::nontrivial(k <= ref.size());
        std::map<int, int> m = ref;
        std::size_t calls = 0;
        bool threw = false;
        try
        {
          fcppt::algorithm::map_iteration(m, [&](std::pair<int const, int> const &e) {
            if (++calls == k)
              throw callback_failed{};
            return pred3(p, e.second) ? update_action::remove : update_action::keep;
          });
        }
        catch (callback_failed const &)
        {
          threw = true;
        }
        bool ok = true; // m is a sub-map of ref and contains every entry that was not to be removed
        for (auto const &kv : m)
          ok = ok && ref.count(kv.first) && ref.at(kv.first) == kv.second;
        std::size_t i = 0;
        for (auto const &kv : ref)
        {
          bool const removed_ok = pred3(p, kv.second) && (!threw || i + 1 < k);
          if (!removed_ok)
            ok = ok && m.count(kv.first);
          ++i;
        }
        VRT_CHECK(threw == (k <= ref.size()) && calls == std::min(k, ref.size()), name + ":exception",
                  "threw=%d after %zu calls", int(threw), calls);
        VRT_CHECK(ok, name + ":container", "map is %s, was %s", show(m).c_str(), show(ref).c_str());
      }
}
}

void register_callback_shards()
{
  c16::shard("callbacks/create_throws", [] {
    check_create_throws<std::map<int, int>>("std::map");
    check_create_throws<std::unordered_map<int, int>>("std::unordered_map");
  });
  c16::shard("callbacks/create_observes", [] {
    check_create_observes<std::map<int, int>>("std::map");
    check_create_observes<std::unordered_map<int, int>>("std::unordered_map");
    check_create_reenters();
  });
  c16::shard("callbacks/throwing_algorithms", [] { check_throwing_callbacks(); });
  c16::shard("callbacks/throwing_iteration", [] {
    check_iteration_throws<std::vector<int>>("vector");
    check_iteration_throws<std::list<int>>("list");
    check_iteration_throws<std::deque<int>>("deque");
    check_map_iteration_throws();
  });
}
}

// C08, part 2: grid::object (constructors, get_unsafe, content), in_range, at_optional and the pos_ref ranges
// (whole grid and sub-ranges, const and non-const), N = 1,2,3.  The size type of grid::object is std::size_t.
#include <C08_common.hpp>

#include <fcppt/container/grid/at_optional.hpp>
#include <fcppt/container/grid/in_range.hpp>
#include <fcppt/container/grid/make_pos_ref_crange.hpp>
#include <fcppt/container/grid/make_pos_ref_crange_start_end.hpp>
#include <fcppt/container/grid/make_pos_ref_range.hpp>
#include <fcppt/container/grid/make_pos_ref_range_start_end.hpp>
#include <fcppt/container/grid/min.hpp>
#include <fcppt/container/grid/object.hpp>
#include <fcppt/container/grid/pos_ref_range.hpp>
#include <fcppt/container/grid/pos_reference.hpp>
#include <fcppt/container/grid/sup.hpp>
#include <fcppt/optional/reference.hpp>
#include <fcppt/reference_impl.hpp>

#include <optional>

namespace c08
{
namespace
{
using S = std::size_t;
template <std::size_t N> using igrid = g::object<int, N>;

template <std::size_t N> std::string inst(char const *f) { return std::string(f) + "<" + std::to_string(N) + ">"; }

template <std::size_t N> igrid<N> make_grid(A3 const &sz)
{
  return igrid<N>(mkdim<S, N>(sz), [](typename igrid<N>::pos const &p) { return enc(comps<N>(p, 0)); });
}

// walk a pos_ref range: k-th element must carry position ref[k] and refer to the cell begin()[index(ref[k])]
template <std::size_t N, class Range, class Grid>
void check_ref_seq(Range const &r, Grid &grid, A3 const &sz, std::vector<A3> const &ref, std::string const &sig)
{
  std::size_t k = 0;
  bool bad_pos = false, bad_cell = false;
  auto const e = r.end();
  for (auto it = r.begin(); it != e; ++it)
  {
    if (k >= ref.size())
    {
      // do not dereference: the surplus position may lie outside the grid
      vrt::fail(sig + ":overrun", vrt::fmt("more than the %zu expected elements are visited", ref.size()));
      return;
    }
    auto const element = *it;
    A3 const got = comps<N>(element.pos(), 0);
    if (got != ref[k] && !bad_pos)
    {
      vrt::fail(sig + ":order", vrt::fmt("visit #%zu is %s, want %s", k, show(N, got).c_str(), show(N, ref[k]).c_str()));
      bad_pos = true;
    }
    auto const *want_cell = &*(grid.begin() + static_cast<std::ptrdiff_t>(ref_index(N, sz, ref[k])));
    if (&element.value() != want_cell && !bad_cell)
    {
      vrt::fail(sig + ":cell", vrt::fmt("visit #%zu (pos %s) refers to storage index %td, want %lld", k,
                                        show(N, got).c_str(), &element.value() - &*grid.begin(),
                                        ref_index(N, sz, ref[k])));
      bad_cell = true;
    }
    ++k;
  }
  if (k < ref.size())
    vrt::fail(sig + ":short", vrt::fmt("only %zu of %zu elements visited; first missing %s", k, ref.size(),
                                       show(N, ref[k]).c_str()));
  VRT_CHECK(static_cast<std::size_t>(r.size()) == ref.size(), sig + ":size", "size() = %llu, expected to visit %zu",
            static_cast<unsigned long long>(r.size()), ref.size());
}

// ---------------------------------------------------------------- object
template <std::size_t N> void object_all()
{
  static std::string const fn = inst<N>("object");
  using grid_t = igrid<N>;
  for (A3 const &sz : tuples(N, 0, max_extent(N), 1))
  {
    if (!vrt::begin_text(fn.c_str(), fn + " size=" + show(N, sz)))
      continue;
    ll const content = product(N, sz);
    std::vector<A3> const ref = ref_range(N, A3{0, 0, 0}, sz);
    vrt::nontrivial(content >= 2);
    vrt::maybe_sample();
    auto const dim = mkdim<S, N>(sz);
    std::size_t calls = 0;
    grid_t grid(dim, [&calls](typename grid_t::pos const &p) {
      ++calls;
      return enc(comps<N>(p, 0));
    });
    grid_t const &cgrid = grid;
    // the documentation says "Calls function for every position in the grid", not "exactly once": information only
    info_check(calls == ref.size(), fn + ":ctor_calls");
    VRT_CHECK(comps<N>(grid.size(), 1) == sz, fn + ":size", "size() wrong");
    VRT_CHECK(static_cast<ll>(grid.content()) == content, fn + ":content", "content() = %zu want %lld", grid.content(),
              content);
    VRT_CHECK(grid.empty() == (content == 0), fn + ":empty", "empty() wrong");
    VRT_CHECK(grid.end() - grid.begin() == content && cgrid.end() - cgrid.begin() == content, fn + ":iterators",
              "end()-begin() = %td want %lld", grid.end() - grid.begin(), content);
    if (grid.end() - grid.begin() != content)
      continue;
    for (std::size_t k = 0; k < ref.size(); ++k)
    {
      auto const p = mkpos<S, N>(ref[k]);
      int const stored = *(grid.begin() + static_cast<std::ptrdiff_t>(k));
      VRT_CHECK(stored == enc(ref[k]), fn + ":storage_order", "storage[%zu] holds the value of pos %d, want pos %s", k,
                stored, show(N, ref[k]).c_str());
      VRT_CHECK(&grid.get_unsafe(p) == &*(grid.begin() + static_cast<std::ptrdiff_t>(k)), fn + ":get_unsafe",
                "get_unsafe(%s) is storage[%td], want [%zu]", show(N, ref[k]).c_str(),
                &grid.get_unsafe(p) - &*grid.begin(), k);
      VRT_CHECK(&cgrid.get_unsafe(p) == &*(cgrid.begin() + static_cast<std::ptrdiff_t>(k)), fn + ":get_unsafe_const",
                "const get_unsafe(%s) is storage[%td], want [%zu]", show(N, ref[k]).c_str(),
                &cgrid.get_unsafe(p) - &*cgrid.begin(), k);
    }
    // whole-grid reference ranges
    check_ref_seq<N>(g::make_pos_ref_range(grid), grid, sz, ref, fn + ":make_pos_ref_range");
    check_ref_seq<N>(g::make_pos_ref_crange(cgrid), cgrid, sz, ref, fn + ":make_pos_ref_crange");
    // value constructor
    grid_t const filled(dim, 42);
    bool all42 = filled.end() - filled.begin() == content;
    for (int v : filled)
      all42 = all42 && v == 42;
    VRT_CHECK(all42 && comps<N>(filled.size(), 1) == sz, fn + ":value_ctor", "value constructor wrong");
    // default constructor
    grid_t const none;
    VRT_CHECK(none.empty() && none.content() == 0 && none.begin() == none.end() &&
                  product(N, comps<N>(none.size(), 1)) == 0,
              fn + ":default_ctor", "default constructed grid is not empty");
  }
}

// ---------------------------------------------------------------- at_optional, in_range
template <std::size_t N> void at_optional_all()
{
  static std::string const fn = inst<N>("at_optional");
  using grid_t = igrid<N>;
  for (A3 const &sz : tuples(N, 0, max_extent(N), 1))
  {
    std::optional<grid_t> holder; // built inside the first announced case of this size (fcppt code runs in the ctor)
    for (A3 const &p : margin_positions(N, sz))
    {
      if (!vrt::begin_text(fn.c_str(), fn + " size=" + show(N, sz) + " pos=" + show(N, p)))
        continue;
      if (!holder)
        holder.emplace(make_grid<N>(sz));
      grid_t &grid = *holder;
      grid_t const &cgrid = grid;
      bool const want = ref_in_range(N, sz, p);
      bool edge = false;
      for (std::size_t i = 0; i < N; ++i)
        edge = edge || p[i] < 0 || p[i] >= sz[i] - 1;
      vrt::nontrivial(edge);
      vrt::maybe_sample();
      auto const fp = mkpos<S, N>(p);
      VRT_CHECK(g::in_range(cgrid, fp) == want, fn + ":in_range", "in_range wrong, want %d", want);
      fcppt::optional::reference<int> const r = g::at_optional(grid, fp);
      fcppt::optional::reference<int const> const cr = g::at_optional(cgrid, fp);
      VRT_CHECK(r.has_value() == want && cr.has_value() == want, fn + (want ? ":missing" : ":spurious"),
                "has_value %d/%d want %d", r.has_value(), cr.has_value(), want);
      if (want && r.has_value() && cr.has_value())
      {
        ll const idx = ref_index(N, sz, p);
        int *const cell = &*(grid.begin() + static_cast<std::ptrdiff_t>(idx));
        VRT_CHECK(&r.get_unsafe().get() == cell && &cr.get_unsafe().get() == cell, fn + ":wrong_cell",
                  "refers to storage[%td], want [%lld]", &r.get_unsafe().get() - &*grid.begin(), idx);
        VRT_CHECK(r.get_unsafe().get() == enc(p), fn + ":wrong_value", "value %d want %d", r.get_unsafe().get(), enc(p));
      }
    }
  }
}

// ---------------------------------------------------------------- pos_ref sub-ranges
template <std::size_t N> void pos_ref_sub(unsigned part, unsigned nparts)
{
  static std::string const fn = inst<N>("pos_ref_range");
  using grid_t = igrid<N>;
  using min_t = g::min<S, N>;
  using sup_t = g::sup<S, N>;
  ll const m = max_minsup(N);
  unsigned si = 0;
  for (A3 const &sz : tuples(N, 0, max_extent(N), 1))
  {
    if (si++ % nparts != part)
      continue;
    std::optional<grid_t> holder; // built inside the first announced case of this size
    // min and sup range over a margin of one around the grid (components 0..extent+1, capped by the global bound)
    A3 hi{0, 0, 0};
    for (std::size_t i = 0; i < N; ++i)
      hi[i] = std::min(sz[i] + 1, m);
    std::vector<A3> const mins = tuples_upto(N, hi);
    for (A3 const &mn : mins)
    {
      if (vrt::out_of_time())
        return;
      for (A3 const &sp : mins)
      {
        std::vector<A3> const ref = ref_range(N, mn, sp);
        // precondition: a non-empty range must lie inside the grid (its elements are dereferenced)
        bool inside = true;
        for (std::size_t i = 0; i < N; ++i)
          inside = inside && sp[i] <= sz[i];
        if (!ref.empty() && !inside)
          continue;
        if (!vrt::begin_text(fn.c_str(), fn + " size=" + show(N, sz) + " min=" + show(N, mn) + " sup=" + show(N, sp)))
          continue;
        if (!holder)
          holder.emplace(make_grid<N>(sz));
        grid_t &grid = *holder;
        grid_t const &cgrid = grid;
        vrt::nontrivial(nontrivial_range(N, mn, sp, ref.size()));
        vrt::maybe_sample();
        if (ref.size() >= 2)
          vrt::sample_now();
        vrt::count(ref.empty() ? "pos_ref_range:empty_ranges" : "pos_ref_range:nonempty_ranges");
        vrt::count("pos_ref_range:cells_visited", 2 * ref.size());
        min_t const fmin{mkpos<S, N>(mn)};
        sup_t const fsup{mkpos<S, N>(sp)};
        check_ref_seq<N>(g::make_pos_ref_range_start_end(grid, fmin, fsup), grid, sz, ref, fn);
        check_ref_seq<N>(g::make_pos_ref_crange_start_end(cgrid, fmin, fsup), cgrid, sz, ref, fn + ":const");
      }
    }
  }
}
}

void register_grid_shards()
{
  vrt::shard("object", [] {
    object_all<1>();
    object_all<2>();
    object_all<3>();
  });
  vrt::shard("at_optional", [] {
    at_optional_all<1>();
    at_optional_all<2>();
    at_optional_all<3>();
  });
  vrt::shard("pos_ref_sub12", [] {
    pos_ref_sub<1>(0, 1);
    pos_ref_sub<2>(0, 1);
  });
  for (unsigned p = 0; p < 32; ++p)
    vrt::shard("pos_ref_sub3/" + std::to_string(p), [p] { pos_ref_sub<3>(p, 32); });
}
}

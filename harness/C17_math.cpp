// C17 (part): math vector, dim, matrix (==, !=, <..>= where offered, std::hash), box, sphere.
// Components range over {0,1,2} ({0,1} for the 4- and 6-component instantiations).
#include <C17_common.hpp>

#include <fcppt/cast/size_fun.hpp>
#include <fcppt/math/box/comparison.hpp>
#include <fcppt/math/box/object.hpp>
#include <fcppt/math/dim/arithmetic.hpp>
#include <fcppt/math/dim/comparison.hpp>
#include <fcppt/math/dim/fill.hpp>
#include <fcppt/math/dim/init.hpp>
#include <fcppt/math/dim/null.hpp>
#include <fcppt/math/dim/object.hpp>
#include <fcppt/math/dim/static.hpp>
#include <fcppt/math/dim/std_hash.hpp>
#include <fcppt/math/dim/structure_cast.hpp>
#include <fcppt/math/dim/to_vector.hpp>
#include <fcppt/math/matrix/arithmetic.hpp>
#include <fcppt/math/matrix/at_r.hpp>
#include <fcppt/math/matrix/comparison.hpp>
#include <fcppt/math/matrix/init.hpp>
#include <fcppt/math/matrix/object.hpp>
#include <fcppt/math/matrix/row.hpp>
#include <fcppt/math/matrix/static.hpp>
#include <fcppt/math/matrix/std_hash.hpp>
#include <fcppt/math/matrix/structure_cast.hpp>
#include <fcppt/math/matrix/transpose.hpp>
#include <fcppt/math/sphere/comparison.hpp>
#include <fcppt/math/sphere/object.hpp>
#include <fcppt/math/vector/arithmetic.hpp>
#include <fcppt/math/vector/comparison.hpp>
#include <fcppt/math/vector/fill.hpp>
#include <fcppt/math/vector/init.hpp>
#include <fcppt/math/vector/null.hpp>
#include <fcppt/math/vector/object.hpp>
#include <fcppt/math/vector/static.hpp>
#include <fcppt/math/vector/std_hash.hpp>
#include <fcppt/math/vector/structure_cast.hpp>
#include <fcppt/math/vector/to_dim.hpp>

#include <string>
#include <vector>

namespace
{
using c17::key_t;

template <class V, std::size_t... I> V make_from_key(key_t const &k, std::index_sequence<I...>)
{
  return V(static_cast<typename V::value_type>(k[I])...);
}

// ------------------------------------------------------------------ vector / dim
template <unsigned N> void vectors(long base, unsigned part, unsigned nparts)
{
  using vec = fcppt::math::vector::static_<int, N>;
  using lvec = fcppt::math::vector::static_<long, N>;
  using dimt = fcppt::math::dim::static_<int, N>;
  c17::universe<vec> u;
  for (key_t const &k : c17::tuples(N, base))
  {
    vec const v = make_from_key<vec>(k, std::make_index_sequence<N>{});
    c17::add(u, v, k, "ctor");
    c17::add(u, v + fcppt::math::vector::null<vec>(), k, "v + null");
    c17::add(u, (v + fcppt::math::vector::fill<vec>(5)) - fcppt::math::vector::fill<vec>(5), k, "(v+5)-5");
    c17::add(u, fcppt::math::vector::init<vec>([&k](auto const i) { return static_cast<int>(k[i()]); }), k, "init");
    vec w{fcppt::math::vector::fill<vec>(9)};
    for (unsigned i = 0; i < N; ++i)
      w.get_unsafe(N - 1 - i) = static_cast<int>(k[N - 1 - i]);
    c17::add(u, w, k, "written through get_unsafe");
    c17::add(u, fcppt::math::dim::to_vector(make_from_key<dimt>(k, std::make_index_sequence<N>{})), k, "dim::to_vector");
    c17::add(u,
             fcppt::math::vector::structure_cast<vec, fcppt::cast::size_fun>(
                 make_from_key<lvec>(k, std::make_index_sequence<N>{})),
             k, "structure_cast from long");
    vec a{fcppt::math::vector::fill<vec>(7)};
    a = v;
    c17::add(u, a, k, "assigned");
  }
  for (auto const &e : u)
    for (unsigned i = 0; i < N; ++i)
      if (e.value.get_unsafe(i) != e.key[i])
        vrt::fail("vector:get:<int," + std::to_string(N) + ">", "get_unsafe disagrees with " + c17::show(e));
  c17::check_type<c17::NE | c17::LT | c17::REL | c17::HASH | c17::LEX>("vector", "<int," + std::to_string(N) + ">", u, part,
                                                                       nparts);
}

template <unsigned N> void dims(long base, unsigned part, unsigned nparts)
{
  using dimt = fcppt::math::dim::static_<int, N>;
  using ldim = fcppt::math::dim::static_<long, N>;
  using vec = fcppt::math::vector::static_<int, N>;
  c17::universe<dimt> u;
  for (key_t const &k : c17::tuples(N, base))
  {
    dimt const v = make_from_key<dimt>(k, std::make_index_sequence<N>{});
    c17::add(u, v, k, "ctor");
    c17::add(u, v + fcppt::math::dim::null<dimt>(), k, "d + null");
    c17::add(u, (v + fcppt::math::dim::fill<dimt>(5)) - fcppt::math::dim::fill<dimt>(5), k, "(d+5)-5");
    c17::add(u, fcppt::math::dim::init<dimt>([&k](auto const i) { return static_cast<int>(k[i()]); }), k, "init");
    dimt w{fcppt::math::dim::fill<dimt>(9)};
    for (unsigned i = 0; i < N; ++i)
      w.get_unsafe(i) = static_cast<int>(k[i]);
    c17::add(u, w, k, "written through get_unsafe");
    c17::add(u, fcppt::math::vector::to_dim(make_from_key<vec>(k, std::make_index_sequence<N>{})), k, "vector::to_dim");
    c17::add(u,
             fcppt::math::dim::structure_cast<dimt, fcppt::cast::size_fun>(
                 make_from_key<ldim>(k, std::make_index_sequence<N>{})),
             k, "structure_cast from long");
  }
  c17::check_type<c17::NE | c17::LT | c17::REL | c17::HASH | c17::LEX>("dim", "<int," + std::to_string(N) + ">", u, part,
                                                                       nparts);
}

// ------------------------------------------------------------------ matrix
void matrices_2x2(unsigned part, unsigned nparts)
{
  using mat = fcppt::math::matrix::static_<int, 2, 2>;
  using lmat = fcppt::math::matrix::static_<long, 2, 2>;
  using fcppt::math::matrix::row;
  c17::universe<mat> u;
  for (key_t const &k : c17::tuples(4, 3))
  {
    int const a = static_cast<int>(k[0]), b = static_cast<int>(k[1]), c = static_cast<int>(k[2]), d = static_cast<int>(k[3]);
    mat const m(row(a, b), row(c, d));
    c17::add(u, m, k, "ctor from rows");
    c17::add(u, fcppt::math::matrix::transpose(mat(row(a, c), row(b, d))), k, "transpose of the transposed");
    mat w(row(9, 9), row(9, 9));
    w.m00() = a;
    w.m01() = b;
    w.m10() = c;
    w.m11() = d;
    c17::add(u, w, k, "written through m00..m11");
    c17::add(u, (m + mat(row(1, 2), row(3, 4))) - mat(row(1, 2), row(3, 4)), k, "(m+x)-x");
    c17::add(u,
             fcppt::math::matrix::structure_cast<mat, fcppt::cast::size_fun>(
                 lmat(row(long{a}, long{b}), row(long{c}, long{d}))),
             k, "structure_cast from long");
  }
  for (auto const &e : u)
    if (e.value.m00() != e.key[0] || e.value.m01() != e.key[1] || e.value.m10() != e.key[2] || e.value.m11() != e.key[3])
      vrt::fail("matrix:get:<int,2,2>", "m00..m11 disagree with " + c17::show(e));
  c17::check_type<c17::NE | c17::HASH>("matrix", "<int,2,2>", u, part, nparts);
}

void matrices_2x3()
{
  using mat = fcppt::math::matrix::static_<int, 2, 3>;
  using tmat = fcppt::math::matrix::static_<int, 3, 2>;
  using fcppt::math::matrix::row;
  c17::universe<mat> u;
  for (key_t const &k : c17::tuples(6, 2))
  {
    int const a = static_cast<int>(k[0]), b = static_cast<int>(k[1]), c = static_cast<int>(k[2]), d = static_cast<int>(k[3]),
              e = static_cast<int>(k[4]), f = static_cast<int>(k[5]);
    c17::add(u, mat(row(a, b, c), row(d, e, f)), k, "ctor from rows");
    c17::add(u, fcppt::math::matrix::transpose(tmat(row(a, d), row(b, e), row(c, f))), k, "transpose of 3x2");
  }
  for (auto const &e : u)
    if (e.value.m00() != e.key[0] || e.value.m01() != e.key[1] || e.value.m02() != e.key[2] || e.value.m10() != e.key[3] ||
        e.value.m11() != e.key[4] || e.value.m12() != e.key[5])
      vrt::fail("matrix:get:<int,2,3>", "m00..m12 disagree with " + c17::show(e));
  c17::check_type<c17::NE | c17::HASH>("matrix", "<int,2,3>", u);
}

// row views of a matrix are vectors with another storage type: same-type and mixed comparisons
void row_views()
{
  using mat = fcppt::math::matrix::static_<int, 2, 2>;
  using vec = fcppt::math::vector::static_<int, 2>;
  using fcppt::math::matrix::row;
  std::vector<mat> mats;
  std::vector<key_t> keys;
  for (key_t const &k : c17::tuples(4, 3))
  {
    mats.push_back(mat(row(static_cast<int>(k[0]), static_cast<int>(k[1])), row(static_cast<int>(k[2]), static_cast<int>(k[3]))));
    keys.push_back(k);
  }
  for (std::size_t i = 0; i < mats.size(); ++i)
  {
    auto const r0 = fcppt::math::matrix::at_r<0>(mats[i]);
    auto const r1 = fcppt::math::matrix::at_r<1>(mats[i]);
    key_t const k0{keys[i][0], keys[i][1]}, k1{keys[i][2], keys[i][3]};
    for (std::size_t j = 0; j < mats.size(); ++j)
    {
      if (!vrt::begin("vector<int,2>:row_view:pair", i, j))
        continue;
      vrt::nontrivial(i != j);
      auto const s0 = fcppt::math::matrix::at_r<0>(mats[j]);
      key_t const l0{keys[j][0], keys[j][1]}, l1{keys[j][2], keys[j][3]};
      vec const stat(static_cast<int>(l1[0]), static_cast<int>(l1[1]));
      // view vs view (same storage type)
      VRT_CHECK((r0 == s0) == (k0 == l0) && (r0 != s0) == (k0 != l0) && (r1 == s0) == (k1 == l0), "vector:eq:row_view",
                "row view == row view wrong (matrices %zu,%zu)", i, j);
      VRT_CHECK((r0 < s0) == (k0 < l0) && (s0 < r1) == (l0 < k1) && (r1 >= s0) == !(k1 < l0) && (r0 > s0) == (l0 < k0) &&
                    (r0 <= s0) == !(l0 < k0),
                "vector:lt_lexicographic:row_view", "row view < row view wrong (matrices %zu,%zu)", i, j);
      if (k1 == l0)
        VRT_CHECK(std::hash<std::remove_const_t<decltype(r1)>>{}(r1) == std::hash<std::remove_const_t<decltype(s0)>>{}(s0), "vector:hash:row_view",
                  "equal row views hash differently (matrices %zu,%zu)", i, j);
      // view vs static storage (mixed), both directions
      VRT_CHECK((r0 == stat) == (k0 == l1) && (stat == r0) == (k0 == l1) && (r0 != stat) == (k0 != l1) &&
                    (stat != r1) == (k1 != l1),
                "vector:eq:row_view_vs_static", "row view == static vector wrong (matrices %zu,%zu)", i, j);
      // a static copy of the view equals the view and hashes like an equal static vector
      vec const copy(r0);
      VRT_CHECK(copy == r0 && copy.x() == k0[0] && copy.y() == k0[1], "vector:copy_of_row_view", "copy of a row view differs");
      if (k0 == l1)
        VRT_CHECK(std::hash<vec>{}(copy) == std::hash<vec>{}(stat), "vector:hash:copy_of_row_view",
                  "copy of a row view hashes differently from an equal vector");
    }
  }
}

// ------------------------------------------------------------------ box, sphere
template <unsigned N> void boxes(unsigned part, unsigned nparts)
{
  using box = fcppt::math::box::object<int, N>;
  using vec = typename box::vector;
  using dimt = typename box::dim;
  c17::universe<box> u;
  for (key_t const &k : c17::tuples(2 * N, 3)) // key order: pos components, then size components
  {
    key_t const kp(k.begin(), k.begin() + N), ks(k.begin() + N, k.end());
    key_t kmax(N);
    for (unsigned i = 0; i < N; ++i)
      kmax[i] = kp[i] + ks[i];
    vec const pos = make_from_key<vec>(kp, std::make_index_sequence<N>{});
    dimt const size = make_from_key<dimt>(ks, std::make_index_sequence<N>{});
    vec const max = make_from_key<vec>(kmax, std::make_index_sequence<N>{});
    c17::add(u, box(pos, size), k, "ctor(pos,size)");
    c17::add(u, box(pos, max), k, "ctor(min,max)");
    box b(fcppt::math::vector::fill<vec>(7), fcppt::math::dim::fill<dimt>(7));
    b.pos() = pos;
    b.max() = max;
    c17::add(u, b, k, "written through pos()/max()");
  }
  for (auto const &e : u)
    for (unsigned i = 0; i < N; ++i)
      if (e.value.pos().get_unsafe(i) != e.key[i] || e.value.size().get_unsafe(i) != e.key[N + i])
        vrt::fail("box:get:<int," + std::to_string(N) + ">", "pos()/size() disagree with " + c17::show(e));
  c17::check_type<c17::NE | c17::LT | c17::LEX>("box", "<int," + std::to_string(N) + ">", u, part, nparts);
}

void spheres()
{
  using sph = fcppt::math::sphere::object<int, 2>;
  using point = typename sph::point_type;
  c17::universe<sph> u;
  for (key_t const &k : c17::tuples(3, 3)) // origin x, origin y, radius
  {
    point const o(static_cast<int>(k[0]), static_cast<int>(k[1]));
    c17::add(u, sph(o, static_cast<int>(k[2])), k, "ctor");
    sph s(point(9, 9), 9);
    s.radius() = static_cast<int>(k[2]);
    s.origin() = o;
    c17::add(u, s, k, "written through origin()/radius()");
    sph t(point(8, 8), 8);
    t = sph(o, static_cast<int>(k[2]));
    c17::add(u, t, k, "assigned");
  }
  c17::check_type<c17::NE>("sphere", "<int,2>", u);
}

} // namespace

void register_math()
{
  vrt::shard("vector", [] {
    vectors<1>(3, 0, 1);
    vectors<2>(3, 0, 1);
    if (vrt::quick())
      vectors<4>(2, 0, 1);
  });
  for (unsigned p = 0; p < 8; ++p)
    vrt::shard("vector4/" + std::to_string(p), [p] {
      if (vrt::thorough())
        vectors<4>(3, p, 8);
    });
  for (unsigned p = 0; p < 4; ++p)
    vrt::shard("vector3/" + std::to_string(p), [p] { vectors<3>(3, p, 4); });
  vrt::shard("dim", [] {
    dims<1>(3, 0, 1);
    dims<2>(3, 0, 1);
  });
  for (unsigned p = 0; p < 4; ++p)
    vrt::shard("dim3/" + std::to_string(p), [p] { dims<3>(3, p, 4); });
  for (unsigned p = 0; p < 8; ++p)
    vrt::shard("matrix2x2/" + std::to_string(p), [p] { matrices_2x2(p, 8); });
  vrt::shard("matrix2x3_rowviews", [] {
    matrices_2x3();
    row_views();
  });
  vrt::shard("box1_sphere", [] {
    boxes<1>(0, 1);
    spheres();
  });
  for (unsigned p = 0; p < 8; ++p)
    vrt::shard("box2/" + std::to_string(p), [p] { boxes<2>(p, 8); });
}

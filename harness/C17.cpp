// C17 -- typed wrappers are transparent; ==, != , < and hash are mutually coherent.
// Engine E.  This TU: main(), strong_typedef operators vs the raw operators (all pairs of
// [-128,127]^2 for signed, all pairs of wrap-around boundary values for unsigned, oracle in
// __int128), type_iso, and the pointer-like wrappers reference / recursive / unique_ptr / shared_ptr.
// The other families live in C17_sum.cpp, C17_math.cpp, C17_cont.cpp; the generic pair/triple checker
// is C17_common.hpp.
#include <C17_common.hpp>
#include <C17_elem.hpp>

#include <fcppt/make_cref.hpp>
#include <fcppt/make_recursive.hpp>
#include <fcppt/make_ref.hpp>
#include <fcppt/make_shared_ptr.hpp>
#include <fcppt/make_unique_ptr.hpp>
#include <fcppt/recursive.hpp>
#include <fcppt/recursive_comparison.hpp>
#include <fcppt/reference.hpp>
#include <fcppt/reference_comparison.hpp>
#include <fcppt/reference_hash.hpp>
#include <fcppt/reference_std_hash.hpp>
#include <fcppt/reference_to_base.hpp>
#include <fcppt/reference_to_const.hpp>
#include <fcppt/shared_ptr.hpp>
#include <fcppt/shared_ptr_hash_decl.hpp>
#include <fcppt/shared_ptr_hash_impl.hpp>
#include <fcppt/shared_ptr_std_hash.hpp>
#include <fcppt/strong_typedef.hpp>
#include <fcppt/strong_typedef_arithmetic.hpp>
#include <fcppt/strong_typedef_assignment.hpp>
#include <fcppt/strong_typedef_bitwise.hpp>
#include <fcppt/strong_typedef_comparison.hpp>
#include <fcppt/strong_typedef_hash.hpp>
#include <fcppt/strong_typedef_std_hash.hpp>
#include <fcppt/unique_ptr.hpp>
#include <fcppt/unique_ptr_to_base.hpp>
#include <fcppt/unique_ptr_to_const.hpp>
#include <fcppt/weak_ptr.hpp>
#include <fcppt/optional/object_impl.hpp>
#include <fcppt/type_iso/decorate.hpp>
#include <fcppt/type_iso/strong_typedef.hpp>
#include <fcppt/type_iso/undecorate.hpp>

#include <algorithm>
#include <cmath>
#include <cstdint>
#include <cstring>
#include <limits>
#include <string>
#include <type_traits>
#include <vector>

void register_order();   // C17_order.cpp
void register_records(); // C17_rec.cpp

namespace
{
using i128 = __int128;
using c17::key_t;

template <class T> struct tn;
template <> struct tn<int> { static constexpr char const *v = "int"; };
template <> struct tn<long long> { static constexpr char const *v = "i64"; };
template <> struct tn<unsigned> { static constexpr char const *v = "u32"; };
template <> struct tn<unsigned long long> { static constexpr char const *v = "u64"; };

// exact value of the C++ operator result in T: signed operands are small (no overflow, computed in
// __int128); unsigned results are computed in unsigned __int128 (wraps modulo 2^128) and reduced modulo
// 2^bits, which is what the language defines for unsigned arithmetic
using u128 = unsigned __int128;
template <class T> i128 arith(i128 a, i128 b, char op)
{
  if constexpr (std::is_unsigned_v<T>)
  {
    u128 const x = static_cast<u128>(a), y = static_cast<u128>(b);
    u128 r = op == '+' ? x + y : op == '-' ? x - y : x * y;
    constexpr int bits = sizeof(T) * 8;
    r &= (u128(1) << bits) - 1;
    return static_cast<i128>(r);
  }
  else
    return op == '+' ? a + b : op == '-' ? a - b : a * b;
}

// bitwise reference on the two's complement pattern, bit by bit
template <class T> i128 bitop(i128 a, i128 b, int op)
{
  constexpr int bits = sizeof(T) * 8;
  i128 const m = i128(1) << bits;
  i128 ua = a < 0 ? a + m : a, ub = b < 0 ? b + m : b, r = 0;
  for (int k = 0; k < bits; ++k)
  {
    int const x = static_cast<int>((ua >> k) & 1), y = static_cast<int>((ub >> k) & 1);
    int z = op == 0 ? (x & y) : op == 1 ? (x | y) : op == 2 ? (x ^ y) : (1 - x);
    r |= i128(z) << k;
  }
  if (std::is_signed_v<T> && r >= m / 2)
    r -= m;
  return r;
}

template <class T> std::vector<T> st_domain()
{
  std::vector<T> r;
  if constexpr (std::is_signed_v<T>)
  {
    for (int v = -128; v <= 127; ++v)
      r.push_back(static_cast<T>(v));
  }
  else
  {
    // wrap-around boundary values of T
    constexpr int bits = sizeof(T) * 8;
    std::vector<i128> s;
    for (i128 d : {i128(0), i128(1), i128(2), i128(3), i128(5), i128(7), i128(10), i128(255), i128(256)})
      s.push_back(d);
    for (int k : {7, 8, 15, 16, 31, 32, 33, 63})
      if (k < bits)
        for (i128 d : {i128(-1), i128(0), i128(1)})
          s.push_back((i128(1) << k) + d);
    i128 const mx = (i128(1) << bits) - 1;
    for (i128 d : {i128(0), i128(1), i128(2), i128(3), i128(255)})
      s.push_back(mx - d);
    s.push_back(mx / 2);
    s.push_back(mx / 2 + 1);
    s.push_back(mx / 3);
    s.push_back(mx / 3 * 2);
    std::sort(s.begin(), s.end());
    s.erase(std::unique(s.begin(), s.end()), s.end());
    for (i128 v : s)
      r.push_back(static_cast<T>(v));
  }
  return r;
}

template <class T> struct st_tag
{
};

template <class T> void strong_typedef_ops(unsigned part, unsigned nparts)
{
  using st = fcppt::strong_typedef<T, st_tag<T>>;
  static std::string const fam = std::string("strong_typedef<") + tn<T>::v + ">";
  static std::string const n_bin = fam + ":binary";
  static std::string const n_un = fam + ":unary";
  auto const dom = st_domain<T>();
  auto V = [](st const &s) { return static_cast<i128>(s.get()); };
  auto ll = [](i128 v) { return static_cast<long long>(v); };
  std::size_t idx = 0;
  for (T a : dom)
  {
    if (idx++ % nparts != part)
      continue;
    i128 const A = a;
    if (vrt::begin(n_un.c_str(), static_cast<std::int64_t>(a)))
    {
      vrt::nontrivial(A != 0);
      vrt::maybe_sample();
      st const s{a};
      VRT_CHECK(V(s) == A, fam + ":get", "get() of st(%lld) is %lld", ll(A), ll(V(s)));
      if (!(std::is_signed_v<T> && A == static_cast<i128>(std::numeric_limits<T>::min())))
        VRT_CHECK(V(-s) == arith<T>(0, A, '-'), fam + ":unary_minus", "-st(%lld) is %lld", ll(A), ll(V(-s)));
      VRT_CHECK(V(~s) == bitop<T>(A, 0, 3), fam + ":bit_not", "~st(%lld) is %lld want %lld", ll(A), ll(V(~s)),
                ll(bitop<T>(A, 0, 3)));
      {
        st x{a};
        st &r = ++x;
        VRT_CHECK(&r == &x && V(x) == arith<T>(A, 1, '+'), fam + ":pre_inc", "++st(%lld) gives %lld", ll(A), ll(V(x)));
      }
      {
        st x{a};
        st &r = --x;
        VRT_CHECK(&r == &x && V(x) == arith<T>(A, 1, '-'), fam + ":pre_dec", "--st(%lld) gives %lld", ll(A), ll(V(x)));
      }
      {
        st x{a};
        st const old = x++;
        VRT_CHECK(V(old) == A && V(x) == arith<T>(A, 1, '+'), fam + ":post_inc", "st(%lld)++ returns %lld leaves %lld", ll(A),
                  ll(V(old)), ll(V(x)));
      }
      {
        st x{a};
        st const old = x--;
        VRT_CHECK(V(old) == A && V(x) == arith<T>(A, 1, '-'), fam + ":post_dec", "st(%lld)-- returns %lld leaves %lld", ll(A),
                  ll(V(old)), ll(V(x)));
      }
      VRT_CHECK(fcppt::strong_typedef_hash<st>{}(s) == fcppt::strong_typedef_hash<st>{}(st{a}) &&
                    std::hash<st>{}(s) == std::hash<st>{}(st{a}),
                fam + ":hash_deterministic", "hash of st(%lld) not reproducible", ll(A));
      // audit class (C): that std::hash and strong_typedef_hash give the *same number* is not promised
      if (std::hash<st>{}(s) != fcppt::strong_typedef_hash<st>{}(s))
        vrt::count("info:" + fam + ":std_hash_differs_from_strong_typedef_hash");
      // type_iso: decorate / undecorate are inverse and expose exactly the value
      using tr = fcppt::type_iso::transform<st>;
      static_assert(std::is_same_v<typename tr::undecorated_type, T>);
      VRT_CHECK(V(tr::decorate(a)) == A && static_cast<i128>(tr::undecorate(s)) == A, fam + ":type_iso_transform",
                "transform<st>::decorate/undecorate(%lld) wrong", ll(A));
      VRT_CHECK(V(fcppt::type_iso::decorate<st>(a)) == A && static_cast<i128>(fcppt::type_iso::undecorate(s)) == A &&
                    static_cast<i128>(fcppt::type_iso::undecorate(fcppt::type_iso::decorate<st>(a))) == A,
                fam + ":type_iso", "type_iso::decorate/undecorate(%lld) wrong", ll(A));
      struct outer_tag
      {
      };
      using nested = fcppt::strong_typedef<st, outer_tag>;
      static_assert(std::is_same_v<fcppt::type_iso::undecorated_type<nested>, T>);
      nested const n = fcppt::type_iso::decorate<nested>(a);
      VRT_CHECK(V(n.get()) == A && static_cast<i128>(fcppt::type_iso::undecorate(n)) == A &&
                    static_cast<i128>(fcppt::type_iso::undecorate(nested{st{a}})) == A,
                fam + ":type_iso_nested", "nested decorate/undecorate(%lld) wrong", ll(A));
    }
    for (T b : dom)
    {
      if (!vrt::begin(n_bin.c_str(), static_cast<std::int64_t>(a), static_cast<std::int64_t>(b)))
        continue;
      i128 const B = b;
      // non-trivial: operands differ and the exact result of + or * leaves the range of T (unsigned)
      // or the operands have different signs (signed)
      if constexpr (std::is_unsigned_v<T>)
        vrt::nontrivial(A != B && (A + B != arith<T>(A, B, '+') || A < B || (A != 0 && arith<T>(A, B, '*') / A != B)));
      else
        vrt::nontrivial(A != B && ((A < 0) != (B < 0)));
      vrt::maybe_sample();
      st const x{a}, y{b};
#define C17_BIN(op, name, want)                                                                                        \
  VRT_CHECK(V(x op y) == (want) && V(x) == A && V(y) == B, fam + ":" name, "st(%lld) " #op " st(%lld) is %lld want %lld", \
            ll(A), ll(B), ll(V(x op y)), ll(want))
      C17_BIN(+, "plus", arith<T>(A, B, '+'));
      C17_BIN(-, "minus", arith<T>(A, B, '-'));
      C17_BIN(*, "times", arith<T>(A, B, '*'));
      C17_BIN(&, "bit_and", bitop<T>(A, B, 0));
      C17_BIN(|, "bit_or", bitop<T>(A, B, 1));
      C17_BIN(^, "bit_xor", bitop<T>(A, B, 2));
#undef C17_BIN
#define C17_ASSIGN(op, name, want)                                                                                       \
  do                                                                                                                     \
  {                                                                                                                      \
    st l{a};                                                                                                             \
    st const r{b};                                                                                                       \
    st &res = (l op r);                                                                                                  \
    VRT_CHECK(&res == &l && V(l) == (want) && V(r) == B, fam + ":" name, "st(%lld) " #op " st(%lld) leaves %lld want %lld", \
              ll(A), ll(B), ll(V(l)), ll(want));                                                                         \
  } while (0)
      C17_ASSIGN(+=, "plus_assign", arith<T>(A, B, '+'));
      C17_ASSIGN(-=, "minus_assign", arith<T>(A, B, '-'));
      C17_ASSIGN(*=, "times_assign", arith<T>(A, B, '*'));
      C17_ASSIGN(&=, "and_assign", bitop<T>(A, B, 0));
      C17_ASSIGN(|=, "or_assign", bitop<T>(A, B, 1));
      C17_ASSIGN(^=, "xor_assign", bitop<T>(A, B, 2));
#undef C17_ASSIGN
      VRT_CHECK((x < y) == (A < B), fam + ":less", "st(%lld) < st(%lld)", ll(A), ll(B));
      VRT_CHECK((x <= y) == (A <= B), fam + ":less_equal", "st(%lld) <= st(%lld)", ll(A), ll(B));
      VRT_CHECK((x > y) == (A > B), fam + ":greater", "st(%lld) > st(%lld)", ll(A), ll(B));
      VRT_CHECK((x >= y) == (A >= B), fam + ":greater_equal", "st(%lld) >= st(%lld)", ll(A), ll(B));
      VRT_CHECK((x == y) == (A == B), fam + ":equal", "st(%lld) == st(%lld)", ll(A), ll(B));
      VRT_CHECK((x != y) == (A != B), fam + ":not_equal", "st(%lld) != st(%lld)", ll(A), ll(B));
      if (A == B)
        VRT_CHECK(fcppt::strong_typedef_hash<st>{}(x) == fcppt::strong_typedef_hash<st>{}(y) &&
                      std::hash<st>{}(x) == std::hash<st>{}(y),
                  fam + ":hash", "equal values hash differently (%lld)", ll(A));
    }
  }
}

// strong_typedef over a non-arithmetic type: + is concatenation, comparisons are std::string's
void strong_typedef_string()
{
  struct tag
  {
  };
  using st = fcppt::strong_typedef<std::string, tag>;
  std::vector<std::string> const dom{"", "a", "b", "aa", "ab", "ba", std::string(40, 'a'), std::string(40, 'a') + "b"};
  for (std::size_t i = 0; i < dom.size(); ++i)
    for (std::size_t j = 0; j < dom.size(); ++j)
    {
      if (!vrt::begin("strong_typedef<string>:binary", i, j))
        continue;
      vrt::nontrivial(i != j);
      std::string const &a = dom[i], &b = dom[j];
      st const x{a}, y{b};
      VRT_CHECK((x + y).get() == a + b, "strong_typedef<string>:plus", "concatenation wrong for %zu,%zu", i, j);
      st l{a};
      st &r = (l += y);
      VRT_CHECK(&r == &l && l.get() == a + b && y.get() == b, "strong_typedef<string>:plus_assign", "+= wrong for %zu,%zu", i, j);
      VRT_CHECK((x < y) == (a < b) && (x <= y) == (a <= b) && (x > y) == (a > b) && (x >= y) == (a >= b) &&
                    (x == y) == (a == b) && (x != y) == (a != b),
                "strong_typedef<string>:comparison", "comparison differs from std::string for %zu,%zu", i, j);
      if (a == b)
        VRT_CHECK(std::hash<st>{}(x) == std::hash<st>{}(y), "strong_typedef<string>:hash", "equal strings hash differently");
    }
}

// strong_typedef over floating point: the underlying == / < are not an equivalence / strict weak order
// (NaN is unordered, -0.0 == 0.0), so a<=b is NOT !(b<a).  Transparency only: every wrapper operator
// must give exactly the raw operator's result on the underlying values; no order laws are required.
template <class F> bool same_fp(F a, F b)
{
  if (std::isnan(a) || std::isnan(b))
    return std::isnan(a) && std::isnan(b);
  return std::memcmp(&a, &b, sizeof(F)) == 0; // tells -0.0 from 0.0
}

template <class F> void strong_typedef_float(char const *tname)
{
  struct tag
  {
  };
  using st = fcppt::strong_typedef<F, tag>;
  using lim = std::numeric_limits<F>;
  static std::string const fam = std::string("strong_typedef<") + tname + ">";
  static std::string const n_bin = fam + ":binary";
  static std::string const n_un = fam + ":unary";
  // another NaN payload: quiet NaN with one more mantissa bit set, sign set
  F nan2 = lim::quiet_NaN();
  {
    unsigned char b[sizeof(F)];
    std::memcpy(b, &nan2, sizeof(F));
    b[0] |= 0x5; // low mantissa byte (little endian)
    b[sizeof(F) - 1] |= 0x80;
    std::memcpy(&nan2, b, sizeof(F));
  }
  if (!std::isnan(nan2) || !std::isnan(lim::quiet_NaN()))
    vrt::fail("harness:float_nan", "NaN construction failed");
  std::vector<F> const dom{-lim::infinity(), F(-1),           F(-0.0),           F(0.0),           F(1),
                           lim::max(),       lim::denorm_min(), lim::infinity(), lim::quiet_NaN(), nan2};
  char const *const names[] = {"-inf", "-1", "-0.0", "0.0", "1", "max", "denorm_min", "+inf", "NaN", "NaN'"};
  for (std::size_t i = 0; i < dom.size(); ++i)
  {
    F const a = dom[i];
    if (vrt::begin(n_un.c_str(), i))
    {
      vrt::nontrivial(std::isnan(a) || a == F(0));
      vrt::describe(fam + " unary: " + names[i]);
      vrt::maybe_sample();
      st const x{a};
      VRT_CHECK(same_fp(x.get(), a), fam + ":get", "get() of st(%s) differs", names[i]);
      VRT_CHECK(same_fp((-x).get(), -a), fam + ":unary_minus", "-st(%s) differs from the raw result", names[i]);
    }
    for (std::size_t j = 0; j < dom.size(); ++j)
    {
      if (!vrt::begin(n_bin.c_str(), i, j))
        continue;
      F const b = dom[j];
      // non-trivial: an operand is NaN or the pair is (-0.0, 0.0): <= differs from !(b<a) or == from identity
      vrt::nontrivial(std::isnan(a) || std::isnan(b) || (a == b && !same_fp(a, b)));
      vrt::describe(fam + " binary: " + names[i] + " , " + names[j]);
      vrt::maybe_sample();
      st const x{a}, y{b};
#define C17_FCMP(op, name)                                                                                              \
  VRT_CHECK((x op y) == (a op b), fam + ":" name, "st(%s) " #op " st(%s) gave %d, raw operator gives %d", names[i],    \
            names[j], (int)(x op y), (int)(a op b))
      C17_FCMP(==, "equal");
      C17_FCMP(!=, "not_equal");
      C17_FCMP(<, "less");
      C17_FCMP(<=, "less_equal");
      C17_FCMP(>, "greater");
      C17_FCMP(>=, "greater_equal");
#undef C17_FCMP
#define C17_FBIN(op, name)                                                                                              \
  VRT_CHECK(same_fp((x op y).get(), a op b), fam + ":" name, "st(%s) " #op " st(%s) gave %g, raw operator gives %g",   \
            names[i], names[j], (double)(x op y).get(), (double)(a op b))
      C17_FBIN(+, "plus");
      C17_FBIN(-, "minus");
      C17_FBIN(*, "times");
#undef C17_FBIN
      {
        st l{a};
        l += y;
        st m{a};
        m -= y;
        st t{a};
        t *= y;
        VRT_CHECK(same_fp(l.get(), a + b) && same_fp(m.get(), a - b) && same_fp(t.get(), a * b), fam + ":compound_assign",
                  "+=, -= or *= on st(%s), st(%s) differs from the raw result", names[i], names[j]);
      }
    }
  }
}

// a genuinely partially ordered underlying type: 3-bit flag sets ordered by inclusion
struct flagset
{
  unsigned bits;
  friend bool operator==(flagset a, flagset b) { return a.bits == b.bits; }
  friend bool operator!=(flagset a, flagset b) { return a.bits != b.bits; }
  friend bool operator<=(flagset a, flagset b) { return (a.bits & ~b.bits) == 0U; }              // subset
  friend bool operator<(flagset a, flagset b) { return (a.bits & ~b.bits) == 0U && a.bits != b.bits; } // proper subset
  friend bool operator>=(flagset a, flagset b) { return (b.bits & ~a.bits) == 0U; }
  friend bool operator>(flagset a, flagset b) { return (b.bits & ~a.bits) == 0U && a.bits != b.bits; }
};

void strong_typedef_partial_order()
{
  struct tag
  {
  };
  using st = fcppt::strong_typedef<flagset, tag>;
  static std::string const fam = "strong_typedef<flagset>";
  for (unsigned i = 0; i < 8; ++i)
    for (unsigned j = 0; j < 8; ++j)
    {
      if (!vrt::begin("strong_typedef<flagset>:binary", i, j))
        continue;
      // reference written independently of flagset's operators
      bool const sub = (i & j) == i, sup = (i & j) == j, same = i == j;
      // non-trivial: incomparable sets (neither includes the other): a<=b and !(b<a) differ
      vrt::nontrivial(!sub && !sup);
      vrt::maybe_sample();
      flagset const a{i}, b{j};
      if ((a == b) != same || (a != b) != !same || (a <= b) != sub || (a < b) != (sub && !same) || (a >= b) != sup ||
          (a > b) != (sup && !same))
        vrt::fail("harness:flagset_operators", "flagset operators disagree with the subset reference");
      st const x{a}, y{b};
      VRT_CHECK((x == y) == same, fam + ":equal", "st(%u) == st(%u) gave %d", i, j, (int)(x == y));
      VRT_CHECK((x != y) == !same, fam + ":not_equal", "st(%u) != st(%u) gave %d", i, j, (int)(x != y));
      VRT_CHECK((x < y) == (sub && !same), fam + ":less", "st(%u) < st(%u) gave %d, proper subset is %d", i, j, (int)(x < y),
                (int)(sub && !same));
      VRT_CHECK((x <= y) == sub, fam + ":less_equal", "st(%u) <= st(%u) gave %d, subset is %d", i, j, (int)(x <= y), (int)sub);
      VRT_CHECK((x > y) == (sup && !same), fam + ":greater", "st(%u) > st(%u) gave %d, proper superset is %d", i, j,
                (int)(x > y), (int)(sup && !same));
      VRT_CHECK((x >= y) == sup, fam + ":greater_equal", "st(%u) >= st(%u) gave %d, superset is %d", i, j, (int)(x >= y),
                (int)sup);
    }
}

// strong_typedef as a value type: ==, !=, <, <=, >, >=, hash over all pairs and triples; values also
// reached through arithmetic
void strong_typedef_values()
{
  struct tag
  {
  };
  using st = fcppt::strong_typedef<int, tag>;
  c17::universe<st> u;
  for (int v = -2; v <= 2; ++v)
  {
    c17::add(u, st{v}, key_t{v}, "ctor");
    st s{v - 1};
    ++s;
    c17::add(u, s, key_t{v}, "pre-increment of v-1");
    c17::add(u, st{v + 7} - st{7}, key_t{v}, "(v+7)-7");
    st t{0};
    t += st{v};
    c17::add(u, t, key_t{v}, "0 += v");
    c17::add(u, ~st{~v}, key_t{v}, "~~v");
  }
  c17::check_type<c17::NE | c17::LT | c17::REL | c17::HASH | c17::LEX>("strong_typedef", "<int>", u);
  c17::check_type<c17::HASH | c17::HASH_ONLY>("strong_typedef", "<int>/strong_typedef_hash", u, 0, 1, false,
                             fcppt::strong_typedef_hash<st>{});
}

// ------------------------------------------------------------------ reference
struct base
{
  int b;
  explicit base(int x) : b(x) {}
  virtual ~base() = default;
};
struct derived : base
{
  int d;
  derived(int x, int y) : base(x), d(y) {}
};

void references()
{
  // targets live in one array: &t[i] < &t[j] <=> i < j.  Equal *values* in different objects must
  // not make references equal (documentation: "equal if they refer to the same object").
  static int targets[4] = {0, 0, 1, 1};
  {
    using ref = fcppt::reference<int>;
    c17::universe<ref> u;
    for (int i = 0; i < 4; ++i)
    {
      c17::add(u, ref{targets[i]}, key_t{i}, "ctor");
      c17::add(u, fcppt::make_ref(targets[i]), key_t{i}, "make_ref");
      ref r{targets[(i + 1) % 4]};
      r = ref{targets[i]};
      c17::add(u, r, key_t{i}, "assigned over a reference to another object");
      ref const c{u[u.size() - 3].value};
      c17::add(u, c, key_t{i}, "copy");
    }
    for (auto const &e : u)
      if (&e.value.get() != &targets[e.key[0]] || e.value.operator->() != &targets[e.key[0]])
        vrt::fail("reference:get:<int>", "get()/operator-> do not expose the referenced object");
    c17::check_type<c17::NE | c17::LT | c17::HASH | c17::LEX>("reference", "<int>", u);
    c17::check_type<c17::HASH | c17::HASH_ONLY>("reference", "<int>/reference_hash", u, 0, 1, false, fcppt::reference_hash<ref>{});
  }
  {
    using cref = fcppt::reference<int const>;
    c17::universe<cref> u;
    for (int i = 0; i < 4; ++i)
    {
      c17::add(u, cref{targets[i]}, key_t{i}, "ctor");
      c17::add(u, fcppt::make_cref(targets[i]), key_t{i}, "make_cref");
      c17::add(u, fcppt::reference_to_const(fcppt::make_ref(targets[i])), key_t{i}, "reference_to_const");
    }
    c17::check_type<c17::NE | c17::LT | c17::HASH | c17::LEX>("reference", "<int const>", u);
  }
  {
    // references to base sub-objects
    static derived objs[3] = {derived{0, 0}, derived{0, 0}, derived{1, 1}};
    using bref = fcppt::reference<base>;
    c17::universe<bref> u;
    for (int i = 0; i < 3; ++i)
    {
      c17::add(u, bref{objs[i]}, key_t{i}, "ctor from derived lvalue");
      c17::add(u, fcppt::reference_to_base<base>(fcppt::make_ref(objs[i])), key_t{i}, "reference_to_base");
    }
    for (auto const &e : u)
      if (&e.value.get() != static_cast<base *>(&objs[e.key[0]]))
        vrt::fail("reference:get:<base>", "reference_to_base does not expose the base sub-object");
    c17::check_type<c17::NE | c17::LT | c17::HASH | c17::LEX>("reference", "<base>", u);
  }
}

// ------------------------------------------------------------------ recursive
void recursives()
{
  using rec = fcppt::recursive<int>;
  c17::universe<rec> u;
  for (int v = 0; v <= 2; ++v)
  {
    c17::add(u, rec{v}, key_t{v}, "ctor");
    c17::add(u, fcppt::make_recursive(v), key_t{v}, "make_recursive");
    rec a{(v + 1) % 3};
    rec const src{v};
    a = src;
    c17::add(u, rec{a}, key_t{v}, "copy of a copy-assigned recursive");
    rec b{(v + 2) % 3};
    b = rec{v};
    c17::add(u, std::move(b), key_t{v}, "move of a move-assigned recursive");
    rec c{7};
    c.get() = v;
    c17::add(u, std::move(c), key_t{v}, "written through get()");
    rec d{v};
    rec &self = d;
    d = self;
    c17::add(u, std::move(d), key_t{v}, "self-assigned");
  }
  for (auto const &e : u)
    if (e.value.get() != e.key[0])
      vrt::fail("recursive:get:<int>", "get() does not expose the wrapped value");
  c17::check_type<c17::NE>("recursive", "<int>", u);

  // a genuinely recursive type
  struct node
  {
    int v;
    std::vector<fcppt::recursive<node>> kids;
    bool operator==(node const &o) const { return v == o.v && kids == o.kids; }
  };
  using rnode = fcppt::recursive<node>;
  c17::universe<rnode> w;
  for (int v = 0; v <= 1; ++v)
  {
    c17::add(w, rnode{node{v, {}}}, key_t{v}, "leaf");
    for (int k = 0; k <= 1; ++k)
    {
      c17::add(w, rnode{node{v, {rnode{node{k, {}}}}}}, key_t{v, 1, k}, "one child");
      node n{v, {}};
      n.kids.push_back(fcppt::make_recursive(node{k, {}}));
      rnode r{node{9, {}}};
      r = rnode{n};
      c17::add(w, std::move(r), key_t{v, 1, k}, "one child, assigned");
      for (int l = 0; l <= 1; ++l)
        c17::add(w, rnode{node{v, {rnode{node{k, {}}}, rnode{node{l, {}}}}}}, key_t{v, 2, k, l}, "two children");
    }
  }
  c17::check_type<c17::NE>("recursive", "<node>", w);
}

// ------------------------------------------------------------------ unique_ptr
void unique_ptrs()
{
  for (int v = -3; v <= 3; ++v)
  {
    if (!vrt::begin("unique_ptr<int>:transparent", v))
      continue;
    vrt::nontrivial(v != 0);
    vrt::maybe_sample();
    fcppt::unique_ptr<int> p{fcppt::make_unique_ptr<int>(v)};
    int *const raw = p.get_pointer();
    VRT_CHECK(raw != nullptr && *p == v && &*p == raw && p.operator->() == raw, "unique_ptr:expose",
              "make_unique_ptr(%d): *p=%d", v, *p);
    *p = v + 1;
    VRT_CHECK(*raw == v + 1, "unique_ptr:write_through", "write through *p not visible");
    fcppt::unique_ptr<int> q{std::move(p)};
    VRT_CHECK(q.get_pointer() == raw && *q == v + 1, "unique_ptr:move_ctor", "move changed the object");
    fcppt::unique_ptr<int> r{fcppt::make_unique_ptr<int>(99)};
    r = std::move(q);
    VRT_CHECK(r.get_pointer() == raw && *r == v + 1, "unique_ptr:move_assign", "move assignment changed the object");
    fcppt::unique_ptr<int const> c{fcppt::unique_ptr_to_const(std::move(r))};
    VRT_CHECK(c.get_pointer() == raw && *c == v + 1, "unique_ptr:to_const", "unique_ptr_to_const changed the object");
    int const *const rel = c.release_ownership();
    VRT_CHECK(rel == raw, "unique_ptr:release", "release_ownership returned another pointer");
    delete rel;
    fcppt::unique_ptr<derived> d{fcppt::make_unique_ptr<derived>(v, v + 1)};
    derived *const draw = d.get_pointer();
    fcppt::unique_ptr<base> b{fcppt::unique_ptr_to_base<base>(std::move(d))};
    VRT_CHECK(b.get_pointer() == static_cast<base *>(draw) && b->b == v, "unique_ptr:to_base",
              "unique_ptr_to_base changed the object");
    // ownership passes to a shared_ptr unchanged
    fcppt::unique_ptr<int> u2{fcppt::make_unique_ptr<int>(v)};
    int *const raw2 = u2.get_pointer();
    fcppt::shared_ptr<int> s{std::move(u2)};
    VRT_CHECK(s.get_pointer() == raw2 && *s == v && s.use_count() == 1, "shared_ptr:from_unique",
              "shared_ptr from unique_ptr changed the object");
  }
}

// ------------------------------------------------------------------ shared_ptr
void shared_ptrs()
{
  using sp = fcppt::shared_ptr<int>;
  struct pairobj
  {
    int first, second;
  };
  // owners; equal *values* in different objects
  std::vector<sp> owners;
  int const vals[4] = {0, 0, 1, 1};
  for (int v : vals)
    owners.push_back(fcppt::make_shared_ptr<int>(v));
  fcppt::shared_ptr<pairobj> const po{fcppt::make_shared_ptr<pairobj>(pairobj{0, 0})};
  // raw pointers ranked with std::less: the key is the rank, so key order = pointer order
  std::vector<int *> raws;
  for (auto const &o : owners)
    raws.push_back(o.get_pointer());
  raws.push_back(&po->first);
  raws.push_back(&po->second);
  std::vector<int *> sorted = raws;
  std::sort(sorted.begin(), sorted.end(), std::less<int *>{});
  auto rank = [&](int *p) { return static_cast<long>(std::find(sorted.begin(), sorted.end(), p) - sorted.begin()); };

  c17::universe<sp> u;
  for (std::size_t i = 0; i < owners.size(); ++i)
  {
    long const k = rank(raws[i]);
    c17::add(u, owners[i], key_t{k}, "copy of the owner");
    sp other{owners[(i + 1) % owners.size()]};
    other = owners[i];
    c17::add(u, other, key_t{k}, "copy-assigned over another owner");
    sp moved{sp{owners[i]}};
    c17::add(u, moved, key_t{k}, "moved");
    fcppt::weak_ptr<int> const w{owners[i]};
    fcppt::optional::object<sp> const locked{w.lock()};
    if (!locked.has_value())
      vrt::fail("harness:weak_lock", "lock() of a live weak_ptr gave nothing");
    else
      c17::add(u, locked.get_unsafe(), key_t{k}, "weak_ptr::lock");
    sp sw1{owners[i]}, sw2{owners[(i + 2) % owners.size()]};
    sw1.swap(sw2);
    c17::add(u, sw2, key_t{k}, "swapped in");
  }
  // aliasing constructor: shares ownership with po, points at a member; compares by the stored pointer
  c17::add(u, sp{po, &po->first}, key_t{rank(&po->first)}, "aliasing ctor (member first)");
  c17::add(u, sp{po, &po->second}, key_t{rank(&po->second)}, "aliasing ctor (member second)");
  c17::add(u, sp{po, &po->first}, key_t{rank(&po->first)}, "aliasing ctor (member first) again");
  for (auto const &e : u)
    if (e.value.get_pointer() != sorted[static_cast<std::size_t>(e.key[0])] || &*e.value != e.value.get_pointer() ||
        e.value.operator->() != e.value.get_pointer() || e.value.std_ptr().get() != e.value.get_pointer())
      vrt::fail("shared_ptr:expose:<int>", "get_pointer/operator*/operator->/std_ptr disagree for " + c17::show(e));
  c17::check_type<c17::NE | c17::LT | c17::HASH | c17::LEX>("shared_ptr", "<int>", u);
  c17::check_type<c17::HASH | c17::HASH_ONLY>("shared_ptr", "<int>/shared_ptr_hash", u, 0, 1, false, fcppt::shared_ptr_hash<sp>{});

  // mixed pointee types (the operators are templates over Type1, Type2): derived vs base
  if (vrt::begin("shared_ptr<derived>-vs-<base>", 0))
  {
    vrt::nontrivial(true);
    fcppt::shared_ptr<derived> const d1{fcppt::make_shared_ptr<derived>(0, 0)};
    fcppt::shared_ptr<derived> const d2{fcppt::make_shared_ptr<derived>(0, 0)};
    fcppt::shared_ptr<base> const b1{d1};
    fcppt::shared_ptr<base> const b2{d2};
    VRT_CHECK(b1.get_pointer() == static_cast<base *>(d1.get_pointer()) && b1.use_count() == 2, "shared_ptr:convert",
              "converting constructor changed the object");
    VRT_CHECK((d1 == b1) && (b1 == d1) && !(d1 != b1) && !(d1 == b2) && (d1 != b2) && !(b2 == d1), "shared_ptr:mixed_eq",
              "derived/base comparison wrong");
    bool const want = std::less<base *>{}(d1.get_pointer(), b2.get_pointer());
    VRT_CHECK((d1 < b2) == want && (b2 < d1) == !want && !(d1 < b1) && !(b1 < d1), "shared_ptr:mixed_lt",
              "derived/base ordering wrong");
  }
}

} // namespace

void register_wrappers()
{
  for (unsigned p = 0; p < 4; ++p)
  {
    vrt::shard("strong_typedef_ops<int>/" + std::to_string(p), [p] { strong_typedef_ops<int>(p, 4); });
    vrt::shard("strong_typedef_ops<i64>/" + std::to_string(p), [p] { strong_typedef_ops<long long>(p, 4); });
  }
  vrt::shard("strong_typedef_ops<unsigned>", [] {
    strong_typedef_ops<unsigned>(0, 1);
    strong_typedef_ops<unsigned long long>(0, 1);
    strong_typedef_string();
  });
  // partially ordered underlying types (both tiers): a<=b is not !(b<a)
  vrt::shard("strong_typedef_partial_order", [] {
    strong_typedef_float<float>("float");
    strong_typedef_float<double>("double");
    strong_typedef_partial_order();
  });
  vrt::shard("strong_typedef_values", [] { strong_typedef_values(); });
  vrt::shard("reference", [] { references(); });
  vrt::shard("recursive_unique_ptr", [] {
    recursives();
    unique_ptrs();
  });
  vrt::shard("shared_ptr", [] { shared_ptrs(); });
}

int main(int argc, char **argv)
{
  register_wrappers();
  register_sums();
  register_math();
  register_containers();
  register_elem_sums();
  register_elem_containers();
  register_order();
  register_records();
  return vrt::run(argc, argv);
}

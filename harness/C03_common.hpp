// C03 -- command-line parsing accounts for every argument and matches its reference.
// Engine P: a family of option-parser compositions (compile-time shapes, each with a run-time
// description) x all argument vectors up to a length over the shape's own token alphabet,
// against a reference interpreter of the documented left-to-right consumption semantics
// (DESIGN.md appendix B) that works on plain token lists.
#pragma once
#include <vrt.hpp>

#include <fcppt/args_vector.hpp>
#include <fcppt/make_cref.hpp>
#include <fcppt/string.hpp>
#include <fcppt/unit.hpp>
#include <fcppt/extract_from_string.hpp>
#include <fcppt/either/match.hpp>
#include <fcppt/optional/make.hpp>
#include <fcppt/optional/object_impl.hpp>
#include <fcppt/options/active_value.hpp>
#include <fcppt/options/apply.hpp>
#include <fcppt/options/argument.hpp>
#include <fcppt/options/base.hpp>
#include <fcppt/options/base_unique_ptr.hpp>
#include <fcppt/options/commands_impl.hpp>
#include <fcppt/options/default_help_switch.hpp>
#include <fcppt/options/default_value.hpp>
#include <fcppt/options/duplicate_names.hpp>
#include <fcppt/options/error.hpp>
#include <fcppt/options/exception.hpp>
#include <fcppt/options/flag.hpp>
#include <fcppt/options/help_text.hpp>
#include <fcppt/options/inactive_value.hpp>
#include <fcppt/options/left.hpp>
#include <fcppt/options/long_name.hpp>
#include <fcppt/options/make_active_value.hpp>
#include <fcppt/options/make_base.hpp>
#include <fcppt/options/make_commands.hpp>
#include <fcppt/options/make_default_value.hpp>
#include <fcppt/options/make_inactive_value.hpp>
#include <fcppt/options/make_many.hpp>
#include <fcppt/options/make_optional.hpp>
#include <fcppt/options/make_sub_command.hpp>
#include <fcppt/options/make_sum.hpp>
#include <fcppt/options/no_default_value.hpp>
#include <fcppt/options/option.hpp>
#include <fcppt/options/optional_help_text.hpp>
#include <fcppt/options/optional_short_name.hpp>
#include <fcppt/options/options_label.hpp>
#include <fcppt/options/parse.hpp>
#include <fcppt/options/parse_help.hpp>
#include <fcppt/options/result_of.hpp>
#include <fcppt/options/right.hpp>
#include <fcppt/options/short_name.hpp>
#include <fcppt/options/sub_command_label.hpp>
#include <fcppt/options/switch.hpp>
#include <fcppt/options/unit.hpp>
#include <fcppt/options/unit_switch.hpp>
#include <fcppt/record/element_to_label.hpp>
#include <fcppt/record/element_vector.hpp>
#include <fcppt/record/get.hpp>
#include <fcppt/record/label_name.hpp>
#include <fcppt/record/make_label.hpp>
#include <fcppt/record/object_impl.hpp>
#include <fcppt/variant/match.hpp>
#include <fcppt/variant/object_impl.hpp>
#include <fcppt/variant/apply.hpp>

#include <algorithm>
#include <istream>
#include <map>
#include <memory>
#include <optional>
#include <ostream>
#include <set>
#include <string>
#include <type_traits>
#include <vector>

namespace c03
{
// ------------------------------------------------------------------ an enum value type
enum class color
{
  red,
  green
};
inline std::istream &operator>>(std::istream &s, color &c)
{
  std::string w;
  s >> w;
  if (w == "red")
    c = color::red;
  else if (w == "green")
    c = color::green;
  else
    s.setstate(std::ios_base::failbit);
  return s;
}
inline std::ostream &operator<<(std::ostream &s, color c) { return s << (c == color::red ? "red" : "green"); }

// ------------------------------------------------------------------ rendering of real results
inline std::string clean_label(std::string n)
{
  // label names come from the type name of the tag: keep the last identifier
  std::size_t p = n.rfind("::");
  if (p != std::string::npos)
    n = n.substr(p + 2);
  for (char const *suffix : {"_tag", "_label"})
  {
    std::string s(suffix);
    if (n.size() > s.size() && n.compare(n.size() - s.size(), s.size(), s) == 0)
      n.resize(n.size() - s.size());
  }
  return n;
}

template <class T> std::string render(T const &v);

template <class T> struct renderer
{
  static std::string go(T const &v)
  {
    if constexpr (std::is_same_v<T, bool>)
      return v ? "true" : "false";
    else if constexpr (std::is_same_v<T, color>)
      return v == color::red ? "red" : "green";
    else if constexpr (std::is_arithmetic_v<T>)
      return std::to_string(v);
    else
      return T::unsupported_type_in_renderer();
  }
};
template <> struct renderer<std::string>
{
  static std::string go(std::string const &v) { return "'" + v + "'"; }
};
template <> struct renderer<fcppt::unit>
{
  static std::string go(fcppt::unit const &) { return "unit"; }
};
template <class T> struct renderer<fcppt::optional::object<T>>
{
  static std::string go(fcppt::optional::object<T> const &v) { return v.has_value() ? "some(" + render(v.get_unsafe()) + ")" : "none"; }
};
template <class T> struct renderer<std::vector<T>>
{
  static std::string go(std::vector<T> const &v)
  {
    std::string o = "[";
    for (std::size_t i = 0; i < v.size(); ++i)
      o += (i ? "," : "") + render(v[i]);
    return o + "]";
  }
};
template <class T> struct renderer<fcppt::options::left<T>>
{
  static std::string go(fcppt::options::left<T> const &v) { return "L" + render(v.get()); }
};
template <class T> struct renderer<fcppt::options::right<T>>
{
  static std::string go(fcppt::options::right<T> const &v) { return "R" + render(v.get()); }
};
template <class... Ts> struct renderer<fcppt::variant::object<Ts...>>
{
  static std::string go(fcppt::variant::object<Ts...> const &v)
  {
    return fcppt::variant::apply([](auto const &x) { return render(x); }, v);
  }
};
template <class... Es> struct renderer<fcppt::record::object<Es...>>
{
  static std::string go(fcppt::record::object<Es...> const &r)
  {
    std::map<std::string, std::string> m;
    (m.emplace(clean_label(fcppt::record::label_name<fcppt::record::element_to_label<Es>>()),
               render(fcppt::record::get<fcppt::record::element_to_label<Es>>(r))),
     ...);
    std::string o = "{";
    bool first = true;
    for (auto const &kv : m)
    {
      o += (first ? "" : ",") + kv.first + "=" + kv.second;
      first = false;
    }
    return o + "}";
  }
};
template <class T> std::string render(T const &v) { return renderer<T>::go(v); }

// ------------------------------------------------------------------ run-time description of a shape
enum class vt
{
  int_,
  unsigned_,
  string_,
  color_,
  bool_
};

struct shape;
using shape_ptr = std::shared_ptr<shape>;

struct shape
{
  enum kind
  {
    ARG,
    FLAG, // switch or flag<T>: active/inactive rendered values
    OPTION,
    UNIT,
    UNIT_SWITCH,
    OPTIONAL,
    MANY,
    PRODUCT,
    SUM,
    COMMANDS
  } k = UNIT;
  std::string label;
  std::string long_name;
  std::optional<std::string> short_name;
  vt type = vt::int_;
  std::optional<std::string> default_rendered; // option
  std::string active_rendered, inactive_rendered; // flag
  std::vector<shape_ptr> c;                       // children (COMMANDS: c[0] = options parser)
  std::vector<std::pair<std::string, std::string>> subs; // COMMANDS: (command name, tag label) for c[1..]
};

inline shape_ptr S_arg(std::string label, std::string name, vt t)
{
  auto s = std::make_shared<shape>();
  s->k = shape::ARG;
  s->label = std::move(label);
  s->long_name = std::move(name);
  s->type = t;
  return s;
}
inline shape_ptr S_flag(std::string label, std::optional<std::string> sn, std::string ln, std::string act, std::string inact)
{
  auto s = std::make_shared<shape>();
  s->k = shape::FLAG;
  s->label = std::move(label);
  s->short_name = std::move(sn);
  s->long_name = std::move(ln);
  s->active_rendered = std::move(act);
  s->inactive_rendered = std::move(inact);
  return s;
}
inline shape_ptr S_switch(std::string label, std::optional<std::string> sn, std::string ln) { return S_flag(std::move(label), std::move(sn), std::move(ln), "true", "false"); }
inline shape_ptr S_option(std::string label, std::optional<std::string> sn, std::string ln, vt t, std::optional<std::string> def)
{
  auto s = std::make_shared<shape>();
  s->k = shape::OPTION;
  s->label = std::move(label);
  s->short_name = std::move(sn);
  s->long_name = std::move(ln);
  s->type = t;
  s->default_rendered = std::move(def);
  return s;
}
inline shape_ptr S_unit(std::string label)
{
  auto s = std::make_shared<shape>();
  s->k = shape::UNIT;
  s->label = std::move(label);
  return s;
}
inline shape_ptr S_unit_switch(std::string label, std::optional<std::string> sn, std::string ln)
{
  auto s = std::make_shared<shape>();
  s->k = shape::UNIT_SWITCH;
  s->label = std::move(label);
  s->short_name = std::move(sn);
  s->long_name = std::move(ln);
  return s;
}
inline shape_ptr S_un(shape::kind k, shape_ptr a)
{
  auto s = std::make_shared<shape>();
  s->k = k;
  s->c = {std::move(a)};
  return s;
}
inline shape_ptr S_optional(shape_ptr a) { return S_un(shape::OPTIONAL, std::move(a)); }
inline shape_ptr S_many(shape_ptr a) { return S_un(shape::MANY, std::move(a)); }
inline shape_ptr S_product(std::vector<shape_ptr> cs)
{
  // apply(a,b,c) = product(product(a,b),c): left to right
  shape_ptr acc = cs[0];
  for (std::size_t i = 1; i < cs.size(); ++i)
  {
    auto s = std::make_shared<shape>();
    s->k = shape::PRODUCT;
    s->c = {acc, cs[i]};
    acc = s;
  }
  return acc;
}
inline shape_ptr S_sum(std::string label, shape_ptr l, shape_ptr r)
{
  auto s = std::make_shared<shape>();
  s->k = shape::SUM;
  s->label = std::move(label);
  s->c = {std::move(l), std::move(r)};
  return s;
}
inline shape_ptr S_commands(shape_ptr options, std::vector<std::tuple<std::string, std::string, shape_ptr>> subs)
{
  auto s = std::make_shared<shape>();
  s->k = shape::COMMANDS;
  s->c.push_back(std::move(options));
  for (auto &t : subs)
  {
    s->subs.emplace_back(std::get<0>(t), std::get<1>(t));
    s->c.push_back(std::get<2>(t));
  }
  return s;
}

// ------------------------------------------------------------------ reference interpreter
using tokens = std::vector<std::string>;
using record = std::map<std::string, std::string>;

inline std::string render_record(record const &r)
{
  std::string o = "{";
  bool first = true;
  for (auto const &kv : r)
  {
    o += (first ? "" : ",") + kv.first + "=" + kv.second;
    first = false;
  }
  return o + "}";
}

struct opt_name
{
  std::string name;
  bool is_short;
  bool operator<(opt_name const &o) const { return name != o.name ? name < o.name : is_short < o.is_short; }
};
using opt_names = std::set<opt_name>;

inline void collect_option_names(shape const &s, opt_names &out)
{
  switch (s.k)
  {
  case shape::OPTION:
    out.insert(opt_name{s.long_name, false});
    if (s.short_name)
      out.insert(opt_name{*s.short_name, true});
    break;
  case shape::OPTIONAL:
  case shape::MANY:
  case shape::PRODUCT:
  case shape::SUM:
    for (auto const &c : s.c)
      collect_option_names(*c, out);
    break;
  default: break; // commands contribute no names of their own
  }
}

// conversion of a token to a value of type t: rendered value or nothing.  Uses
// fcppt::extract_from_string itself (appendix B: trusted here, checked under C15/C01), so that
// the reference does not re-specify iostream number parsing.
template <class T> std::optional<std::string> convert_as(std::string const &tok)
{
  fcppt::optional::object<T> const r{fcppt::extract_from_string<T>(tok)};
  return r.has_value() ? std::optional<std::string>(render(r.get_unsafe())) : std::nullopt;
}
inline std::optional<std::string> convert(std::string const &tok, vt t)
{
  switch (t)
  {
  case vt::string_: return convert_as<std::string>(tok);
  case vt::int_: return convert_as<int>(tok);
  case vt::unsigned_: return convert_as<unsigned>(tok);
  case vt::color_: return convert_as<color>(tok);
  case vt::bool_: return std::nullopt;
  }
  return std::nullopt;
}

struct outcome
{
  enum
  {
    OK,
    MISSING,
    OTHER
  } st = OK;
  record rec;
  tokens rest;
  std::vector<std::string> consumed; // consumption log (harness self-check of the accounting invariant)
};

struct ref_interp
{
  static bool is_flag(std::string const &t) { return !t.empty() && t[0] == '-'; }
  static std::pair<bool, std::string> flag_parts(std::string const &t) // (is_short, name)
  {
    if (t.size() >= 2 && t[1] == '-')
      return {false, t.substr(2)};
    return {true, t.substr(1)};
  }
  static int next_arg(tokens const &s, opt_names const &names)
  {
    std::size_t cur = 0;
    while (cur < s.size())
    {
      if (is_flag(s[cur]))
      {
        auto [sh, nm] = flag_parts(s[cur]);
        ++cur;
        if (cur < s.size() && names.count(opt_name{nm, sh}))
          ++cur;
        continue;
      }
      return static_cast<int>(cur);
    }
    return -1;
  }
  static bool take_flag(tokens &s, std::string const &full)
  {
    auto it = std::find(s.begin(), s.end(), full);
    if (it == s.end())
      return false;
    s.erase(it);
    return true;
  }
  // 0 absent, 1 value taken, 2 name is the last token
  static int take_option(tokens &s, std::string const &full, std::string &value)
  {
    auto it = std::find(s.begin(), s.end(), full);
    if (it == s.end())
      return 0;
    if (std::next(it) == s.end())
      return 2;
    value = *std::next(it);
    s.erase(it, it + 2);
    return 1;
  }

  static outcome fail(int st)
  {
    outcome o;
    o.st = st == 1 ? outcome::MISSING : outcome::OTHER;
    return o;
  }

  static outcome run(shape const &p, tokens s, opt_names const &ctx)
  {
    outcome o;
    switch (p.k)
    {
    case shape::ARG:
    {
      int const pos = next_arg(s, ctx);
      if (pos < 0)
        return fail(1);
      std::string const tok = s[static_cast<std::size_t>(pos)];
      s.erase(s.begin() + pos);
      auto v = convert(tok, p.type);
      if (!v)
        return fail(2);
      o.rec[p.label] = *v;
      o.rest = s;
      o.consumed = {tok};
      return o;
    }
    case shape::FLAG:
    case shape::UNIT_SWITCH:
    {
      bool const lf = take_flag(s, "--" + p.long_name);
      bool sf = false;
      if (p.short_name)
        sf = take_flag(s, "-" + *p.short_name);
      if (lf && sf)
        return fail(2);
      bool const found = lf || sf;
      if (p.k == shape::UNIT_SWITCH)
      {
        if (!found)
          return fail(1);
        o.rec[p.label] = "unit";
      }
      else
        o.rec[p.label] = found ? p.active_rendered : p.inactive_rendered;
      if (lf)
        o.consumed.push_back("--" + p.long_name);
      if (sf)
        o.consumed.push_back("-" + *p.short_name);
      o.rest = s;
      return o;
    }
    case shape::OPTION:
    {
      std::string lv, sv;
      int const lr = take_option(s, "--" + p.long_name, lv);
      int sr = 0;
      if (p.short_name)
        sr = take_option(s, "-" + *p.short_name, sv);
      if (lr == 2 || sr == 2)
        return fail(2);
      if (lr == 1 && sr == 1)
        return fail(2);
      if (lr == 0 && sr == 0)
      {
        if (!p.default_rendered)
          return fail(1);
        o.rec[p.label] = *p.default_rendered;
        o.rest = s;
        return o;
      }
      std::string const &val = lr == 1 ? lv : sv;
      auto v = convert(val, p.type);
      if (!v)
        return fail(2);
      o.rec[p.label] = *v;
      o.rest = s;
      o.consumed = {lr == 1 ? "--" + p.long_name : "-" + *p.short_name, val};
      return o;
    }
    case shape::UNIT:
      if (!s.empty())
        return fail(2);
      o.rec[p.label] = "unit";
      o.rest = s;
      return o;
    case shape::PRODUCT:
    {
      outcome l = run(*p.c[0], s, ctx);
      if (l.st != outcome::OK)
        return l;
      outcome r = run(*p.c[1], l.rest, ctx);
      if (r.st != outcome::OK)
        return r;
      o.rec = l.rec;
      for (auto const &kv : r.rec)
        o.rec[kv.first] = kv.second;
      o.rest = r.rest;
      o.consumed = l.consumed;
      o.consumed.insert(o.consumed.end(), r.consumed.begin(), r.consumed.end());
      return o;
    }
    case shape::SUM:
    {
      outcome l = run(*p.c[0], s, ctx);
      if (l.st == outcome::OK)
      {
        o.rec[p.label] = "L" + render_record(l.rec);
        o.rest = l.rest;
        o.consumed = l.consumed;
        return o;
      }
      outcome r = run(*p.c[1], s, ctx);
      if (r.st == outcome::OK)
      {
        o.rec[p.label] = "R" + render_record(r.rec);
        o.rest = r.rest;
        o.consumed = r.consumed;
        return o;
      }
      return fail(l.st == outcome::MISSING && r.st == outcome::MISSING ? 1 : 2);
    }
    case shape::OPTIONAL:
    {
      outcome i = run(*p.c[0], s, ctx);
      if (i.st == outcome::OTHER)
        return i;
      if (i.st == outcome::MISSING)
      {
        // all labels of the inner parser are present with value none; continue from the ORIGINAL tokens
        std::vector<std::string> labels;
        collect_labels(*p.c[0], labels);
        for (auto const &l : labels)
          o.rec[l] = "none";
        o.rest = s;
        return o;
      }
      for (auto const &kv : i.rec)
        o.rec[kv.first] = "some(" + kv.second + ")";
      o.rest = i.rest;
      o.consumed = i.consumed;
      return o;
    }
    case shape::MANY:
    {
      std::vector<std::string> labels;
      collect_labels(*p.c[0], labels);
      std::map<std::string, std::vector<std::string>> acc;
      for (auto const &l : labels)
        acc[l];
      tokens cur = s;
      for (int guard = 0; guard < 64; ++guard)
      {
        outcome i = run(*p.c[0], cur, ctx);
        if (i.st == outcome::OTHER)
          return i;
        if (i.st == outcome::MISSING)
          break; // continue from the tokens BEFORE the failed iteration
        for (auto const &kv : i.rec)
          acc[kv.first].push_back(kv.second);
        o.consumed.insert(o.consumed.end(), i.consumed.begin(), i.consumed.end());
        cur = i.rest;
      }
      for (auto const &kv : acc)
      {
        std::string v = "[";
        for (std::size_t n = 0; n < kv.second.size(); ++n)
          v += (n ? "," : "") + kv.second[n];
        o.rec[kv.first] = v + "]";
      }
      o.rest = cur;
      return o;
    }
    case shape::COMMANDS:
    {
      opt_names onames;
      collect_option_names(*p.c[0], onames);
      int const pos = next_arg(s, onames);
      if (pos < 0)
        return fail(1);
      std::string const name = s[static_cast<std::size_t>(pos)];
      tokens first(s.begin(), s.begin() + pos), rest(s.begin() + pos + 1, s.end());
      int sub = -1;
      for (std::size_t i = 0; i < p.subs.size(); ++i)
        if (p.subs[i].first == name)
        {
          sub = static_cast<int>(i);
          break;
        }
      if (sub < 0)
        return fail(2);
      outcome oo = run(*p.c[0], first, onames);
      if (oo.st != outcome::OK || !oo.rest.empty())
        return fail(2);
      shape const &sp = *p.c[static_cast<std::size_t>(sub) + 1];
      opt_names snames;
      collect_option_names(sp, snames);
      outcome so = run(sp, rest, snames);
      if (so.st != outcome::OK)
        return so;
      o.rec["options"] = render_record(oo.rec);
      record tagged;
      tagged[p.subs[static_cast<std::size_t>(sub)].second] = render_record(so.rec);
      o.rec["sub_command"] = render_record(tagged);
      o.rest = so.rest;
      o.consumed = oo.consumed;
      o.consumed.push_back(name);
      o.consumed.insert(o.consumed.end(), so.consumed.begin(), so.consumed.end());
      return o;
    }
    }
    return fail(2);
  }

  static void collect_labels(shape const &p, std::vector<std::string> &out)
  {
    switch (p.k)
    {
    case shape::ARG:
    case shape::FLAG:
    case shape::OPTION:
    case shape::UNIT:
    case shape::UNIT_SWITCH:
    case shape::SUM: out.push_back(p.label); break;
    case shape::COMMANDS:
      out.push_back("options");
      out.push_back("sub_command");
      break;
    default:
      for (auto const &c : p.c)
        collect_labels(*c, out);
    }
  }

  // fcppt::options::parse: the parser must consume everything
  static std::optional<std::string> parse(shape const &p, tokens const &args, bool &accounting_ok)
  {
    opt_names ctx;
    collect_option_names(p, ctx);
    outcome o = run(p, args, ctx);
    accounting_ok = true;
    if (o.st != outcome::OK || !o.rest.empty())
      return std::nullopt;
    // accounting self-check: the consumed tokens are exactly the argument vector (as multisets)
    tokens a = args, b = o.consumed;
    std::sort(a.begin(), a.end());
    std::sort(b.begin(), b.end());
    accounting_ok = a == b;
    return render_record(o.rec);
  }
};

// ------------------------------------------------------------------ driver for one shape
inline void enumerate_vectors(std::vector<std::string> const &alphabet, int maxlen, std::function<void(tokens const &)> const &f)
{
  tokens cur;
  std::function<void(int)> rec = [&](int depth) {
    f(cur);
    if (depth == maxlen)
      return;
    for (auto const &t : alphabet)
    {
      cur.push_back(t);
      rec(depth + 1);
      cur.pop_back();
    }
  };
  rec(0);
}

inline std::string show_tokens(tokens const &t)
{
  std::string o = "[";
  for (std::size_t i = 0; i < t.size(); ++i)
    o += (i ? " " : "") + ("\"" + t[i] + "\"");
  return o + "]";
}

template <class Parser> void run_shape(char const *name, Parser const &parser, shape_ptr const &desc, std::vector<std::string> const &alphabet, int maxlen)
{
  static std::string tag;
  tag = std::string("options::parse<") + name + ">";
  enumerate_vectors(alphabet, maxlen, [&](tokens const &args) {
    if (!vrt::begin_text(tag.c_str(), std::string("shape ") + name + " args " + show_tokens(args)))
      return;
    bool acc = true;
    std::optional<std::string> const want = ref_interp::parse(*desc, args, acc);
    if (!acc)
      vrt::fail("harness:reference_accounting", "the reference interpreter consumed a different multiset of tokens than the argument vector");
    fcppt::args_vector av(args.begin(), args.end());
    auto const res = fcppt::options::parse(parser, av);
    std::optional<std::string> const got = fcppt::either::match(
        res, [](fcppt::options::error const &) { return std::optional<std::string>(); },
        [](auto const &r) { return std::optional<std::string>(render(r)); });
    vrt::nontrivial(want.has_value());
    vrt::maybe_sample();
    if (got.has_value() != want.has_value())
      vrt::fail(std::string(got.has_value() ? "accepts_but_reference_rejects:" : "rejects_but_reference_accepts:") + name,
                "real: " + (got ? *got : std::string("error")) + "  reference: " + (want ? *want : std::string("error")));
    else if (got && *got != *want)
      vrt::fail(std::string("record_differs:") + name, "real: " + *got + "  reference: " + *want);
  });
}

// ------------------------------------------------------------------ parser factories
namespace o = fcppt::options;
inline o::optional_short_name sn(char const *s) { return s ? o::optional_short_name{o::short_name{s}} : o::optional_short_name{}; }
inline std::optional<std::string> osn(char const *s) { return s ? std::optional<std::string>(s) : std::nullopt; }
template <class L, class T> o::argument<L, T> arg(char const *n) { return o::argument<L, T>{o::long_name{n}, o::optional_help_text{}}; }
template <class L> o::switch_<L> sw(char const *s, char const *l) { return o::switch_<L>{sn(s), o::long_name{l}, o::optional_help_text{}}; }
template <class L, class T> o::flag<L, T> fl(char const *s, char const *l, T a, T i)
{
  return o::flag<L, T>{sn(s), o::long_name{l}, o::make_active_value(std::move(a)), o::make_inactive_value(std::move(i)), o::optional_help_text{}};
}
template <class L, class T> o::option<L, T> op(char const *s, char const *l)
{
  return o::option<L, T>{sn(s), o::long_name{l}, o::no_default_value<T>(), o::optional_help_text{}};
}
template <class L, class T> o::option<L, T> opd(char const *s, char const *l, T def)
{
  return o::option<L, T>{sn(s), o::long_name{l}, o::make_default_value(fcppt::optional::make(std::move(def))), o::optional_help_text{}};
}
template <class L> o::unit_switch<L> usw(char const *s, char const *l) { return o::unit_switch<L>{sn(s), o::long_name{l}}; }

// common token alphabet pieces
inline std::vector<std::string> alpha(std::initializer_list<char const *> own)
{
  std::vector<std::string> a(own.begin(), own.end());
  for (char const *t : {"--zz", "-", "--", "-1", "7", "x"})
    a.push_back(t);
  return a;
}

// second pass per shape: the shape's own flag/option spellings and tokens that properly extend them or change their
// dashes ("--flagx", "-fx", "-flag", "--f", "--fla"): all of these are foreign flags for the documented semantics
inline std::vector<std::string> extended_names(std::vector<std::string> const &alphabet)
{
  std::vector<std::string> own, out;
  for (auto const &t : alphabet)
    if (t.size() >= 2 && t[0] == '-' && t != "--" && t != "--zz" && t != "-1")
      own.push_back(t);
  auto add = [&out](std::string const &t) {
    if (std::find(out.begin(), out.end(), t) == out.end())
      out.push_back(t);
  };
  for (auto const &t : own)
  {
    add(t);
    add(t + "x");
    if (t.size() > 3 && t[1] == '-')
    {
      add(t.substr(1));               // --flag -> -flag
      add(t.substr(0, t.size() - 1)); // --flag -> --fla
    }
    else if (t.size() == 2)
      add("-" + t); // -f -> --f
  }
  add("7");
  add("x");
  add(""); // the empty string is an argument like any other (a word; never a flag, never convertible to a number)
  return out;
}

inline std::vector<std::string> alpha_from(std::vector<std::string> own)
{
  for (char const *t : {"--zz", "-", "--", "-1", "7", "x"})
    own.push_back(t);
  return own;
}

FCPPT_RECORD_MAKE_LABEL(la);
FCPPT_RECORD_MAKE_LABEL(lb);
FCPPT_RECORD_MAKE_LABEL(lc);
FCPPT_RECORD_MAKE_LABEL(ld);
FCPPT_RECORD_MAKE_LABEL(ls);
FCPPT_RECORD_MAKE_LABEL(tx);
FCPPT_RECORD_MAKE_LABEL(ty);

int maxlen();
void register_a();
void register_b();
void register_c();
void register_ctor();
} // namespace c03

// C17 (operand order): every strong_typedef operator must compute exactly  left.get() op right.get()  --
// with this operand order and this operator -- also when the underlying
// operation is not commutative.  Underlying types:
//   ord  : user type whose every arithmetic/bitwise operator encodes (operator, left operand, right operand) in
//          the result; < and <= are independent arbitrary asymmetric relations (see `rel`).  Invocation counts
//          of the underlying operators are recorded as information only (not promised anywhere)
//   mat  : fcppt's own 2x2 int matrix (non-commutative product), entries {0,1,2}, all 81^2 pairs
//   perm : permutations of {0,1,2} under composition, all 36 pairs
// All value categories the operators accept (lvalue, const lvalue, rvalue operands) are exercised.
#include <C17_common.hpp>

#include <fcppt/strong_typedef.hpp>
#include <fcppt/strong_typedef_arithmetic.hpp>
#include <fcppt/strong_typedef_assignment.hpp>
#include <fcppt/strong_typedef_bitwise.hpp>
#include <fcppt/strong_typedef_comparison.hpp>
#include <fcppt/math/matrix/arithmetic.hpp>
#include <fcppt/math/matrix/comparison.hpp>
#include <fcppt/math/matrix/object.hpp>
#include <fcppt/math/matrix/row.hpp>
#include <fcppt/math/matrix/static.hpp>

#include <string>
#include <utility>
#include <vector>

namespace
{
enum opcode
{
  PLUS,
  MINUS,
  TIMES,
  NEG,
  INC,
  DEC,
  AND,
  OR,
  XOR,
  NOT,
  PLUS_A,
  MINUS_A,
  TIMES_A,
  AND_A,
  OR_A,
  XOR_A,
  LT,
  LE,
  GT,
  GE,
  EQ,
  NE,
  NOPS
};
char const *const opname[NOPS] = {"plus",        "minus",       "times",      "unary_minus", "pre_inc",    "pre_dec",
                                  "bit_and",     "bit_or",      "bit_xor",    "bit_not",     "plus_assign", "minus_assign",
                                  "times_assign", "and_assign", "or_assign",  "xor_assign",  "less",       "less_equal",
                                  "greater",     "greater_equal", "equal",    "not_equal"};
int calls[NOPS];
void reset_calls()
{
  for (int &c : calls)
    c = 0;
}
// exactly one invocation of operator `code`, none of any other
bool only(int code)
{
  for (int k = 0; k < NOPS; ++k)
    if (calls[k] != (k == code ? 1 : 0))
      return false;
  return true;
}
// Class (C) in the over-assertion audit: neither the property nor the documentation promises *how often*
// (or through which of the underlying type's equivalent operators) a wrapper calls the underlying type; only
// the resulting value is promised.  Recorded as an information counter, never a verdict.
void note_calls(int code)
{
  if (!only(code))
    vrt::count(std::string("info:strong_typedef<ord>:") + opname[code] + ":invocations");
}
std::string show_calls()
{
  std::string r;
  for (int k = 0; k < NOPS; ++k)
    if (calls[k])
      r += std::string(opname[k]) + "x" + std::to_string(calls[k]) + " ";
  return r.empty() ? "none" : r;
}

constexpr int dom = 5;  // operand values 0..4
constexpr int unary = 9; // marks "no right operand"
int enc(int code, int a, int b) { return (code + 1) * 1000 + a * 10 + b; } // injective in (code, a, b)
// Comparison tables of ord.  Only identities that hold for every sane comparable type are built in, so that
// a behaviour-preserving refactoring of the wrappers (e.g. != written as !(==), > as swapped <) is not
// flagged:  a>b <=> b<a,  a>=b <=> b<=a,  == symmetric,  != is !(==).  What is NOT assumed (it is false for
// partial orders such as floats with NaN or sets under inclusion): a<=b <=> !(b<a); so < and <= are two
// independent arbitrary asymmetric tables.  Property text: the operators "give exactly the wrapped result
// of the same operator on the underlying values".
bool table(int which, int a, int b)
{
  return (((static_cast<unsigned>(a * 31 + b * 17 + which * 101) * 2654435761U) >> 13U) & 1U) != 0U;
}
bool rel(int code, int a, int b)
{
  switch (code)
  {
  case LT: return table(LT, a, b);
  case GT: return table(LT, b, a);
  case LE: return table(LE, a, b);
  case GE: return table(LE, b, a);
  case EQ: return table(EQ, a < b ? a : b, a < b ? b : a);
  default: return !table(EQ, a < b ? a : b, a < b ? b : a); // NE
  }
}

struct ord
{
  int v;
};
#define ORD_BIN(op, code)                                                                                              \
  ord operator op(ord const &a, ord const &b)                                                                          \
  {                                                                                                                    \
    ++calls[code];                                                                                                     \
    return ord{enc(code, a.v, b.v)};                                                                                   \
  }
ORD_BIN(+, PLUS) ORD_BIN(-, MINUS) ORD_BIN(*, TIMES) ORD_BIN(&, AND) ORD_BIN(|, OR) ORD_BIN(^, XOR)
#undef ORD_BIN
#define ORD_UN(op, code)                                                                                               \
  ord operator op(ord const &a)                                                                                        \
  {                                                                                                                    \
    ++calls[code];                                                                                                     \
    return ord{enc(code, a.v, unary)};                                                                                 \
  }
ORD_UN(-, NEG) ORD_UN(~, NOT)
#undef ORD_UN
#define ORD_STEP(op, code)                                                                                             \
  ord &operator op(ord &a)                                                                                             \
  {                                                                                                                    \
    ++calls[code];                                                                                                     \
    a.v = enc(code, a.v, unary);                                                                                       \
    return a;                                                                                                          \
  }
ORD_STEP(++, INC) ORD_STEP(--, DEC)
#undef ORD_STEP
// postfix forms, consistent with the prefix forms (a wrapper may forward x++ to either)
ord operator++(ord &a, int)
{
  ord const old{a};
  ++a;
  return old;
}
ord operator--(ord &a, int)
{
  ord const old{a};
  --a;
  return old;
}
#define ORD_ASSIGN(op, code)                                                                                           \
  ord &operator op(ord &a, ord const &b)                                                                               \
  {                                                                                                                    \
    ++calls[code];                                                                                                     \
    a.v = enc(code, a.v, b.v);                                                                                         \
    return a;                                                                                                          \
  }
ORD_ASSIGN(+=, PLUS_A) ORD_ASSIGN(-=, MINUS_A) ORD_ASSIGN(*=, TIMES_A) ORD_ASSIGN(&=, AND_A) ORD_ASSIGN(|=, OR_A)
ORD_ASSIGN(^=, XOR_A)
#undef ORD_ASSIGN
#define ORD_CMP(op, code)                                                                                              \
  bool operator op(ord const &a, ord const &b)                                                                         \
  {                                                                                                                    \
    ++calls[code];                                                                                                     \
    return rel(code, a.v, b.v);                                                                                        \
  }
ORD_CMP(<, LT) ORD_CMP(<=, LE) ORD_CMP(>, GT) ORD_CMP(>=, GE) ORD_CMP(==, EQ) ORD_CMP(!=, NE)
#undef ORD_CMP

struct ord_tag
{
};
using st = fcppt::strong_typedef<ord, ord_tag>;

void strong_typedef_ord()
{
  static std::string const fam = "strong_typedef<ord>";
  // sanity of the reference: the relations really are asymmetric and differ between operators
  {
    bool asym = false, le_not_derived = false;
    for (int a = 0; a < dom; ++a)
      for (int b = 0; b < dom; ++b)
      {
        if (rel(LT, a, b) != rel(LT, b, a) && rel(LE, a, b) != rel(LE, b, a))
          asym = true;
        if (rel(LE, a, b) == rel(LT, b, a)) // a<=b is not !(b<a)
          le_not_derived = true;
        if (rel(GT, a, b) != rel(LT, b, a) || rel(GE, a, b) != rel(LE, b, a) || rel(EQ, a, b) != rel(EQ, b, a) ||
            rel(NE, a, b) == rel(EQ, a, b))
          asym = false, a = b = dom; // the sane identities must hold
      }
    if (!asym || !le_not_derived)
      vrt::fail("harness:ord_relations", "the comparison tables of ord are not asymmetric");
  }
  for (int a = 0; a < dom; ++a)
  {
    if (vrt::begin("strong_typedef<ord>:unary", a))
    {
      vrt::nontrivial(true);
      vrt::maybe_sample();
      st const cx{ord{a}};
      st x{ord{a}};
#define CHK_UN(expr, code, cat)                                                                                        \
  do                                                                                                                   \
  {                                                                                                                    \
    reset_calls();                                                                                                     \
    st const r_ = (expr);                                                                                              \
    VRT_CHECK(r_.get().v == enc(code, a, unary), fam + ":" + opname[code],                                             \
              "%s operand %d (%s): result encodes %d, expected %d", opname[code], a, cat, r_.get().v, enc(code, a, unary)); \
    note_calls(code);                                                             \
  } while (0)
      CHK_UN(-cx, NEG, "const lvalue");
      CHK_UN(-x, NEG, "lvalue");
      CHK_UN(-st{ord{a}}, NEG, "rvalue");
      CHK_UN(~cx, NOT, "const lvalue");
      CHK_UN(~x, NOT, "lvalue");
      CHK_UN(~st{ord{a}}, NOT, "rvalue");
#undef CHK_UN
      VRT_CHECK(x.get().v == a && cx.get().v == a, fam + ":unary_modifies_operand", "unary operator changed its operand %d", a);
      {
        st y{ord{a}};
        reset_calls();
        st &r = ++y;
        VRT_CHECK(&r == &y && y.get().v == enc(INC, a, unary) , fam + ":pre_inc",
                  "++st(%d): value %d expected %d, calls: %s", a, y.get().v, enc(INC, a, unary), show_calls().c_str());
        note_calls(INC);
      }
      {
        st y{ord{a}};
        reset_calls();
        st &r = --y;
        VRT_CHECK(&r == &y && y.get().v == enc(DEC, a, unary) , fam + ":pre_dec",
                  "--st(%d): value %d expected %d, calls: %s", a, y.get().v, enc(DEC, a, unary), show_calls().c_str());
        note_calls(DEC);
      }
      {
        st y{ord{a}};
        reset_calls();
        st const old = y++;
        VRT_CHECK(old.get().v == a && y.get().v == enc(INC, a, unary) , fam + ":post_inc",
                  "st(%d)++: returned %d, left %d expected %d, calls: %s", a, old.get().v, y.get().v, enc(INC, a, unary),
                  show_calls().c_str());
        note_calls(INC);
      }
      {
        st y{ord{a}};
        reset_calls();
        st const old = y--;
        VRT_CHECK(old.get().v == a && y.get().v == enc(DEC, a, unary) , fam + ":post_dec",
                  "st(%d)--: returned %d, left %d expected %d, calls: %s", a, old.get().v, y.get().v, enc(DEC, a, unary),
                  show_calls().c_str());
        note_calls(DEC);
      }
    }
    for (int b = 0; b < dom; ++b)
    {
      if (!vrt::begin("strong_typedef<ord>:binary", a, b))
        continue;
      vrt::nontrivial(a != b); // swapped operands are visible
      vrt::maybe_sample();
      st x{ord{a}}, y{ord{b}};
      st const cx{ord{a}}, cy{ord{b}};
#define CHK_BIN1(l, r, op, code, cat)                                                                                  \
  do                                                                                                                   \
  {                                                                                                                    \
    reset_calls();                                                                                                     \
    st const r_ = (l)op(r);                                                                                            \
    VRT_CHECK(r_.get().v == enc(code, a, b), fam + ":" + opname[code],                                                 \
              "st(%d) " #op " st(%d) (%s): result encodes %d, expected %d (= left " #op " right)", a, b, cat, r_.get().v, \
              enc(code, a, b));                                                                                        \
    note_calls(code);                                                                           \
  } while (0)
#define CHK_BIN(op, code)                                                                                              \
  CHK_BIN1(x, y, op, code, "lvalue,lvalue");                                                                           \
  CHK_BIN1(cx, cy, op, code, "const lvalue,const lvalue");                                                             \
  CHK_BIN1(st{ord{a}}, st{ord{b}}, op, code, "rvalue,rvalue");                                                         \
  CHK_BIN1(cx, st{ord{b}}, op, code, "const lvalue,rvalue");                                                           \
  CHK_BIN1(st{ord{a}}, y, op, code, "rvalue,lvalue")
      CHK_BIN(+, PLUS);
      CHK_BIN(-, MINUS);
      CHK_BIN(*, TIMES);
      CHK_BIN(&, AND);
      CHK_BIN(|, OR);
      CHK_BIN(^, XOR);
#undef CHK_BIN
#undef CHK_BIN1
#define CHK_CMP1(l, r, op, code, cat)                                                                                  \
  do                                                                                                                   \
  {                                                                                                                    \
    reset_calls();                                                                                                     \
    bool const r_ = (l)op(r);                                                                                          \
    VRT_CHECK(r_ == rel(code, a, b), fam + ":" + opname[code], "st(%d) " #op " st(%d) (%s) gave %d, left " #op " right is %d", a, \
              b, cat, (int)r_, (int)rel(code, a, b));                                                                  \
    note_calls(code);                                                                           \
  } while (0)
#define CHK_CMP(op, code)                                                                                              \
  CHK_CMP1(x, y, op, code, "lvalue,lvalue");                                                                           \
  CHK_CMP1(cx, cy, op, code, "const lvalue,const lvalue");                                                             \
  CHK_CMP1(st{ord{a}}, st{ord{b}}, op, code, "rvalue,rvalue");                                                         \
  CHK_CMP1(cx, st{ord{b}}, op, code, "const lvalue,rvalue");                                                           \
  CHK_CMP1(st{ord{a}}, y, op, code, "rvalue,lvalue")
      CHK_CMP(<, LT);
      CHK_CMP(<=, LE);
      CHK_CMP(>, GT);
      CHK_CMP(>=, GE);
      CHK_CMP(==, EQ);
      CHK_CMP(!=, NE);
#undef CHK_CMP
#undef CHK_CMP1
      VRT_CHECK(x.get().v == a && y.get().v == b && cx.get().v == a && cy.get().v == b, fam + ":binary_modifies_operand",
                "a binary operator changed an operand (%d,%d)", a, b);
#define CHK_ASSIGN1(rexpr, op, code, cat)                                                                              \
  do                                                                                                                   \
  {                                                                                                                    \
    st l_{ord{a}};                                                                                                     \
    reset_calls();                                                                                                     \
    st &res_ = (l_ op(rexpr));                                                                                         \
    VRT_CHECK(&res_ == &l_ && l_.get().v == enc(code, a, b), fam + ":" + opname[code],                                 \
              "st(%d) " #op " st(%d) (%s): left encodes %d, expected %d", a, b, cat, l_.get().v, enc(code, a, b));     \
    note_calls(code);                                                                           \
  } while (0)
#define CHK_ASSIGN(op, code)                                                                                           \
  CHK_ASSIGN1(y, op, code, "lvalue");                                                                                  \
  CHK_ASSIGN1(cy, op, code, "const lvalue");                                                                           \
  CHK_ASSIGN1(st{ord{b}}, op, code, "rvalue")
      CHK_ASSIGN(+=, PLUS_A);
      CHK_ASSIGN(-=, MINUS_A);
      CHK_ASSIGN(*=, TIMES_A);
      CHK_ASSIGN(&=, AND_A);
      CHK_ASSIGN(|=, OR_A);
      CHK_ASSIGN(^=, XOR_A);
#undef CHK_ASSIGN
#undef CHK_ASSIGN1
      VRT_CHECK(y.get().v == b && cy.get().v == b, fam + ":assign_modifies_right", "a compound assignment changed its right operand %d", b);
    }
  }
}

// ------------------------------------------------------------------ fcppt's own 2x2 matrix
void strong_typedef_matrix()
{
  using mat = fcppt::math::matrix::static_<int, 2, 2>;
  using fcppt::math::matrix::row;
  struct tag
  {
  };
  using sm = fcppt::strong_typedef<mat, tag>;
  static std::string const fam = "strong_typedef<matrix<int,2,2>>";
  auto const keys = c17::tuples(4, 3);
  std::vector<mat> mats;
  for (auto const &k : keys)
    mats.push_back(mat(row(static_cast<int>(k[0]), static_cast<int>(k[1])), row(static_cast<int>(k[2]), static_cast<int>(k[3]))));
  auto is = [](mat const &m, long e00, long e01, long e10, long e11) {
    return m.m00() == e00 && m.m01() == e01 && m.m10() == e10 && m.m11() == e11;
  };
  for (std::size_t i = 0; i < mats.size(); ++i)
    for (std::size_t j = 0; j < mats.size(); ++j)
    {
      if (!vrt::begin("strong_typedef<matrix<int,2,2>>:binary", i, j))
        continue;
      auto const &a = keys[i];
      auto const &b = keys[j];
      // plain 2x2 product  a * b
      long const p00 = a[0] * b[0] + a[1] * b[2], p01 = a[0] * b[1] + a[1] * b[3], p10 = a[2] * b[0] + a[3] * b[2],
                 p11 = a[2] * b[1] + a[3] * b[3];
      long const q00 = b[0] * a[0] + b[1] * a[2], q01 = b[0] * a[1] + b[1] * a[3], q10 = b[2] * a[0] + b[3] * a[2],
                 q11 = b[2] * a[1] + b[3] * a[3];
      vrt::nontrivial(p00 != q00 || p01 != q01 || p10 != q10 || p11 != q11); // the matrices do not commute
      vrt::maybe_sample();
      sm const x{mats[i]}, y{mats[j]};
      VRT_CHECK(is((x * y).get(), p00, p01, p10, p11), fam + ":times", "matrix product of %s and %s is not left*right",
                c17::show_key(a).c_str(), c17::show_key(b).c_str());
      VRT_CHECK(is((sm{mats[i]} * sm{mats[j]}).get(), p00, p01, p10, p11), fam + ":times", "matrix product (rvalues) of %s and %s is not left*right",
                c17::show_key(a).c_str(), c17::show_key(b).c_str());
      VRT_CHECK(is((x - y).get(), a[0] - b[0], a[1] - b[1], a[2] - b[2], a[3] - b[3]), fam + ":minus", "matrix difference of %s and %s wrong",
                c17::show_key(a).c_str(), c17::show_key(b).c_str());
      VRT_CHECK(is((x + y).get(), a[0] + b[0], a[1] + b[1], a[2] + b[2], a[3] + b[3]), fam + ":plus", "matrix sum of %s and %s wrong",
                c17::show_key(a).c_str(), c17::show_key(b).c_str());
      sm l{mats[i]};
      l -= y;
      VRT_CHECK(is(l.get(), a[0] - b[0], a[1] - b[1], a[2] - b[2], a[3] - b[3]), fam + ":minus_assign", "matrix -= of %s and %s wrong",
                c17::show_key(a).c_str(), c17::show_key(b).c_str());
      VRT_CHECK((x == y) == (a == b) && (x != y) == (a != b), fam + ":equal", "matrix ==/!= of %s and %s wrong", c17::show_key(a).c_str(),
                c17::show_key(b).c_str());
      VRT_CHECK(is(x.get(), a[0], a[1], a[2], a[3]) && is(y.get(), b[0], b[1], b[2], b[3]), fam + ":modifies_operand", "operand changed");
    }
}

// ------------------------------------------------------------------ permutations of {0,1,2}
struct perm
{
  unsigned char p[3];
};
perm operator*(perm const &a, perm const &b) // composition: (a*b)(i) = a(b(i))
{
  return perm{{a.p[b.p[0]], a.p[b.p[1]], a.p[b.p[2]]}};
}
perm &operator*=(perm &a, perm const &b) { return a = a * b; }
bool operator==(perm const &a, perm const &b) { return a.p[0] == b.p[0] && a.p[1] == b.p[1] && a.p[2] == b.p[2]; }

void strong_typedef_perm()
{
  struct tag
  {
  };
  using sp = fcppt::strong_typedef<perm, tag>;
  static std::string const fam = "strong_typedef<perm>";
  unsigned char const ps[6][3] = {{0, 1, 2}, {0, 2, 1}, {1, 0, 2}, {1, 2, 0}, {2, 0, 1}, {2, 1, 0}};
  for (int i = 0; i < 6; ++i)
    for (int j = 0; j < 6; ++j)
    {
      if (!vrt::begin("strong_typedef<perm>:binary", i, j))
        continue;
      unsigned char want[3], other[3];
      for (int k = 0; k < 3; ++k)
      {
        want[k] = ps[i][ps[j][k]];
        other[k] = ps[j][ps[i][k]];
      }
      vrt::nontrivial(want[0] != other[0] || want[1] != other[1] || want[2] != other[2]);
      vrt::maybe_sample();
      sp const x{perm{{ps[i][0], ps[i][1], ps[i][2]}}}, y{perm{{ps[j][0], ps[j][1], ps[j][2]}}};
      perm const r = (x * y).get();
      VRT_CHECK(r.p[0] == want[0] && r.p[1] == want[1] && r.p[2] == want[2], fam + ":times",
                "perm %d * perm %d gave (%d,%d,%d), left o right is (%d,%d,%d)", i, j, r.p[0], r.p[1], r.p[2], want[0], want[1], want[2]);
      sp l{x};
      l *= y;
      VRT_CHECK(l.get().p[0] == want[0] && l.get().p[1] == want[1] && l.get().p[2] == want[2], fam + ":times_assign",
                "perm %d *= perm %d is not left o right", i, j);
      VRT_CHECK((x == y) == (i == j), fam + ":equal", "perm %d == perm %d wrong", i, j);
    }
}
} // namespace

void register_order()
{
  vrt::shard("strong_typedef_operand_order", [] {
    strong_typedef_ord();
    strong_typedef_perm();
  });
  vrt::shard("strong_typedef_matrix", [] { strong_typedef_matrix(); });
}

// C16 -- heterogeneous-type instantiations: the value / key / index / delimiter / initial state handed to a function
// next to a range has a type different from the element type.  This header holds the calls themselves so that the
// harness (C16_hetero.cpp) and the compile probes (C16_probe_hetero.cpp) instantiate exactly the same things.
#pragma once
#include <fcppt/loop.hpp>
#include <fcppt/algorithm/binary_search.hpp>
#include <fcppt/algorithm/contains.hpp>
#include <fcppt/algorithm/equal_range.hpp>
#include <fcppt/algorithm/find_by_opt.hpp>
#include <fcppt/algorithm/find_opt.hpp>
#include <fcppt/algorithm/fold.hpp>
#include <fcppt/algorithm/fold_break.hpp>
#include <fcppt/algorithm/index_of.hpp>
#include <fcppt/algorithm/join_strings.hpp>
#include <fcppt/algorithm/remove.hpp>
#include <fcppt/algorithm/split_string.hpp>
#include <fcppt/container/at_optional.hpp>
#include <fcppt/container/find_opt.hpp>
#include <fcppt/container/find_opt_iterator.hpp>
#include <fcppt/container/find_opt_mapped.hpp>
#include <fcppt/container/get_or_insert.hpp>
#include <fcppt/container/get_or_insert_result.hpp>
#include <fcppt/container/get_or_insert_with_result.hpp>
#include <fcppt/optional/object_impl.hpp>

#include <cstddef>
#include <deque>
#include <functional>
#include <iterator>
#include <list>
#include <map>
#include <string>
#include <string_view>
#include <utility>
#include <vector>

namespace c16h
{
// position of an iterator / emptiness of an optional as plain numbers: -1 = nothing
template <class C, class V> std::pair<long, long> call_equal_range(C &c, V const &v)
{
  auto const r = fcppt::algorithm::equal_range(c, v);
  return {static_cast<long>(std::distance(c.begin(), r.begin())), static_cast<long>(std::distance(c.begin(), r.end()))};
}
template <class C, class V> long call_binary_search(C &c, V const &v)
{
  auto const r = fcppt::algorithm::binary_search(c, v);
  return r.has_value() ? static_cast<long>(std::distance(c.begin(), r.get_unsafe())) : -1L;
}
template <class C, class V> bool call_contains(C const &c, V const &v) { return fcppt::algorithm::contains(c, v); }
template <class C, class V> long call_find_opt(C &c, V const &v)
{
  auto const r = fcppt::algorithm::find_opt(c, v);
  return r.has_value() ? static_cast<long>(std::distance(c.begin(), r.get_unsafe())) : -1L;
}
template <class C, class V> long call_index_of(C const &c, V const &v)
{
  auto const r = fcppt::algorithm::index_of(c, v);
  return r.has_value() ? static_cast<long>(r.get_unsafe()) : -1L;
}
// the function takes the elements as the wider type V and answers in V
template <class C, class V> fcppt::optional::object<V> call_find_by_opt(C const &c, V const &v)
{
  return fcppt::algorithm::find_by_opt(c, [&v](V const e) {
    return e == v ? fcppt::optional::object<V>{static_cast<V>(e + v)} : fcppt::optional::object<V>{};
  });
}
template <class C, class V> bool call_remove(C &c, V const &v) { return fcppt::algorithm::remove(c, v); }
// state of the wider type V: s' = 3 s + e
template <class C, class V> V call_fold(C const &c, V const init)
{
  return fcppt::algorithm::fold(c, init, [](typename C::value_type const e, V const s) { return static_cast<V>(s * 3 + e); });
}
template <class C, class V> V call_fold_break(C const &c, V const init, std::size_t const break_at, std::size_t &calls)
{
  return fcppt::algorithm::fold_break(c, init, [&calls, break_at](typename C::value_type const e, V const s) {
    ++calls;
    return std::make_pair(calls == break_at ? fcppt::loop::break_ : fcppt::loop::continue_, static_cast<V>(s * 3 + e));
  });
}
// index of a type other than size_type: pointer to the element or nullptr
template <class C, class I> typename C::value_type const *call_at_optional(C const &c, I const index)
{
  auto const r = fcppt::container::at_optional(c, index);
  return r.has_value() ? &r.get_unsafe().get() : nullptr;
}
// key of a type other than key_type: pointer to the mapped object or nullptr, three ways
template <class M, class K> typename M::mapped_type const *call_find_opt_mapped(M &m, K const &k)
{
  auto const r = fcppt::container::find_opt_mapped(m, k);
  return r.has_value() ? &r.get_unsafe().get() : nullptr;
}
template <class M, class K> typename M::mapped_type const *call_map_find_opt(M &m, K const &k)
{
  auto const r = fcppt::container::find_opt(m, k);
  return r.has_value() ? &r.get_unsafe().get().second : nullptr;
}
template <class M, class K> typename M::mapped_type const *call_find_opt_iterator(M &m, K const &k)
{
  auto const r = fcppt::container::find_opt_iterator(m, k);
  return r.has_value() ? &r.get_unsafe()->second : nullptr;
}
template <class M, class K, class Create> typename M::mapped_type *call_get_or_insert(M &m, K const &k, Create const &create)
{
  return &fcppt::container::get_or_insert(m, k, create);
}
template <class M, class K, class Create>
std::pair<typename M::mapped_type *, bool> call_get_or_insert_with_result(M &m, K const &k, Create const &create)
{
  auto const r = fcppt::container::get_or_insert_with_result(m, k, create);
  return {&r.element(), r.inserted()};
}
template <class R, class D> auto call_join_strings(R const &r, D const &delim) { return fcppt::algorithm::join_strings(r, delim); }
template <class S, class D> std::vector<S> call_split_string(S const &s, D const delim)
{
  return fcppt::algorithm::split_string(s, delim);
}

using uchar = unsigned char;
using llong = long long;
using tmap_int = std::map<int, int, std::less<>>;              // transparent comparator
using tmap_str = std::map<std::string, int, std::less<>>;      // transparent comparator
using map_str = std::map<std::string, int>;
}

// element type x value type pairs used everywhere
#define C16H_PAIRS(X) \
  X(uchar, int) X(uchar, llong) X(uchar, double) X(short, int) X(short, llong) X(short, double) X(int, int) X(int, llong) X(int, double) \
  X(int, short) X(int, uchar)

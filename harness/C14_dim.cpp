// C14_dim.cpp -- fcppt::math::dim: the same component-wise groups as for vectors
// (C14_vecdim.hpp) plus contents and the component-wise ring laws over triples.
#include "C14_vecdim.hpp"

namespace c14
{
namespace
{
template <sz N> struct dtriple_ctx
{
  rvec<N> const *a, *b, *c;
  static std::string print(void const *p)
  {
    auto const *t = static_cast<dtriple_ctx const *>(p);
    return "dim_ring_laws<" + std::to_string(N) + "> u=" + show(*t->a) + " v=" + show(*t->b) + " w=" + show(*t->c);
  }
};
template <sz N> void dim_triples(std::vector<rvec<N>> const &fam)
{
  static std::string const fn = "dim_ring_laws<" + std::to_string(N) + ">";
  auto const ops = make_vops<dim_k, N>(fam);
  dtriple_ctx<N> ctx{};
  for (std::size_t i = 0; i < ops.size(); ++i)
  {
    if (vrt::out_of_time())
      return;
    for (std::size_t j = 0; j < ops.size(); ++j)
      for (std::size_t k = 0; k < ops.size(); ++k)
      {
        if (!vrt::begin(fn.c_str(), i, j, k))
          continue;
        rvec<N> const &u = ops[i].r, &v = ops[j].r, &w = ops[k].r;
        ctx.a = &u;
        ctx.b = &v;
        ctx.c = &w;
        g_ctx.print = &dtriple_ctx<N>::print;
        g_ctx.data = &ctx;
        vrt::nontrivial(!rvzero(u) && !rvzero(v) && !rvzero(w) && i != j && j != k && i != k);
        sample_lazy();
        sdim<N> const &su = ops[i].s, &sw = ops[k].s;
        vdim<N> const sv = ops[j].v();
        C14_TRUE((su + sv) + sw == su + (sv + sw), fn + ":add_associative", "(u+v)+w != u+(v+w)");
        C14_EQ(rdv((su + sv) + sw), rvadd(rvadd(u, v), w), fn + ":add_associative:reference", "(u+v)+w");
        C14_TRUE((su * sv) * sw == su * (sv * sw), fn + ":mul_associative", "(u*v)*w != u*(v*w)");
        C14_EQ(rdv((su * sv) * sw), rvmul(rvmul(u, v), w), fn + ":mul_associative:reference", "(u*v)*w");
        C14_TRUE(su * (sv + sw) == su * sv + su * sw, fn + ":distributive", "u*(v+w) != u*v+u*w");
        C14_TRUE(3 * (su + sv) == 3 * su + 3 * sv && (su - sv) * -2 == su * -2 - sv * -2, fn + ":scalar_distributive", "k(u+-v) != ku+-kv");
        C14_TRUE(fd::contents(su * sv) == fd::contents(su) * fd::contents(sv), fn + ":contents_multiplicative", "contents(u*v) != contents(u)contents(v)");
      }
  }
  g_ctx = case_ctx{};
}
auto const no_extra = [](auto const &, auto const &, std::string const &) {};
}

void register_dim()
{
  vrt::shard("dim1_2/all", [] {
    unary_all<dim_k, 1>(all_vectors<1>(-9, 9), range(-3, 3));
    pairs_all<dim_k, 1>(all_vectors<1>(-9, 9), 0, 1, no_extra);
    dim_triples<1>(all_vectors<1>(-3, 3));
    unary_all<dim_k, 2>(all_vectors<2>(-9, 9), range(-3, 3));
    dim_triples<2>(all_vectors<2>(-2, 2));
  });
  for (unsigned p = 0; p < 4; ++p)
    vrt::shard("dim2/pairs/" + std::to_string(p), [p] { pairs_all<dim_k, 2>(vrt::thorough() ? all_vectors<2>(-9, 9) : all_vectors<2>(-3, 3), p, 4, no_extra); });
  vrt::shard("dim3/all", [] {
    unary_all<dim_k, 3>(all_vectors<3>(-2, 2), range(-3, 3));
    pairs_all<dim_k, 3>(all_vectors<3>(-2, 2), 0, 1, no_extra);
    dim_triples<3>(all_vectors<3>(-1, 1));
  });
  vrt::shard("dim4/unary_triples", [] {
    unary_all<dim_k, 4>(all_vectors<4>(-2, 2), range(-3, 3));
    dim_triples<4>(vrt::thorough() ? all_vectors<4>(-1, 1) : all_vectors<4>(0, 1));
  });
  for (unsigned p = 0; p < 4; ++p)
    vrt::shard("dim4/pairs/" + std::to_string(p), [p] { pairs_all<dim_k, 4>(vrt::thorough() ? all_vectors<4>(-2, 2) : all_vectors<4>(-1, 1), p, 4, no_extra); });
}
}

// C12 -- shared parts: text enumeration, the reference model (text, index) and the
// real stream fixture.
//
// Reference (independent of fcppt, taken from the documentation of
// fcppt::parse::basic_stream): a stream over the string a_1..a_n points to an index
// 0 <= i <= n; line = 1 + number of newlines among a_1..a_i; column = i - j + 1 where
// j is the (1-based) index of the last newline <= i, or 0.  get_char at i == n yields
// nothing, otherwise a_{i+1} and i becomes i+1.
#pragma once
#include <vrt.hpp>

#include <fcppt/make_ref.hpp>
#include <fcppt/reference_impl.hpp>
#include <fcppt/reference_to_base.hpp>
#include <fcppt/optional/object_impl.hpp>
#include <fcppt/parse/basic_stream_impl.hpp>
#include <fcppt/parse/column.hpp>
#include <fcppt/parse/get_char.hpp>
#include <fcppt/parse/get_char_error.hpp>
#include <fcppt/parse/get_position.hpp>
#include <fcppt/parse/line.hpp>
#include <fcppt/parse/location.hpp>
#include <fcppt/parse/position.hpp>
#include <fcppt/parse/position_equal.hpp>
#include <fcppt/parse/set_position.hpp>
#include <fcppt/parse/detail/exception.hpp>
#include <fcppt/parse/detail/stream_impl.hpp>

#include <cstdint>
#include <ios>
#include <istream>
#include <optional>
#include <sstream>
#include <string>
#include <vector>

namespace c12
{
template <class Ch> struct cname;
template <> struct cname<char>
{
  static constexpr char const *v = "char";
};
template <> struct cname<wchar_t>
{
  static constexpr char const *v = "wchar_t";
};

// alphabet 0: the stated one {a, newline, space, tab}
// alphabet 1 (wchar_t only): newline plus three characters whose low byte / low 16 bits
//   equal '\n' or that do not fit a char -- a stream that narrows before comparing with
//   the newline would miscount lines.
// alphabet 2 (char only): {a, newline, 0xFF, 0x80} -- bytes that are negative as (signed) char;
//   0xFF narrowed to char equals char_traits<char>::eof() narrowed to char, so a stream that
//   compares after narrowing takes it for the end of input.
template <class Ch> inline Ch letter(int alphabet, int d)
{
  if (alphabet == 0)
  {
    Ch const a[4] = {Ch('a'), Ch('\n'), Ch(' '), Ch('\t')};
    return a[d];
  }
  if (alphabet == 2)
  {
    unsigned char const b[4] = {'a', '\n', 0xFFU, 0x80U};
    return static_cast<Ch>(b[d]);
  }
  std::uint32_t const w[4] = {0x263AU, 0x0AU, 0x0A0AU, 0x1000AU};
  return static_cast<Ch>(w[d]);
}

// text number `code` of length `len`: base-4 digits, most significant first
template <class Ch> inline std::basic_string<Ch> make_text(int alphabet, int len, std::uint32_t code)
{
  std::basic_string<Ch> r(static_cast<std::size_t>(len), Ch());
  for (int i = len - 1; i >= 0; --i)
  {
    r[static_cast<std::size_t>(i)] = letter<Ch>(alphabet, static_cast<int>(code & 3U));
    code >>= 2;
  }
  return r;
}

inline std::uint32_t texts_of_len(int len) { return std::uint32_t(1) << (2 * len); }
// number of texts of length <= maxlen
inline int texts_upto(int maxlen)
{
  int r = 0;
  for (int l = 0; l <= maxlen; ++l)
    r += static_cast<int>(texts_of_len(l));
  return r;
}
// global numbering: all texts of length 0, then length 1, ...
template <class Ch> inline std::basic_string<Ch> text_by_number(int alphabet, int no)
{
  int len = 0;
  while (no >= static_cast<int>(texts_of_len(len)))
  {
    no -= static_cast<int>(texts_of_len(len));
    ++len;
  }
  return make_text<Ch>(alphabet, len, static_cast<std::uint32_t>(no));
}

template <class Ch> inline std::string show_char(Ch c)
{
  auto const v = static_cast<std::uint32_t>(static_cast<std::make_unsigned_t<Ch>>(c));
  if (v == '\n')
    return "\\n";
  if (v == '\t')
    return "\\t";
  if (v == ' ')
    return "\\s";
  if (v > 32 && v < 127)
    return std::string(1, static_cast<char>(v));
  return vrt::fmt("\\u{%X}", v);
}
// runs of 14 or more equal characters are written <char>{count} (the texts of the stated bound are at most 12 long)
template <class Ch> inline std::string show_text(std::basic_string<Ch> const &t)
{
  std::string r = "\"";
  for (std::size_t i = 0; i < t.size();)
  {
    std::size_t e = i;
    while (e < t.size() && t[e] == t[i])
      ++e;
    if (e - i >= 14)
      r += show_char(t[i]) + "{" + std::to_string(e - i) + "}";
    else
      for (std::size_t k = i; k < e; ++k)
        r += show_char(t[k]);
    i = e;
  }
  return r + "\"";
}
template <class Ch> inline std::string show_opt(fcppt::optional::object<Ch> const &o)
{
  return o.has_value() ? "'" + show_char(o.get_unsafe()) + "'" : std::string("nothing");
}
// printable rendering of a message produced by fcppt (for violation texts only)
template <class Ch> inline std::string narrow_msg(std::basic_string<Ch> const &s)
{
  std::string r;
  for (Ch c : s)
    r += show_char(c) == "\\s" ? std::string(" ") : show_char(c);
  return r;
}
template <class Ch> inline std::basic_string<Ch> widen(std::string const &s)
{
  std::basic_string<Ch> r;
  for (char c : s)
    r += static_cast<Ch>(c);
  return r;
}

struct loc
{
  std::uint64_t line, column;
};
// the documented location of index i in text
template <class Ch> inline loc model_loc(std::basic_string<Ch> const &text, std::size_t i)
{
  std::uint64_t newlines = 0;
  std::size_t after_last_newline = 0;
  for (std::size_t p = 0; p < i; ++p)
    if (text[p] == Ch('\n'))
    {
      ++newlines;
      after_last_newline = p + 1;
    }
  return loc{1 + newlines, static_cast<std::uint64_t>(i - after_last_newline) + 1};
}

template <class Ch> using stream_ref = fcppt::reference<fcppt::parse::basic_stream<Ch>>;
template <class Ch> using position = fcppt::parse::position<Ch>;

// compare a position returned by fcppt with the model; returns a description of the difference or "".
// base >= 0: the offset must be base + i (base = 0: the stream was built on a fresh std stream, the string
// a_1..a_n of the documentation is the whole content).  base < 0: the offset value is not examined (the parse
// stream was built on a std stream from which characters had already been read; the documentation does not
// say what the offset of such a stream counts from).
template <class Ch>
inline std::string position_diff(position<Ch> const &p, std::basic_string<Ch> const &text, std::size_t i, long long base = 0)
{
  std::string r;
  long long const off = static_cast<long long>(std::streamoff(p.pos()));
  if (base >= 0 && off != base + static_cast<long long>(i))
    r += vrt::fmt("offset %lld, expected %lld; ", off, base + static_cast<long long>(i));
  loc const m = model_loc(text, i);
  if (!p.location().has_value())
    r += "no location; ";
  else
  {
    fcppt::parse::location const &l = p.location().get_unsafe();
    if (l.line().get() != m.line || l.column().get() != m.column)
      r += vrt::fmt("location %llu:%llu, expected %llu:%llu; ", static_cast<unsigned long long>(l.line().get()),
                    static_cast<unsigned long long>(l.column().get()), static_cast<unsigned long long>(m.line),
                    static_cast<unsigned long long>(m.column));
  }
  return r;
}

// the real object: fcppt::parse::detail::stream over an arbitrary std::basic_istream
template <class Ch> struct real_stream
{
  fcppt::parse::detail::stream<Ch> st;
  explicit real_stream(std::basic_istream<Ch> &is) : st(fcppt::make_ref(is)) {}
  stream_ref<Ch> ref() { return fcppt::reference_to_base<fcppt::parse::basic_stream<Ch>>(fcppt::make_ref(st)); }
};

// fixture: istringstream + stream.  `skip` characters are read from the istringstream with plain
// std::istream::get() calls *before* the parse stream is constructed on it.
template <class Ch> struct string_world
{
  std::basic_istringstream<Ch> is;
  real_stream<Ch> rs;
  static std::basic_istream<Ch> &pre_read(std::basic_istream<Ch> &s, std::size_t skip)
  {
    for (std::size_t i = 0; i < skip; ++i)
      if (s.get() == std::char_traits<Ch>::eof())
        vrt::fail("harness:pre_read", "the text is shorter than the number of characters to read in advance");
    return s;
  }
  explicit string_world(std::basic_string<Ch> const &t, std::size_t skip = 0) : is(t), rs(pre_read(is, skip)) {}
  stream_ref<Ch> ref() { return rs.ref(); }
  // offset of the next unread character of the underlying buffer; does not touch the stream state
  long long underlying_offset() { return static_cast<long long>(std::streamoff(is.rdbuf()->pubseekoff(0, std::ios_base::cur, std::ios_base::in))); }
};

void register_straight();
void register_fault();
void register_errtext();
void register_bytes();
void register_long();
void register_state();

// values around which the decimal rendering and the counter arithmetic change size
inline std::vector<std::uint64_t> const &lattice()
{
  static std::vector<std::uint64_t> const v{1, 2, 9, 10, 11, 19, 20, 99, 100, 101, 109, 110, 111, 999, 1000, 1001, 1099, 1100, 9999, 10000, 65535, 65536};
  return v;
}
}

// C17 -- shared checker: ==, !=, <, <=, >, >=, hash of one value type over an explicit universe.
//
// A universe is a list of real objects, each with
//   key   : its observable components written down by the harness while it *built* the value
//           (never read back through the operators under test),
//   route : how the object was produced (constructor, assignment from another alternative, ~, ...),
//   tag   : empty, or the name of a representation-sensitive operation on the route (e.g.
//           "complement"); violations that involve a tagged value get "_after_<tag>" in their
//           signature so that a representation artefact is reported separately from a plain
//           comparison bug.
// The oracle is key equality / lexicographic key order on std::vector<long>.
#pragma once
#include <vrt.hpp>

#include <cstddef>
#include <deque>
#include <functional>
#include <string>
#include <utility>
#include <vector>

namespace c17
{
using key_t = std::vector<long>;

template <class T> struct entry
{
  T value;
  key_t key;
  std::string route;
  std::string tag;
};

template <class T> using universe = std::vector<entry<T>>;

template <class T> void add(universe<T> &u, T v, key_t k, std::string route, std::string tag = "")
{
  u.push_back(entry<T>{std::move(v), std::move(k), std::move(route), std::move(tag)});
}

inline std::string show_key(key_t const &k)
{
  std::string r = "[";
  for (std::size_t i = 0; i < k.size(); ++i)
    r += (i ? "," : "") + std::to_string(k[i]);
  return r + "]";
}

template <class T> std::string show(entry<T> const &e) { return show_key(e.key) + " via " + e.route; }

enum : unsigned
{
  NE = 1,    // operator!= offered
  LT = 2,    // operator< offered
  REL = 4,   // operators <=, >, >= offered
  HASH = 8,  // a hash function object is offered
  LEX = 16,  // the documentation defines < as the lexicographic order of the components in key order
  LEX_INFO = 64, // like LEX, but the lexicographic order is NOT promised by the property or the documentation
                 // (raw_vector: undocumented operator<): a deviation is recorded as an information counter only
  HASH_ONLY = 32 // second pass with another hash object: the ==-checks were reported by the first pass
};

struct std_hash_of
{
  template <class T> std::size_t operator()(T const &v) const { return std::hash<T>{}(v); }
};

inline bool pow2(std::uint64_t e) { return e == 1 || (e & (e - 1)) == 0; }

// sig = family:check[_after_tag]:inst
inline std::string mk_sig(std::string const &family, std::string const &inst, char const *check, std::string const &ta,
                          std::string const &tb, std::string const &tc = "")
{
  std::string const &t = !ta.empty() ? ta : (!tb.empty() ? tb : tc);
  return family + ":" + check + (t.empty() ? "" : "_after_" + t) + ":" + inst;
}

// All ordered pairs (part of the rows) and all ordered triples (part of the first index).
// Every operator call below goes to the real fcppt operator for T.
template <unsigned F, class T, class Hash = std_hash_of>
void check_type(std::string const &family, std::string const &inst, universe<T> const &u, unsigned part = 0,
                unsigned nparts = 1, bool triples = true, Hash const &hasher = Hash{})
{
  static std::deque<std::string> names; // stable addresses, never freed: vrt compares the fn pointer
  names.push_back(family + inst + ":pair");
  char const *const n_pair = names.back().c_str();
  names.push_back(family + inst + ":triple");
  char const *const n_triple = names.back().c_str();
  std::size_t const N = u.size();

  if (part == 0)
  {
    // internal consistency of the reference data: at least two distinct keys, and some key reached twice
    bool distinct = false, dup = false;
    for (std::size_t i = 0; i < N; ++i)
      for (std::size_t j = i + 1; j < N; ++j)
        (u[i].key == u[j].key ? dup : distinct) = true;
    if (N < 2 || !distinct)
      vrt::fail("harness:universe_too_small:" + family + inst, "universe has no two distinct keys");
    (void)dup;
    vrt::count("universe:" + family + inst, N);
    if ((F & HASH_ONLY) == 0)
    {
      // the first entries of the universe, written out (index -> value) for the evidence file
      std::string j = "[";
      for (std::size_t i = 0; i < N && i < 24; ++i)
        j += std::string(i ? "," : "") + "\"" + vrt::json_escape(show(u[i])) + "\"";
      if (N > 24)
        j += ",\"... (" + std::to_string(N) + " objects)\"";
      vrt::info("universe:" + family + inst, j + "]");
    }
  }

  for (std::size_t i = 0; i < N; ++i)
  {
    if (i % nparts != part)
      continue;
    if (vrt::out_of_time())
      return;
    entry<T> const &A = u[i];
    for (std::size_t j = 0; j < N; ++j)
    {
      entry<T> const &B = u[j];
      if (!vrt::begin(n_pair, i, j))
        continue;
      bool const keq = A.key == B.key;
      // non-trivial: two different objects (not the reflexive case) that are either equal by key
      // (reached twice) or differ (must be told apart)
      vrt::nontrivial(i != j);
      if (pow2(vrt::S().page->evaluations))
      {
        vrt::describe(family + inst + " pair: " + show(A) + "  vs  " + show(B));
        vrt::maybe_sample();
      }
      T const &a = A.value;
      T const &b = B.value;
      bool const eq = a == b;
      bool const eq_r = b == a;
      if (eq != keq && (F & HASH_ONLY) == 0)
        vrt::fail(mk_sig(family, inst, "eq", A.tag, B.tag),
                  vrt::fmt("operator== gave %d, observable components %s: %s  vs  %s", (int)eq, keq ? "equal" : "differ",
                           show(A).c_str(), show(B).c_str()));
      if (eq != eq_r && (F & HASH_ONLY) == 0)
        vrt::fail(mk_sig(family, inst, "eq_symmetric", A.tag, B.tag),
                  vrt::fmt("a==b is %d but b==a is %d: %s  vs  %s", (int)eq, (int)eq_r, show(A).c_str(), show(B).c_str()));
      if constexpr ((F & NE) != 0)
      {
        bool const ne = a != b;
        if (ne == eq)
          vrt::fail(mk_sig(family, inst, "ne", A.tag, B.tag),
                    vrt::fmt("a!=b is %d and a==b is %d: %s  vs  %s", (int)ne, (int)eq, show(A).c_str(), show(B).c_str()));
      }
      if constexpr ((F & LT) != 0)
      {
        bool const lt = a < b;
        bool const tl = b < a;
        if (lt && tl)
          vrt::fail(mk_sig(family, inst, "lt_asymmetric", A.tag, B.tag),
                    vrt::fmt("a<b and b<a both hold: %s  vs  %s", show(A).c_str(), show(B).c_str()));
        // compatible with ==: exactly one of a==b, a<b, b<a
        if ((eq ? 1 : 0) + (lt ? 1 : 0) + (tl ? 1 : 0) != 1)
          vrt::fail(mk_sig(family, inst, "lt_compatible", A.tag, B.tag),
                    vrt::fmt("a==b:%d a<b:%d b<a:%d (exactly one expected): %s  vs  %s", (int)eq, (int)lt, (int)tl,
                             show(A).c_str(), show(B).c_str()));
        if constexpr ((F & LEX_INFO) != 0)
        {
          if (lt != (A.key < B.key))
            vrt::count("info:" + family + ":lt_lexicographic:" + inst);
        }
        if constexpr ((F & LEX) != 0)
        {
          bool const want = A.key < B.key; // std::vector: lexicographic
          if (lt != want)
            vrt::fail(mk_sig(family, inst, "lt_lexicographic", A.tag, B.tag),
                      vrt::fmt("a<b gave %d, documented lexicographic order says %d: %s  vs  %s", (int)lt, (int)want,
                               show(A).c_str(), show(B).c_str()));
        }
        if constexpr ((F & REL) != 0)
        {
          bool const gt = a > b, le = a <= b, ge = a >= b;
          if (gt != tl || le != !tl || ge != !lt)
            vrt::fail(mk_sig(family, inst, "rel_derived", A.tag, B.tag),
                      vrt::fmt("a<b:%d b<a:%d but a>b:%d a<=b:%d a>=b:%d: %s  vs  %s", (int)lt, (int)tl, (int)gt, (int)le,
                               (int)ge, show(A).c_str(), show(B).c_str()));
        }
      }
      if constexpr ((F & HASH) != 0)
      {
        std::size_t const ha = hasher(a), hb = hasher(b);
        if ((keq || eq) && ha != hb)
          vrt::fail(mk_sig(family, inst, "hash", A.tag, B.tag),
                    vrt::fmt("equal values (== gave %d, components %s) hash to %zu and %zu: %s  vs  %s", (int)eq,
                             keq ? "equal" : "differ", ha, hb, show(A).c_str(), show(B).c_str()));
        if (!keq && ha == hb)
          vrt::count("hash_collisions_of_unequal:" + family + inst); // information only
      }
    }
  }

  if (!triples)
    return;
  for (std::size_t i = 0; i < N; ++i)
  {
    if (i % nparts != part)
      continue;
    entry<T> const &A = u[i];
    for (std::size_t j = 0; j < N; ++j)
    {
      if (vrt::out_of_time())
        return;
      entry<T> const &B = u[j];
      for (std::size_t k = 0; k < N; ++k)
      {
        entry<T> const &C = u[k];
        if (!vrt::begin(n_triple, i, j, k))
          continue;
        T const &a = A.value;
        T const &b = B.value;
        T const &c = C.value;
        bool const ab = a == b, bc = b == c, ac = a == c;
        bool prem = ab && bc;
        if (ab && bc && !ac)
          vrt::fail(mk_sig(family, inst, "eq_transitive", A.tag, B.tag, C.tag),
                    vrt::fmt("a==b, b==c but not a==c: %s ; %s ; %s", show(A).c_str(), show(B).c_str(), show(C).c_str()));
        if constexpr ((F & LT) != 0)
        {
          bool const lab = a < b, lbc = b < c, lac = a < c;
          if (lab && lbc)
            prem = true;
          if (lab && lbc && !lac)
            vrt::fail(mk_sig(family, inst, "lt_transitive", A.tag, B.tag, C.tag),
                      vrt::fmt("a<b, b<c but not a<c: %s ; %s ; %s", show(A).c_str(), show(B).c_str(), show(C).c_str()));
          bool const lba = b < a, lcb = c < b, lca = c < a;
          if (!lab && !lba && !lbc && !lcb && (lac || lca))
            vrt::fail(mk_sig(family, inst, "lt_incomparability_transitive", A.tag, B.tag, C.tag),
                      vrt::fmt("a~b, b~c but a,c ordered: %s ; %s ; %s", show(A).c_str(), show(B).c_str(), show(C).c_str()));
        }
        // non-trivial: the premise of a transitivity implication holds for three different objects
        vrt::nontrivial(prem && i != j && j != k && i != k);
        if (pow2(vrt::S().page->evaluations))
        {
          vrt::describe(family + inst + " triple: " + show(A) + " ; " + show(B) + " ; " + show(C));
          vrt::maybe_sample();
        }
      }
    }
  }
}

// all tuples over {0..base-1}^n, as key_t
inline std::vector<key_t> tuples(unsigned n, long base)
{
  std::vector<key_t> r;
  key_t cur(n, 0);
  for (;;)
  {
    r.push_back(cur);
    unsigned p = n;
    while (p > 0)
    {
      --p;
      if (++cur[p] < base)
        break;
      cur[p] = 0;
      if (p == 0)
        return r;
    }
    if (n == 0)
      return r;
  }
}

} // namespace c17

void register_wrappers();   // C17.cpp
void register_sums();       // C17_sum.cpp
void register_math();       // C17_math.cpp
void register_containers(); // C17_cont.cpp

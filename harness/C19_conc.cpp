// C19 (concurrent part) -- several threads call set/get and create log objects on one
// context: no data race, no deadlock, and every observed level is one that some sequential
// ordering of the calls would produce.
// Engine S (rt/sched): for every program tuple over colliding locations and every schedule
// with at most B preemptions, the real library is executed under the controlled scheduler.
//
// Oracles per execution:
//  (a) no happens-before race between instrumented accesses, no deadlock (scheduler);
//  (b) the mutex-protected calls (set/get/object creation) with their results are linearizable
//      w.r.t. the reference of DESIGN.md appendix C (brute force over all linear extensions of
//      program order + real-time precedence);
//  (c) every level read lock-free through a log object is, individually, the value of the
//      reference at some point of some such linear extension that is compatible with the
//      read's own call/return window (DESIGN.md section 5: per observation, not jointly).
#include <vrt.hpp>

#include <sched/sched.hpp>

#include <fcppt/make_ref.hpp>
#include <fcppt/string.hpp>
#include <fcppt/text.hpp>
#include <fcppt/enum/array_init.hpp>
#include <fcppt/log/context.hpp>
#include <fcppt/log/level.hpp>
#include <fcppt/log/level_stream.hpp>
#include <fcppt/log/level_stream_array.hpp>
#include <fcppt/log/location.hpp>
#include <fcppt/log/name.hpp>
#include <fcppt/log/object.hpp>
#include <fcppt/log/optional_level.hpp>
#include <fcppt/log/parameters.hpp>
#include <fcppt/log/format/default_level.hpp>
#include <fcppt/log/format/optional_function.hpp>
#include <fcppt/optional/object_impl.hpp>

#include <map>
#include <memory>
#include <sstream>
#include <unordered_map>
#include <vector>

namespace flog = fcppt::log;

// ---- alphabet ---------------------------------------------------------------------
// locations addressed by the thread programs: 0 = [], 1 = [a], 2 = [a,b]
using path = std::vector<int>;
static path const LOCS[3] = {{}, {0}, {0, 1}};
static char const *NAMES[3] = {"ab", "a", "abc"}; // every pair is in a proper-prefix relation: names are compared as wholes

static flog::location to_location(path const &p)
{
  flog::location l;
  for (int n : p)
    l /= flog::name{NAMES[n]};
  return l;
}
// every location of depth <= 3 over {a,b,c} (40 nodes): pre-history 3 and its final observation
static std::vector<path> const &full_tree()
{
  static std::vector<path> v = [] {
    std::vector<path> r{path{}};
    for (std::size_t i = 0; i < r.size(); ++i)
      if (r[i].size() < 3)
        for (int n = 0; n < 3; ++n)
        {
          path c = r[i];
          c.push_back(n);
          r.push_back(c);
        }
    return r;
  }();
  return v;
}
// level codes: 0 debug, 1 error, 2 none, 3 warning (root default), 4 fatal (pre-history)
static flog::optional_level lvl_of(int c)
{
  switch (c)
  {
  case 0: return flog::optional_level{flog::level::debug};
  case 1: return flog::optional_level{flog::level::error};
  case 3: return flog::optional_level{flog::level::warning};
  case 4: return flog::optional_level{flog::level::fatal};
  default: return flog::optional_level{};
  }
}
static int code_of(flog::optional_level const &l)
{
  if (!l.has_value())
    return 2;
  switch (l.get_unsafe())
  {
  case flog::level::debug: return 0;
  case flog::level::error: return 1;
  case flog::level::warning: return 3;
  case flog::level::fatal: return 4;
  default: return 9;
  }
}

struct opd
{
  char kind; // S set(loc) G get(loc) C create(which) R read own object P read pre-history object
  int arg;
};
using program = std::vector<opd>;

static std::string show_prog(program const &p)
{
  std::string s;
  for (opd const &o : p)
    s += std::string(1, o.kind) + std::to_string(o.arg);
  return s;
}
static program parse_prog(std::string const &s)
{
  program p;
  for (std::size_t i = 0; i + 1 < s.size(); i += 2)
    p.push_back(opd{s[i], s[i + 1] - '0'});
  return p;
}

struct unit
{
  int pre; // pre-history: 0 empty tree, 1 set([a,b],fatal) (a and a/b exist), 2 an object lives at a/b
  std::vector<program> progs;
};
static std::string show_unit(unit const &u)
{
  std::string s = "pre=" + std::to_string(u.pre);
  for (std::size_t i = 0; i < u.progs.size(); ++i)
    s += " T" + std::to_string(i + 1) + "=" + show_prog(u.progs[i]);
  return s;
}

// ---- one execution ------------------------------------------------------------------
struct oprec
{
  int thread;
  int idx;
  opd o;
  int set_level = -1; // for S
  path loc;           // for S / G: the location
  path objpath;       // for C / R / P
  std::uint64_t call = 0, ret = 0;
  int val = -1; // G / R / P
};

struct world
{
  std::ostringstream sink;
  std::unique_ptr<flog::context> ctx;
  std::unique_ptr<flog::object> preobj;
  std::vector<std::vector<std::unique_ptr<flog::object>>> own; // per thread
  std::vector<std::vector<path>> ownpath;
};

static std::unique_ptr<world> make_world(unit const &u)
{
  vsched::reset_shadow();
  auto w = std::make_unique<world>();
  w->ctx = std::make_unique<flog::context>(
      lvl_of(3), fcppt::enum_::array_init<flog::level_stream_array>([&w](flog::level const l) {
        return flog::level_stream(w->sink, flog::format::optional_function(flog::format::default_level(l)));
      }));
  if (u.pre == 1)
    w->ctx->set(to_location(LOCS[2]), lvl_of(4));
  if (u.pre == 3)
    for (path const &p : full_tree())
      if (p.size() == 3)
        w->ctx->set(to_location(p), lvl_of(4)); // creates all 40 nodes
  if (u.pre == 2)
    w->preobj = std::make_unique<flog::object>(fcppt::make_ref(*w->ctx), to_location(LOCS[1]),
                                               flog::parameters(flog::name{NAMES[1]}, flog::format::optional_function{}));
  w->own.resize(u.progs.size());
  w->ownpath.resize(u.progs.size());
  return w;
}

struct execution
{
  vsched::exec_result res;
  std::vector<oprec> ops; // all threads, grouped by thread in program order
};

static execution execute(unit const &u, std::vector<vsched::choice> const &prefix)
{
  execution ex;
  std::unique_ptr<world> w = make_world(u);
  std::vector<std::vector<oprec>> recs(u.progs.size());
  std::vector<std::function<void()>> threads;
  for (std::size_t t = 0; t < u.progs.size(); ++t)
  {
    recs[t].resize(u.progs[t].size());
    threads.push_back([&, t] {
      for (std::size_t i = 0; i < u.progs[t].size(); ++i)
      {
        opd const o = u.progs[t][i];
        oprec &r = recs[t][i];
        r.thread = static_cast<int>(t);
        r.idx = static_cast<int>(i);
        r.o = o;
        r.call = vsched::now();
        switch (o.kind)
        {
        case 'S':
          r.set_level = static_cast<int>(t); // thread t always sets "its" level: 0 debug, 1 error, 2 none
          r.loc = LOCS[o.arg];
          w->ctx->set(to_location(LOCS[o.arg]), lvl_of(r.set_level));
          break;
        case 'G':
          r.loc = LOCS[o.arg];
          r.val = code_of(w->ctx->get(to_location(LOCS[o.arg])));
          break;
        case 'C':
        {
          // which 0: object(ctx, [], name a) -> node [a];  1: object(ctx, [a], name b) -> node [a,b];
          // 2: object(ctx, [a], name c) -> node [a,c]
          path const parent = o.arg == 0 ? LOCS[0] : LOCS[1];
          w->own[t].push_back(std::make_unique<flog::object>(fcppt::make_ref(*w->ctx), to_location(parent),
                                                             flog::parameters(flog::name{NAMES[o.arg]}, flog::format::optional_function{})));
          r.objpath = o.arg == 0 ? LOCS[1] : (o.arg == 1 ? LOCS[2] : path{0, 2});
          w->ownpath[t].push_back(r.objpath);
          break;
        }
        case 'R':
          r.val = code_of(w->own[t].back()->level());
          break;
        case 'P':
          r.val = code_of(w->preobj->level());
          r.objpath = LOCS[2];
          break;
        }
        r.ret = vsched::now();
      }
    });
  }
  ex.res = vsched::run(threads, prefix);
  // own-object reads: path of the most recent C of the same thread
  for (std::size_t t = 0; t < recs.size(); ++t)
  {
    path last;
    for (oprec &r : recs[t])
    {
      if (r.o.kind == 'C')
        last = r.objpath;
      if (r.o.kind == 'R')
        r.objpath = last;
      ex.ops.push_back(r);
    }
  }
  // Final observation by the coordinator, strictly after all threads: everything visible is read,
  // then two more sets are made and everything is read again.  These operations are totally
  // ordered after all thread operations in the linearizability check.
  {
    int const vt = static_cast<int>(u.progs.size());
    int idx = 0;
    std::uint64_t stamp = std::uint64_t(1) << 60;
    std::vector<path> const &obs = u.pre == 3 ? full_tree() : std::vector<path>{LOCS[0], LOCS[1], LOCS[2], path{0, 2}};
    auto observe_all = [&] {
      for (path const &p : obs)
      {
        oprec r;
        r.thread = vt;
        r.idx = idx++;
        r.o = opd{'G', 0};
        r.loc = p;
        r.call = stamp++;
        r.val = code_of(w->ctx->get(to_location(p)));
        r.ret = stamp++;
        ex.ops.push_back(r);
      }
      auto read_obj = [&](flog::object &ob, path const &p) {
        oprec r;
        r.thread = vt;
        r.idx = idx++;
        r.o = opd{'P', 0};
        r.objpath = p;
        r.call = stamp++;
        r.val = code_of(ob.level());
        r.ret = stamp++;
        ex.ops.push_back(r);
      };
      if (w->preobj)
        read_obj(*w->preobj, LOCS[2]);
      for (std::size_t t = 0; t < w->own.size(); ++t)
        for (std::size_t j = 0; j < w->own[t].size(); ++j)
          read_obj(*w->own[t][j], w->ownpath[t][j]);
    };
    auto final_set = [&](path const &p, int lvl) {
      oprec r;
      r.thread = vt;
      r.idx = idx++;
      r.o = opd{'S', 0};
      r.loc = p;
      r.set_level = lvl;
      r.call = stamp++;
      w->ctx->set(to_location(p), lvl_of(lvl));
      r.ret = stamp++;
      ex.ops.push_back(r);
    };
    observe_all();
    final_set(LOCS[2], 4);
    observe_all();
    final_set(LOCS[1], 3);
    observe_all();
  }
  // teardown by the coordinator: objects first, then the context
  for (auto &v : w->own)
    v.clear();
  w->preobj.reset();
  w->ctx.reset();
  return ex;
}

// ---- reference + linearizability ----------------------------------------------------
static bool is_prefix(path const &a, path const &b) { return a.size() <= b.size() && std::equal(a.begin(), a.end(), b.begin()); }

struct ref_state
{
  std::vector<std::pair<path, int>> sets;
  int lookup(path const &p) const
  {
    int r = 3;
    for (auto const &s : sets)
      if (is_prefix(s.first, p))
        r = s.second;
    return r;
  }
};

struct lin_check
{
  std::vector<oprec> const &ops;
  std::vector<int> mut, reads; // indices into ops
  std::vector<char> placed;
  ref_state st;
  bool full_ok = false;
  std::vector<char> read_ok;

  explicit lin_check(std::vector<oprec> const &o, int pre) : ops(o)
  {
    for (std::size_t i = 0; i < ops.size(); ++i)
      (ops[i].o.kind == 'R' || ops[i].o.kind == 'P' ? reads : mut).push_back(static_cast<int>(i));
    placed.assign(ops.size(), 0);
    read_ok.assign(reads.size(), 0);
    if (pre == 1)
      st.sets.emplace_back(LOCS[2], 4);
    if (pre == 3)
      for (path const &p : full_tree())
        if (p.size() == 3)
          st.sets.emplace_back(p, 4); // the pre-history set every leaf; inner nodes keep the root default
  }
  // a must precede b?
  bool before(int a, int b) const
  {
    oprec const &x = ops[static_cast<std::size_t>(a)], &y = ops[static_cast<std::size_t>(b)];
    if (x.thread == y.thread)
      return x.idx < y.idx;
    return x.ret <= y.call;
  }
  void try_reads()
  {
    for (std::size_t k = 0; k < reads.size(); ++k)
    {
      if (read_ok[k])
        continue;
      int const r = reads[k];
      bool ok = true;
      for (int m : mut)
      {
        bool const in = placed[static_cast<std::size_t>(m)] != 0;
        if (before(m, r) && !in)
          ok = false;
        if (before(r, m) && in)
          ok = false;
      }
      if (ok && st.lookup(ops[static_cast<std::size_t>(r)].objpath) == ops[static_cast<std::size_t>(r)].val)
        read_ok[k] = 1;
    }
  }
  void rec(std::size_t n_placed, bool gets_ok)
  {
    try_reads();
    if (n_placed == mut.size())
    {
      if (gets_ok)
        full_ok = true;
      return;
    }
    for (int m : mut)
    {
      if (placed[static_cast<std::size_t>(m)])
        continue;
      bool ready = true;
      for (int q : mut)
        if (q != m && !placed[static_cast<std::size_t>(q)] && before(q, m))
          ready = false;
      if (!ready)
        continue;
      oprec const &o = ops[static_cast<std::size_t>(m)];
      placed[static_cast<std::size_t>(m)] = 1;
      bool ok = gets_ok;
      std::size_t const sz = st.sets.size();
      if (o.o.kind == 'S')
        st.sets.emplace_back(o.loc, o.set_level);
      else if (o.o.kind == 'G' && st.lookup(o.loc) != o.val)
        ok = false;
      rec(n_placed + 1, ok);
      st.sets.resize(sz);
      placed[static_cast<std::size_t>(m)] = 0;
    }
  }
  bool run()
  {
    rec(0, true);
    for (char c : read_ok)
      if (!c)
        return false;
    return full_ok;
  }
};

static std::string obs_key(std::vector<oprec> const &ops)
{
  std::string k;
  for (oprec const &r : ops)
    k += std::string(1, r.o.kind) + std::to_string(r.o.arg) + ":" + std::to_string(r.val) + ",";
  k += "#";
  for (oprec const &r : ops)
  {
    for (int n : (r.o.kind == 'S' || r.o.kind == 'G') ? r.loc : r.objpath)
      k += static_cast<char>('a' + n);
    k += '/';
  }
  k += "|";
  for (std::size_t a = 0; a < ops.size(); ++a)
    for (std::size_t b = 0; b < ops.size(); ++b)
      if (ops[a].thread != ops[b].thread)
        k += ops[a].ret <= ops[b].call ? '<' : '.';
  return k;
}
static std::string values_only(std::vector<oprec> const &ops)
{
  std::string k;
  for (oprec const &r : ops)
    if (r.val >= 0)
      k += std::to_string(r.val);
  return k;
}

static std::string strip_offset(std::string s)
{
  std::size_t p = s.find("+0x");
  if (p != std::string::npos)
    s.resize(p);
  p = s.find("pc=0x");
  if (p != std::string::npos)
    s = "?";
  return s;
}

// ---- exploring one unit ---------------------------------------------------------------
static int BOUND = 2;

static void check_execution(unit const &u, execution const &ex, std::unordered_map<std::string, bool> &cache)
{
  if (ex.res.diverged)
    vrt::fail("harness:replay_divergence", "the branching structure changed while replaying a schedule prefix");
  for (auto const &r : ex.res.races)
    vrt::fail("race:" + r.what + ":" + strip_offset(r.where_a) + ":" + strip_offset(r.where_b),
              vrt::fmt("data race (%s) on address 0x%lx between T%d at %s and T%d at %s", r.what.c_str(), static_cast<unsigned long>(r.addr),
                       r.tid_a, r.where_a.c_str(), r.tid_b, r.where_b.c_str()));
  for (auto const &n : ex.res.notes)
    vrt::count("note:" + n);
  std::string const key = obs_key(ex.ops);
  auto it = cache.find(key);
  bool ok;
  if (it != cache.end())
    ok = it->second;
  else
  {
    lin_check lc(ex.ops, u.pre);
    ok = lc.run();
    if (!ok)
    {
      // tell (b) from (c) in the signature
      bool reads_ok = true;
      for (char c : lc.read_ok)
        reads_ok = reads_ok && c;
      std::string detail;
      for (oprec const &r : ex.ops)
        detail += vrt::fmt("T%d:%c%d[%llu,%llu]%s ", r.thread + 1, r.o.kind, r.o.arg, static_cast<unsigned long long>(r.call),
                           static_cast<unsigned long long>(r.ret), r.val >= 0 ? ("=" + std::to_string(r.val)).c_str() : "");
      if (!lc.full_ok)
        vrt::fail("linearizability:set_get", "results of the mutex-protected calls admit no sequential order: " + detail);
      if (!reads_ok)
        vrt::fail("observed_level:not_producible", "a level read through a log object is produced by no sequential order: " + detail);
    }
    cache.emplace(key, ok);
  }
}

static void explore_unit(std::string const &shard, unit const &u)
{
  std::unordered_map<std::string, bool> cache;
  std::map<std::string, int> outcomes;
  vsched::explore_stats st;
  std::string const ud = show_unit(u);
  bool first = true;
  std::uint64_t first_hash = 0;
  std::string first_vals;
  auto exec = [&](std::vector<vsched::choice> const &prefix) -> vsched::exec_result {
    vrt::state &S = vrt::S();
    bool const fresh = vrt::begin_text(shard.c_str(), ud + " | sched: " + vsched::show(prefix));
    if (!fresh && S.page->index == S.resume_after && S.resume_after != 0)
      return vsched::exec_result(); // this schedule killed the previous incarnation: do not run it again, do not expand it
    S.muted = !fresh;
    execution ex = execute(u, prefix);
    check_execution(u, ex, cache);
    ++outcomes[values_only(ex.ops)];
    if (fresh)
      vrt::nontrivial(ex.res.preemptions > 0);
    if (first)
    {
      // determinism self-test: the default schedule run twice must give the same operation stream and observations
      first = false;
      first_hash = ex.res.stream_hash;
      first_vals = obs_key(ex.ops);
      execution ex2 = execute(u, prefix);
      if (ex2.res.stream_hash != first_hash || obs_key(ex2.ops) != first_vals)
        vrt::fail("harness:nondeterministic_replay", "the same schedule gave a different operation stream or different observations");
    }
    S.muted = false;
    return ex.res;
  };
  vsched::explore(
      BOUND, exec, [](vsched::exec_result const &, std::vector<vsched::choice> const &) { return !vrt::out_of_time(); }, st);
  vrt::count("schedules", st.executions);
  vrt::count("traces_validated_against_impl", st.executions);
  vrt::count("sched_points", st.points);
  vrt::count("branching_points", st.branching_points);
  for (int i = 0; i < 8; ++i)
    if (st.by_preemptions[i])
      vrt::count("schedules_with_" + std::to_string(i) + "_preemptions", st.by_preemptions[i]);
  vrt::count("program_tuples", 1);
  vrt::count("distinct_outcome_vectors", outcomes.size());
  if (outcomes.size() > 1)
    vrt::count("program_tuples_with_more_than_one_outcome", 1);
  if (vrt::S().samples.size() < 6 && outcomes.size() > 1)
    vrt::S().samples.push_back(ud + " : " + std::to_string(st.executions) + " schedules, " + std::to_string(outcomes.size()) + " distinct outcome vectors");
}

// ---- program enumeration ----------------------------------------------------------------
static void gen_programs(int maxlen, bool reduced, bool with_pre_object, std::vector<program> &out)
{
  std::vector<opd> alpha;
  if (!reduced)
  {
    for (int l = 0; l < 3; ++l)
      alpha.push_back(opd{'S', l});
    for (int l = 0; l < 3; ++l)
      alpha.push_back(opd{'G', l});
    alpha.push_back(opd{'C', 0});
    alpha.push_back(opd{'C', 1});
  }
  else
  {
    alpha.push_back(opd{'S', 1});
    alpha.push_back(opd{'S', 2});
    alpha.push_back(opd{'G', 2});
    alpha.push_back(opd{'C', 1});
  }
  alpha.push_back(opd{'R', 0});
  if (with_pre_object)
    alpha.push_back(opd{'P', 0});
  std::vector<program> level = {program{}};
  for (int len = 1; len <= maxlen; ++len)
  {
    std::vector<program> next;
    for (program const &p : level)
      for (opd const &o : alpha)
      {
        if (o.kind == 'R')
        {
          bool has_c = false;
          for (opd const &q : p)
            has_c = has_c || q.kind == 'C';
          if (!has_c)
            continue;
        }
        program n = p;
        n.push_back(o);
        next.push_back(n);
        out.push_back(n);
      }
    level = next;
  }
}

static bool has_writer(unit const &u)
{
  for (auto const &p : u.progs)
    for (opd const &o : p)
      if (o.kind == 'S' || o.kind == 'C')
        return true;
  return false;
}

static int TOTAL_OPS_CAP = 1000;

static int FAMILY_KIND = 0; // 0 ordinary, 1 big tree (pre-history 3, set-only programs), 2 create-only

static std::vector<unit> make_units(int nthreads, int maxlen, bool reduced)
{
  std::vector<unit> us;
  for (int pre = (FAMILY_KIND == 1 ? 3 : 0); pre < (FAMILY_KIND == 1 ? 4 : 3); ++pre)
  {
    std::vector<program> progs;
    if (FAMILY_KIND == 1)
      progs = {program{opd{'S', 0}}, program{opd{'S', 1}}, program{opd{'S', 2}}, program{opd{'S', 1}, opd{'G', 2}}};
    else if (FAMILY_KIND == 2)
      progs = {program{opd{'C', 1}}, program{opd{'C', 2}}, program{opd{'C', 0}}, program{opd{'S', 2}}, program{opd{'S', 1}}};
    else
      gen_programs(maxlen, reduced, pre == 2, progs);
    std::vector<std::size_t> idx(static_cast<std::size_t>(nthreads), 0);
    for (;;)
    {
      unit u;
      u.pre = pre;
      for (int t = 0; t < nthreads; ++t)
        u.progs.push_back(progs[idx[static_cast<std::size_t>(t)]]);
      std::size_t total_ops = 0;
      for (auto const &pr : u.progs)
        total_ops += pr.size();
      if (has_writer(u) && total_ops <= static_cast<std::size_t>(TOTAL_OPS_CAP))
        us.push_back(u);
      int k = nthreads - 1;
      while (k >= 0 && ++idx[static_cast<std::size_t>(k)] == progs.size())
        idx[static_cast<std::size_t>(k--)] = 0;
      if (k < 0)
        break;
    }
  }
  return us;
}

static void add_family(std::string const &name, int nthreads, int maxlen, bool reduced, int bound, int nshards, std::size_t stride, int total_ops_cap = 1000,
                       int family_kind = 0)
{
  for (int sh = 0; sh < nshards; ++sh)
    vrt::shard(name + "/" + std::to_string(sh), [=] {
      BOUND = bound;
      TOTAL_OPS_CAP = total_ops_cap;
      FAMILY_KIND = family_kind;
      std::vector<unit> const us = make_units(nthreads, maxlen, reduced);
      std::string const shard = name + "/" + std::to_string(sh);
      if (vrt::S().cfg.replay)
      {
        // replay one schedule: text = "<unit> | sched: <choices>"
        std::string const &t = vrt::S().cfg.replay_text;
        std::size_t bar = t.find(" | sched: ");
        if (bar == std::string::npos)
          return;
        std::string const ud = t.substr(0, bar);
        for (unit const &u : us)
          if (show_unit(u) == ud)
          {
            std::unordered_map<std::string, bool> cache;
            vrt::begin_text(shard.c_str(), t);
            execution ex = execute(u, vsched::parse_choices(t.substr(bar + 10)));
            check_execution(u, ex, cache);
            std::printf("replayed %s: %llu points, %d preemptions, %zu race(s)\n", t.c_str(), static_cast<unsigned long long>(ex.res.points),
                        ex.res.preemptions, ex.res.races.size());
            return;
          }
        return;
      }
      for (std::size_t i = 0; i < us.size(); ++i)
      {
        if (i % stride != 0) // stride 1 = every unit; the quick tier may take every k-th unit of a big family
          continue;
        if ((i / stride) % static_cast<std::size_t>(nshards) != static_cast<std::size_t>(sh))
          continue;
        if (vrt::out_of_time())
          return;
        explore_unit(shard, us[i]);
      }
    }, 60);
}

int main(int argc, char **argv)
{
  vrt::parse_args(argc, argv);
  bool const th = vrt::thorough();
  // family A: 2 threads, up to 2 operations each, full alphabet
  add_family("t2_len2", 2, 2, false, th ? 3 : 2, 32, 1);
  // family B: 3 threads, 1 operation each
  add_family("t3_len1", 3, 1, false, 2, 32, 1);
  // family E: two overlapping sets on a tree of 40 nodes (a set visits up to 40 nodes under the lock)
  add_family("big_tree_sets", 2, 1, false, 2, 16, 1, 1000, 1);
  // family F: 3 threads creating objects below one node (same and different new names), plus sets
  add_family("t3_create", 3, 1, false, th ? 3 : 2, 16, 1, 1000, 2);
  // family C (thorough): 2 threads, up to 3 operations each, reduced alphabet
  if (th)
    add_family("t2_len3_reduced", 2, 3, true, 2, 32, 1);
  // family D (thorough): 3 threads, at most 4 operations in total (one thread may do two), reduced alphabet
  if (th)
    add_family("t3_total4_reduced", 3, 2, true, 2, 32, 1, 4);
  return vrt::run(argc, argv);
}

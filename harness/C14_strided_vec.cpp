// C14_strided_vec.cpp -- vectors of dimension 2 and 3 over non-contiguous storages
#include "C14_strided_vecdim.hpp"

namespace c14
{
using namespace noncontig;

void register_strided_vec()
{
  vrt::shard("noncontiguous/vector2_3", [] {
    all_pairs<vec_k, 2>({-1, 0, 1, 2});
    all_pairs<vec_k, 3>({-1, 0, 2});
  });
}
}

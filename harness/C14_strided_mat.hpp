// C14_strided_mat.hpp -- matrices over non-contiguous view storages (a pitched block of a
// wider row-major array, a strided element sequence; see C14_strided.hpp): every generic
// entry point against plain arrays.  Used by C14_strided_mat2.cpp / C14_strided_mat3.cpp.
#pragma once
#include "C14_matrix.hpp"
#include "C14_strided.hpp"

#include <fcppt/math/vector/comparison.hpp>

namespace c14
{
namespace noncontig
{
template <sz R, sz C, class Kind> using mobj = fm::object<I, R, C, typename Kind::storage>;

template <sz R, sz C> rvec<C> row_of(rmat<R, C> const &a, sz r)
{
  rvec<C> v;
  for (sz c = 0; c < C; ++c)
    v[c] = a.at(r, c);
  return v;
}

// X: the matrix a behind storage kind KX; Y: the matrix b behind storage kind KY
template <sz R, sz C, class KX, class KY> void strided_matrix_pair(rmat<R, C> const &a, rmat<R, C> const &b, int mode)
{
  static std::string const fn = "noncontiguous_matrix<" + shape(R, C) + "," + KX::name() + "," + KY::name() + ">";
  static std::string const sg = std::string("noncontiguous_matrix"); // signatures: function group only; dimension and storages are in the case text
  if (!vrt::begin_text(fn.c_str(), fn + " decoys=" + (mode == 0 ? "differ" : "mirror") + " A=" + show(a) + " B=" + show(b)))
    return;
  int differing = 0;
  for (sz i = 0; i < R * C; ++i)
    differing += a.d[i] != b.d[i];
  vrt::nontrivial(differing <= 1 || (!rmzero(a) && !rmzero(b)));
  vrt::maybe_sample();
  KX bx;
  KY by;
  bx.b.fill(a.d, mode, b.d);
  by.b.fill(b.d, mode, a.d);
  std::vector<long> const rawx = bx.b.raw(), rawy = by.b.raw();
  mobj<R, C, KX> const X{bx.make()};
  mobj<R, C, KY> const Y{by.make()};
  smat<R, C> const sa = mk_s(a), sb = mk_s(b);
  buf<R * C> const pb = mk_buf(b);
  vmat<R, C> const vb = pb.template mat<R, C>();
  bool const eq = a == b;
  // ---- comparison
  C14_TRUE((X == sb) == eq, sg + ":eq", "X==B wrong");
  C14_TRUE((sb == X) == eq, sg + ":eq", "B==X wrong");
  C14_TRUE((X == vb) == eq, sg + ":eq", "X==B (pointer view) wrong");
  C14_TRUE((vb == X) == eq, sg + ":eq", "B (pointer view)==X wrong");
  C14_TRUE((X == Y) == eq && (Y == X) == eq, sg + ":eq", "X==Y wrong");
  C14_TRUE(X == X && X == sa && sa == X, sg + ":eq", "X != its own elements");
  C14_TRUE((X != sb) == !eq && (sb != X) == !eq, sg + ":ne", "X!=B wrong");
  C14_TRUE((X != Y) == !eq, sg + ":ne", "X!=Y wrong");
  C14_TRUE(!(X != sa), sg + ":ne", "X != its own elements");
  // ---- arithmetic
  rmat<R, C> const sum = radd(a, b), diff = rsub(a, b);
  C14_EQ(rd(X + sb), sum, sg + ":add", "X+B");
  C14_EQ(rd(sa + Y), sum, sg + ":add", "A+Y");
  C14_EQ(rd(X + Y), sum, sg + ":add", "X+Y");
  C14_EQ(rd(X - sb), diff, sg + ":sub", "X-B");
  C14_EQ(rd(sa - Y), diff, sg + ":sub", "A-Y");
  C14_EQ(rd(X - Y), diff, sg + ":sub", "X-Y");
  C14_EQ(rd(X * 3), rscal(3, a), sg + ":scalar:right", "X*3");
  C14_EQ(rd(-2 * X), rscal(-2, a), sg + ":scalar:left", "-2*X");
  C14_EQ(rd(fm::transpose(X)), rtrans(a), sg + ":transpose", "transpose(X)");
  {
    // X * Y^T (RxC * CxR) with the transposed operand static, and the transposed view as left operand
    auto const yt = fm::transpose(Y);
    if constexpr (tall_left_ok(R, C))
      C14_EQ(rd(X * yt), rmul(a, rtrans(b)), sg + ":product", "X*transpose(Y)");
    if constexpr (tall_left_ok(C, R))
      C14_EQ(rd(yt * X), rmul(rtrans(b), a), sg + ":product", "transpose(Y)*X");
  }
  if constexpr (R == C)
  {
    C14_EQ(rd(X * Y), rmul(a, b), sg + ":product", "X*Y");
    C14_EQ(rd(sa * Y), rmul(a, b), sg + ":product", "A*Y");
    C14_EQ(static_cast<long>(fm::determinant(X)), rdet(a), sg + ":determinant", "determinant(X)");
    C14_EQ(rd(fm::adjugate(X)), radj(a), sg + ":adjugate", "adjugate(X)");
    long const det = rdet(a);
    // inverse = (1/det)*adjugate: only where fcppt's determinant is the right unit (otherwise 1/det may be a division by zero
    // that is merely a consequence of the determinant error reported above)
    if ((det == 1 || det == -1) && static_cast<long>(fm::determinant(X)) == det)
      C14_EQ(rd(fm::inverse(X)), rscal(det, radj(a)), sg + ":inverse", "inverse(X)");
    C14_EQ(rd(fm::identity<mobj<R, C, KX>>() * X), a, sg + ":identity", "identity*X");
  }
  if constexpr (R >= 2 && C >= 2)
    static_for_rc<R, C>([&](auto ri, auto ci) {
      constexpr sz r = decltype(ri)::value, c = decltype(ci)::value;
      C14_EQ(rd(fm::delete_row_and_column<r, c>(X)), rminor(a, r, c), sg + ":delete_row_and_column", "delete_row_and_column(X)");
    });
  // ---- element and row access
  static_for_rc<R, C>([&](auto ri, auto ci) {
    constexpr sz r = decltype(ri)::value, c = decltype(ci)::value;
    C14_EQ(static_cast<long>(fm::at_r_c<r, c>(X)), a.at(r, c), sg + ":at_r_c", "at_r_c(X)");
    C14_EQ(static_cast<long>(mxy<r, c>(X)), a.at(r, c), sg + ":mRC", "X.mRC()");
    C14_EQ(static_cast<long>(X.get_unsafe(r).get_unsafe(c)), a.at(r, c), sg + ":get_unsafe", "X.get_unsafe(r).get_unsafe(c)");
  });
  rvec<C> const x = row_of(b, 0); // a vector operand: the first row of B
  svec<C> const sx = mk_sv<svec<C>>(x);
  static_for<R>([&](auto ri) {
    constexpr sz r = decltype(ri)::value;
    rvec<C> const want = row_of(a, r);
    svec<C> const wv = mk_sv<svec<C>>(want);
    auto const row = fm::at_r<r>(X);
    auto const yrow = fm::at_r<0>(Y);
    C14_TRUE(row == wv && wv == row && !(row != wv), sg + ":row_view:eq", "row view of X != the row");
    C14_TRUE((row == yrow) == (want == x) && (row == sx) == (want == x), sg + ":row_view:eq", "row_r(X)==row_0(Y) wrong");
    C14_TRUE((row < sx) == (want < x) && (sx < row) == (x < want), sg + ":row_view:less", "row_r(X)<x wrong");
    C14_EQ(rdv(svec<C>(row)), want, sg + ":row_view:copy", "static vector copied from a row view of X");
    C14_EQ(rdv(row + yrow), rvadd(want, x), sg + ":row_view:add", "row_r(X)+row_0(Y)");
    C14_EQ(rdv(row * 2 - sx), rvsub(rvscal(2, want), x), sg + ":row_view:arithmetic", "row_r(X)*2-x");
    C14_EQ(static_cast<long>(fv::dot(row, yrow)), rvdot(want, x), sg + ":row_view:dot", "dot(row_r(X),row_0(Y))");
  });
  // ---- matrix * vector (static vector, strided vector)
  {
    strided_kind<C, 2> bv;
    bv.b.fill(x, mode, row_of(a, 0));
    fv::object<I, C, typename strided_kind<C, 2>::storage> const xs{bv.make()};
    rvec<R> const want = rmulvec(a, x);
    C14_EQ(rdv(X * sx), want, sg + ":matrix_vector", "X*x");
    C14_EQ(rdv(X * xs), want, sg + ":matrix_vector", "X*x (strided x)");
    C14_EQ(rdv(sa * xs), want, sg + ":matrix_vector", "A*x (strided x)");
  }
  // ---- conversions
  C14_EQ(rd(smat<R, C>(X)), a, sg + ":copy:view_to_static", "static matrix constructed from X");
  {
    smat<R, C> t = mk_s(rzero<R, C>());
    t = X;
    C14_EQ(rd(t), a, sg + ":assign:view_to_static", "static matrix assigned from X");
  }
  {
    using lmat = fm::static_<long, R, C>;
    C14_EQ(rd(fm::structure_cast<lmat, fcppt::cast::static_cast_fun>(X)), a, sg + ":structure_cast", "structure_cast<long>(X)");
  }
  C14_EQ(bx.b.raw(), rawx, sg + ":readonly_wrote", "a read-only operation changed the buffer behind X");
  C14_EQ(by.b.raw(), rawy, sg + ":readonly_wrote", "a read-only operation changed the buffer behind Y");
  // ---- writes through the view: exactly the viewed positions change
  {
    KX bt;
    bt.b.fill(a.d, mode, b.d);
    mobj<R, C, KX> T{bt.make()};
    T += sb;
    C14_EQ(bt.b.raw(), bt.b.with(rawx, sum.d), sg + ":add_assign:view_static", "X+=B");
    T -= Y;
    C14_EQ(bt.b.raw(), rawx, sg + ":sub_assign:view_view", "(X+=B)-=Y");
    T *= 3;
    C14_EQ(bt.b.raw(), bt.b.with(rawx, rscal(3, a).d), sg + ":scalar_assign", "X*=3");
    T = sb;
    C14_EQ(bt.b.raw(), bt.b.with(rawx, b.d), sg + ":assign:static_to_view", "X=B");
  }
  {
    KX bt;
    bt.b.fill(a.d, mode, b.d);
    mobj<R, C, KX> T{bt.make()};
    T = Y;
    C14_EQ(bt.b.raw(), bt.b.with(rawx, b.d), sg + ":assign:other_view_to_view", "X=Y");
    if constexpr (int_writes_ok)
    static_for_rc<R, C>([&](auto ri, auto ci) {
      constexpr sz r = decltype(ri)::value, c = decltype(ci)::value;
      rmat<R, C> nv = b;
      nv.at(r, c) = 7;
      fm::at_r_c<r, c>(T) = 7;
      C14_EQ(bt.b.raw(), bt.b.with(rawx, nv.d), sg + ":write:at_r_c", "at_r_c(X)=7");
      T.get_unsafe(r).get_unsafe(c) = static_cast<I>(b.at(r, c));
      C14_EQ(bt.b.raw(), bt.b.with(rawx, b.d), sg + ":write:get_unsafe", "X.get_unsafe(r).get_unsafe(c)=...");
    });
    // a mutable row view of the last row: row += x changes exactly that row
    auto row = fm::at_r<R - 1>(T);
    row += sx;
    rmat<R, C> nv = b;
    for (sz c = 0; c < C; ++c)
      nv.at(R - 1, c) += x[c];
    C14_EQ(bt.b.raw(), bt.b.with(rawx, nv.d), sg + ":write:row_view", "at_r<last>(X)+=x");
    smat<R, C> m = sa;
    m += Y;
    C14_EQ(rd(m), sum, sg + ":add_assign:static_view", "A+=Y");
    m -= X;
    C14_EQ(rd(m), b, sg + ":sub_assign:static_view", "(A+=Y)-=X");
  }
  C14_EQ(by.b.raw(), rawy, sg + ":readonly_wrote", "an operation with Y as right operand changed the buffer behind Y");
}

template <sz R, sz C> void matrix_pairs(std::vector<rmat<R, C>> const &fam, unsigned part, unsigned nparts)
{
  std::size_t i = 0;
  for (auto const &a : fam)
  {
    if (i++ % nparts != part)
      continue;
    if (vrt::out_of_time())
      return;
    for (auto const &b : fam)
      for (int mode = 0; mode < 2; ++mode)
      {
        strided_matrix_pair<R, C, block_kind<R, C, C + 1>, strided_kind<R * C, 2>>(a, b, mode);
        strided_matrix_pair<R, C, strided_kind<R * C, 2>, block_kind<R, C, C + 2>>(a, b, mode);
      }
  }
}
}
}

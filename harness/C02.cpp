// C02 main: dynamic (type-erased) grammar family, char instantiation + shard registration.
#include "C02_family.hpp"

namespace c02
{
void register_wchar(bool thorough);
}

int main(int argc, char **argv)
{
  vrt::parse_args(argc, argv);
  bool const th = vrt::thorough();
  int const maxn = th ? 4 : 3;
  // quick tier: every skipper for grammars of up to 2 nodes, five of them for 3 nodes
  std::vector<int> const sk_mid{c02::SK_EPSILON, c02::SK_SPACE, c02::SK_LIT_SPACE, c02::SK_CS_SPACE, c02::SK_REP_SEQ};
  std::vector<int> const sk_all{c02::SK_EPSILON, c02::SK_SPACE, c02::SK_CS_SPACE, c02::SK_LIT_SPACE, c02::SK_REP_LIT, c02::SK_SEQ_LIT_LIT, c02::SK_REP_SEQ, c02::SK_SEQ_CS_LIT, c02::SK_REP_CS};
  for (int n = 1; n <= maxn; ++n)
  {
    std::size_t const parts = n <= 2 ? 1 : (n == 3 ? 8 : 32);
    for (std::size_t p = 0; p < parts; ++p)
      vrt::shard("char/nodes" + std::to_string(n) + "/" + std::to_string(p), [=] {
        auto const by = c02::all_by_size(n);
        c02::run_block<char>("parse<char>", by[static_cast<std::size_t>(n)], p, parts, (th || n <= 2) ? sk_all : sk_mid, th ? 5 : 4, th ? 4 : 3, n <= (th ? 3 : 2));
      }, 120);
  }
  c02::register_wchar(th);
  return vrt::run(argc, argv);
}

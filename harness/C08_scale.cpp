// C08, part 4: the same laws at large extents and coordinates, where nothing can be allocated or iterated in
// full: sizes and (min, sup) pairs from a boundary lattice of the size type (0..3, 2^k-1, 2^k, 2^k+1 for k =
// 4, 8, 16, 31, 32, 63, the maximum).  contents / range_size / pos_range::size() / range_dim / offset /
// in_range_dim / min_less_sup are closed-form and are compared with 128-bit arithmetic whenever the exact result
// is representable in the size type; iteration (pos_range, next_position) is checked on windows of at most 2
// positions per axis placed at lattice coordinates, against the explicit nested loop.  The grid's own
// move/copy/swap operations between small grids (including an object and itself) are checked here as well.
#include <C08_common.hpp>

#include <fcppt/container/grid/in_range_dim.hpp>
#include <fcppt/container/grid/make_pos_range.hpp>
#include <fcppt/container/grid/make_pos_range_start_end.hpp>
#include <fcppt/container/grid/min.hpp>
#include <fcppt/container/grid/min_less_sup.hpp>
#include <fcppt/container/grid/next_position.hpp>
#include <fcppt/container/grid/object.hpp>
#include <fcppt/container/grid/offset.hpp>
#include <fcppt/container/grid/pos_range.hpp>
#include <fcppt/container/grid/range_dim.hpp>
#include <fcppt/container/grid/range_size.hpp>
#include <fcppt/container/grid/sup.hpp>
#include <fcppt/math/dim/contents.hpp>

#include <limits>
#include <set>
#include <utility>

namespace c08
{
namespace
{
using u128 = unsigned __int128;
using U3 = std::array<u128, 3>;

std::string show_u(u128 v)
{
  if (v == 0)
    return "0";
  std::string r;
  while (v)
  {
    r.insert(r.begin(), char('0' + int(v % 10)));
    v /= 10;
  }
  return r;
}
std::string show_u3(std::size_t N, U3 const &a)
{
  std::string r = "(";
  for (std::size_t i = 0; i < N; ++i)
    r += (i ? "," : "") + show_u(a[i]);
  return r + ")";
}

template <class S> std::vector<u128> lattice()
{
  std::set<u128> s{0, 1, 2, 3};
  u128 const mx = std::numeric_limits<S>::max();
  for (int k : {4, 8, 16, 31, 32, 63})
    for (int d = -1; d <= 1; ++d)
    {
      u128 const v = (u128(1) << k) + u128(d);
      if (v <= mx)
        s.insert(v);
    }
  s.insert(mx);
  s.insert(mx - 1);
  return std::vector<u128>(s.begin(), s.end());
}

template <class S, std::size_t N> g::pos<S, N> upos(U3 const &a)
{
  if constexpr (N == 1)
    return g::pos<S, 1>(static_cast<S>(a[0]));
  else if constexpr (N == 2)
    return g::pos<S, 2>(static_cast<S>(a[0]), static_cast<S>(a[1]));
  else
    return g::pos<S, 3>(static_cast<S>(a[0]), static_cast<S>(a[1]), static_cast<S>(a[2]));
}
template <class S, std::size_t N> g::dim<S, N> udim(U3 const &a)
{
  if constexpr (N == 1)
    return g::dim<S, 1>(static_cast<S>(a[0]));
  else if constexpr (N == 2)
    return g::dim<S, 2>(static_cast<S>(a[0]), static_cast<S>(a[1]));
  else
    return g::dim<S, 3>(static_cast<S>(a[0]), static_cast<S>(a[1]), static_cast<S>(a[2]));
}

template <std::size_t N, class F> void for_tuples(std::vector<u128> const &l, F const &f)
{
  std::size_t const n = l.size();
  std::size_t total = 1;
  for (std::size_t i = 0; i < N; ++i)
    total *= n;
  for (std::size_t t = 0; t < total; ++t)
  {
    U3 a{1, 1, 1};
    std::size_t r = t;
    for (std::size_t i = 0; i < N; ++i)
    {
      a[i] = l[r % n];
      r /= n;
    }
    f(a);
  }
}

// product of the first N components if every partial product is representable in S
template <class S> bool product_fits(std::size_t N, U3 const &a, u128 &out)
{
  u128 const mx = std::numeric_limits<S>::max();
  u128 p = 1;
  for (std::size_t i = 0; i < N; ++i)
  {
    if (a[i] != 0 && p > mx / a[i])
    {
      // a later zero extent still makes the exact result 0, but the library may legitimately wrap on the way
      return false;
    }
    p *= a[i];
  }
  out = p;
  return true;
}

template <class S> struct sn;
template <> struct sn<unsigned>
{
  static constexpr char const *v = "unsigned";
};
template <> struct sn<std::size_t>
{
  static constexpr char const *v = "size_t";
};
template <> struct sn<unsigned char>
{
  static constexpr char const *v = "uchar";
};
template <class S, std::size_t N> std::string inst(char const *f) { return std::string(f) + "<" + sn<S>::v + "," + std::to_string(N) + ">@scale"; }

template <class S, std::size_t N> void closed_forms()
{
  static std::string const fc = inst<S, N>("contents"), fo = inst<S, N>("offset"), fs = inst<S, N>("range_size"), fd = inst<S, N>("range_dim"),
                           fp = inst<S, N>("pos_range::size"), fi = inst<S, N>("in_range_dim"), fl = inst<S, N>("min_less_sup");
  constexpr bool wide = sizeof(S) >= sizeof(int);
  u128 const mx = std::numeric_limits<S>::max();
  auto const lat = lattice<S>();
  for_tuples<N>(lat, [&](U3 const &sz) {
    u128 content = 0;
    bool const fits = product_fits<S>(N, sz, content);
    std::string const d = " size=" + show_u3(N, sz);
    auto const dim = udim<S, N>(sz);
    if (fits && vrt::begin_text(fc.c_str(), fc + d))
    {
      vrt::nontrivial(content > 0xffffu);
      vrt::maybe_sample();
      S const c = fcppt::math::dim::contents(dim);
      VRT_CHECK(u128(c) == content, fc + ":wrong", "got %s want %s", show_u(c).c_str(), show_u(content).c_str());
    }
    if constexpr (wide)
    {
      if (fits && vrt::begin_text(fp.c_str(), fp + d))
      {
        vrt::nontrivial(content > 0xffffu);
        auto const r = g::make_pos_range(dim);
        VRT_CHECK(u128(r.size()) == content, fp + ":wrong", "size() = %s, the range has %s positions", show_u(r.size()).c_str(), show_u(content).c_str());
      }
    }
    // offset of the last position and of the unit steps
    if (fits && content > 0 && vrt::begin_text(fo.c_str(), fo + d))
    {
      vrt::nontrivial(content > 0xffffu);
      U3 last{0, 0, 0};
      for (std::size_t i = 0; i < N; ++i)
        last[i] = sz[i] - 1;
      S const o = g::offset(upos<S, N>(last), dim);
      VRT_CHECK(u128(o) == content - 1, fo + ":last", "offset of the last position %s is %s, want %s", show_u3(N, last).c_str(), show_u(o).c_str(),
                show_u(content - 1).c_str());
      u128 stride = 1;
      for (std::size_t i = 0; i < N; ++i)
      {
        if (sz[i] >= 2)
        {
          U3 p{0, 0, 0};
          p[i] = 1;
          S const oi = g::offset(upos<S, N>(p), dim);
          VRT_CHECK(u128(oi) == stride, fo + ":stride", "offset of the unit step on axis %zu is %s, want %s", i, show_u(oi).c_str(), show_u(stride).c_str());
        }
        stride *= sz[i];
      }
    }
    // in_range_dim just inside / on / beyond each axis
    if (vrt::begin_text(fi.c_str(), fi + d))
    {
      vrt::nontrivial(true);
      for (std::size_t i = 0; i < N; ++i)
        for (int delta = -1; delta <= 1; ++delta)
        {
          if ((delta < 0 && sz[i] == 0) || (delta > 0 && sz[i] == mx))
            continue;
          U3 p{0, 0, 0};
          p[i] = sz[i] + u128(delta);
          bool want = true;
          for (std::size_t j = 0; j < N; ++j)
            want = want && p[j] < sz[j];
          bool const got = g::in_range_dim(dim, upos<S, N>(p));
          VRT_CHECK(got == want, fi + (want ? ":rejects_inside" : ":accepts_outside"), "pos %s: got %d want %d", show_u3(N, p).c_str(), got, want);
        }
    }
  });
  // (min, sup) pairs: min from a small lattice of bases, sup = min + extent
  std::vector<u128> const bases = [&] {
    std::vector<u128> b{0, 1, 5};
    for (u128 v : lat)
      if (v > 5)
        b.push_back(v);
    return b;
  }();
  std::vector<u128> const exts = lat;
  for_tuples<N>(exts, [&](U3 const &ext) {
    for (u128 base : bases)
      for (int shape = 0; shape < 2; ++shape) // 0: same base on every axis, 1: base only on the last axis
      {
        U3 mn{0, 0, 0}, sp{0, 0, 0};
        bool ok = true;
        for (std::size_t i = 0; i < N; ++i)
        {
          mn[i] = (shape == 0 || i + 1 == N) ? base : 0;
          if (ext[i] > mx - mn[i])
            ok = false;
          sp[i] = mn[i] + ext[i];
        }
        if (!ok || (shape == 1 && (N == 1 || base == 0)))
          continue;
        u128 content = 0;
        bool const fits = product_fits<S>(N, ext, content);
        bool nonempty = true;
        for (std::size_t i = 0; i < N; ++i)
          nonempty = nonempty && ext[i] > 0;
        if (!nonempty)
          content = 0;
        std::string const d = " min=" + show_u3(N, mn) + " sup=" + show_u3(N, sp);
        g::min<S, N> const fmin{upos<S, N>(mn)};
        g::sup<S, N> const fsup{upos<S, N>(sp)};
        if (vrt::begin_text(fl.c_str(), fl + d))
        {
          vrt::nontrivial(base > 5);
          bool const got = g::min_less_sup(fmin, fsup);
          VRT_CHECK(got == nonempty, fl + ":wrong", "got %d want %d", got, nonempty);
        }
        if constexpr (wide)
        {
          if (vrt::begin_text(fd.c_str(), fd + d))
          {
            vrt::nontrivial(base > 5 || content > 0xffffu);
            auto const got = g::range_dim(fmin, fsup);
            if (nonempty)
            {
              for (std::size_t i = 0; i < N; ++i)
                VRT_CHECK(u128(got.get_unsafe(i)) == ext[i], fd + ":wrong", "axis %zu: got %s want %s", i, show_u(got.get_unsafe(i)).c_str(), show_u(ext[i]).c_str());
            }
            else
            {
              // an empty range has a dimension without cells; that every component is 0 (today's answer) is not documented
              bool some_zero = false, all_zero = true;
              for (std::size_t i = 0; i < N; ++i)
              {
                some_zero = some_zero || got.get_unsafe(i) == 0;
                all_zero = all_zero && got.get_unsafe(i) == 0;
              }
              VRT_CHECK(some_zero, fd + ":empty_range_not_empty", "the dimension of an empty range has cells");
              if (!all_zero)
                vrt::count("info:" + fd + ":empty_range_not_null");
            }
          }
          if ((fits || !nonempty) && vrt::begin_text(fs.c_str(), fs + d))
          {
            vrt::nontrivial(content > 0xffffu);
            vrt::maybe_sample();
            S const got = g::range_size(fmin, fsup);
            VRT_CHECK(u128(got) == content, fs + ":wrong", "got %s want %s", show_u(got).c_str(), show_u(content).c_str());
            g::pos_range<S, N> const r(fmin, fsup);
            VRT_CHECK(u128(r.size()) == content, fp + ":wrong", "size() = %s, the range has %s positions", show_u(r.size()).c_str(),
                      show_u(content).c_str());
          }
        }
      }
  });
}

// iteration on small windows placed at lattice coordinates
template <class S, std::size_t N> void windows()
{
  static std::string const fn = inst<S, N>("pos_range");
  static std::string const fnn = inst<S, N>("next_position");
  constexpr bool wide = sizeof(S) >= sizeof(int);
  u128 const mx = std::numeric_limits<S>::max();
  auto const lat = lattice<S>();
  for_tuples<N>(lat, [&](U3 const &mn) {
    for (unsigned w = 0; w < (1u << (2 * N)); ++w) // two bits per axis: window width 0..3 -> 0,1,2 (3 = skip)
    {
      U3 ext{1, 1, 1}, sp{0, 0, 0};
      bool ok = true;
      for (std::size_t i = 0; i < N; ++i)
      {
        ext[i] = (w >> (2 * i)) & 3u;
        if (ext[i] == 3 || ext[i] > mx - mn[i])
          ok = false;
        sp[i] = mn[i] + ext[i];
      }
      if (!ok)
        continue;
      if (!vrt::begin_text(fn.c_str(), fn + " min=" + show_u3(N, mn) + " sup=" + show_u3(N, sp)))
        continue;
      // reference: explicit nested loops, x fastest
      std::vector<U3> ref;
      bool nonempty = true;
      for (std::size_t i = 0; i < N; ++i)
        nonempty = nonempty && ext[i] > 0;
      if (nonempty)
        for (u128 z = 0; z < (N >= 3 ? ext[2] : 1); ++z)
          for (u128 y = 0; y < (N >= 2 ? ext[1] : 1); ++y)
            for (u128 x = 0; x < ext[0]; ++x)
            {
              U3 p{mn[0] + x, 0, 0};
              if (N >= 2)
                p[1] = mn[1] + y;
              if (N >= 3)
                p[2] = mn[2] + z;
              ref.push_back(p);
            }
      vrt::nontrivial(ref.size() >= 2);
      vrt::maybe_sample();
      g::min<S, N> const fmin{upos<S, N>(mn)};
      g::sup<S, N> const fsup{upos<S, N>(sp)};
      auto const r = g::make_pos_range_start_end(fmin, fsup);
      std::size_t k = 0;
      auto const e = r.end();
      for (auto it = r.begin(); it != e; ++it, ++k)
      {
        if (k >= ref.size())
        {
          vrt::fail(fn + ":overrun", vrt::fmt("more than the %zu expected positions are visited", ref.size()));
          break;
        }
        bool same = true;
        for (std::size_t i = 0; i < N; ++i)
          same = same && u128((*it).get_unsafe(i)) == ref[k][i];
        if (!same)
        {
          vrt::fail(fn + ":order", vrt::fmt("visit #%zu differs from %s", k, show_u3(N, ref[k]).c_str()));
          break;
        }
        if (k + 1 < ref.size())
        {
          auto const nx = g::next_position(upos<S, N>(ref[k]), fmin, fsup);
          bool same_n = true;
          for (std::size_t i = 0; i < N; ++i)
            same_n = same_n && u128(nx.get_unsafe(i)) == ref[k + 1][i];
          VRT_CHECK(same_n, fnn + ":wrong", "successor of %s is not %s", show_u3(N, ref[k]).c_str(), show_u3(N, ref[k + 1]).c_str());
        }
      }
      if (k < ref.size())
        vrt::fail(fn + ":short", vrt::fmt("only %zu of %zu positions visited", k, ref.size()));
      if constexpr (wide)
        VRT_CHECK(static_cast<std::size_t>(r.size()) == ref.size(), fn + ":size", "size() = %s, visited %zu", show_u(r.size()).c_str(), ref.size());
    }
  });
}

// ---------------------------------------------------------------- grid::object value operations
// copy / move construction and assignment and swap between small grids, including an object and itself
// reached through a second name: the destination has the source's value; after an assignment of a grid to
// itself size(), content() and the stored cells still agree.  Moved-from sources are not inspected.
using grid2 = g::object<int, 2>;
grid2 make_grid(ll w, ll h, int base)
{
  return grid2(grid2::dim(static_cast<std::size_t>(w), static_cast<std::size_t>(h)),
               [base, w](grid2::pos const &p) { return base + int(p.get_unsafe(0)) + int(w) * int(p.get_unsafe(1)); });
}
bool consistent(grid2 const &gr, std::string const &sig)
{
  std::size_t const want = gr.size().get_unsafe(0) * gr.size().get_unsafe(1);
  std::size_t n = 0;
  for (auto it = gr.begin(); it != gr.end(); ++it)
    ++n;
  if (n != want || gr.content() != want)
  {
    vrt::fail(sig + ":size_storage_mismatch", vrt::fmt("size() = (%zu,%zu), content() = %zu, cells stored %zu", gr.size().get_unsafe(0), gr.size().get_unsafe(1),
                                                      gr.content(), n));
    return false;
  }
  return true;
}
bool equals(grid2 const &gr, ll w, ll h, int base)
{
  if (gr.size().get_unsafe(0) != static_cast<std::size_t>(w) || gr.size().get_unsafe(1) != static_cast<std::size_t>(h))
    return false;
  std::size_t k = 0;
  for (int v : gr)
  {
    if (v != base + int(k))
      return false;
    ++k;
  }
  return k == static_cast<std::size_t>(w * h);
}

void value_ops()
{
  static char const *const opn[] = {"copy-assign", "move-assign", "swap", "copy-construct", "move-construct"};
  for (ll w1 = 0; w1 <= 3; ++w1)
    for (ll h1 = 0; h1 <= 3; ++h1)
      for (ll w2 = 0; w2 <= 3; ++w2)
        for (ll h2 = 0; h2 <= 3; ++h2)
          for (int o = 0; o < 5; ++o)
            for (int self = 0; self < 2; ++self)
            {
              if (self && (w1 != w2 || h1 != h2 || o >= 3))
                continue;
              std::string const fn = std::string("grid::object ") + opn[o] + (self ? " (same object)" : "");
              if (!vrt::begin_text("grid_value_ops", fn + " a=" + std::to_string(w1) + "x" + std::to_string(h1) + " b=" + std::to_string(w2) + "x" + std::to_string(h2)))
                continue;
              vrt::nontrivial(w1 * h1 > 0 || w2 * h2 > 0);
              vrt::maybe_sample();
              grid2 a = make_grid(w1, h1, 100), b = make_grid(w2, h2, 500);
              grid2 &src = self ? a : b;
              ll const sw = self ? w1 : w2, sh = self ? h1 : h2;
              int const sb = self ? 100 : 500;
              std::string const sig = std::string("grid:") + opn[o] + (self ? ":self" : "");
              switch (o)
              {
              case 0:
                a = static_cast<grid2 const &>(src);
                VRT_CHECK(consistent(a, sig) && equals(a, sw, sh, sb), sig + ":wrong", "destination differs from the source's value");
                VRT_CHECK(consistent(src, sig) && equals(src, sw, sh, sb), sig + ":source_changed", "copy changed its source");
                break;
              case 1:
                a = std::move(src);
                // from another object: the destination has the source's previous value (the moved-from source is not looked at);
                // from itself: whatever the grid now holds, its size and its storage agree (every law of C08 is about such grids)
                if (consistent(a, sig) && !self)
                  VRT_CHECK(equals(a, sw, sh, sb), sig + ":wrong", "destination differs from the source's previous value");
                break;
              case 2:
              {
                using std::swap;
                swap(a, src);
                if (self)
                  VRT_CHECK(consistent(a, sig) && equals(a, w1, h1, 100), sig + ":wrong", "swap with itself changed the grid");
                else
                  VRT_CHECK(consistent(a, sig) && consistent(b, sig) && equals(a, w2, h2, 500) && equals(b, w1, h1, 100), sig + ":wrong", "swap did not exchange the values");
                break;
              }
              case 3:
              {
                grid2 const c(static_cast<grid2 const &>(b));
                VRT_CHECK(consistent(c, sig) && equals(c, w2, h2, 500) && equals(b, w2, h2, 500), sig + ":wrong", "copy differs");
                break;
              }
              default:
              {
                grid2 const c(std::move(b));
                VRT_CHECK(consistent(c, sig) && equals(c, w2, h2, 500), sig + ":wrong", "moved-to grid differs from the source's previous value");
                break;
              }
              }
              // every grid is still usable: at_optional-free access through iteration already done; assign fresh values
              a = make_grid(1, 2, 7);
              VRT_CHECK(consistent(a, sig + ":reuse") && equals(a, 1, 2, 7), sig + ":reuse", "grid unusable after the operation");
            }
}
}

void register_scale_shards()
{
  vrt::shard("scale_closed/unsigned", [] {
    closed_forms<unsigned, 1>();
    closed_forms<unsigned, 2>();
    closed_forms<unsigned, 3>();
  });
  vrt::shard("scale_closed/size_t12", [] {
    closed_forms<std::size_t, 1>();
    closed_forms<std::size_t, 2>();
  });
  vrt::shard("scale_closed/size_t3", [] { closed_forms<std::size_t, 3>(); });
  vrt::shard("scale_closed/uchar", [] {
    closed_forms<unsigned char, 1>();
    closed_forms<unsigned char, 2>();
    closed_forms<unsigned char, 3>();
  });
  vrt::shard("scale_windows/unsigned", [] {
    windows<unsigned, 1>();
    windows<unsigned, 2>();
    windows<unsigned, 3>();
  });
  vrt::shard("scale_windows/size_t", [] {
    windows<std::size_t, 1>();
    windows<std::size_t, 2>();
    windows<std::size_t, 3>();
  });
  vrt::shard("grid_value_ops", [] { value_ops(); });
}
}

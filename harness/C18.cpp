// C18 -- ranges and iterators enumerate exactly their documented sequence.
// Engine E: exhaustive enumeration of the stated finite domains; every produced sequence is compared
// with a sequence built by plain integer loops (__int128 arithmetic for counts).
//
// This TU: int ranges, enum ranges, cyclic_iterator, iterator::base/range/adapt_range, static int ranges.
// C18_grid.cpp: spiral range, moore/neumann neighbours.
#include <vrt.hpp>

#include "C18_common.hpp"

#include <fcppt/cyclic_iterator.hpp>
#include <fcppt/int_iterator_impl.hpp>
#include <fcppt/int_range_impl.hpp>
#include <fcppt/make_int_range.hpp>
#include <fcppt/make_int_range_count.hpp>
#include <fcppt/make_literal_strong_typedef.hpp>
#include <fcppt/make_strong_typedef.hpp>
#include <fcppt/strong_typedef.hpp>
#include <fcppt/tag.hpp>
#include <fcppt/algorithm/loop.hpp>
#include <fcppt/algorithm/loop_break_mpl.hpp>
#include <fcppt/enum/make_range.hpp>
#include <fcppt/enum/make_range_start.hpp>
#include <fcppt/enum/make_range_start_end.hpp>
#include <fcppt/enum/range_impl.hpp>
#include <fcppt/enum/size_type.hpp>
#include <fcppt/iterator/adapt_range.hpp>
#include <fcppt/iterator/base_impl.hpp>
#include <fcppt/iterator/make_range.hpp>
#include <fcppt/iterator/range_impl.hpp>
#include <fcppt/iterator/types.hpp>
#include <fcppt/math/int_range.hpp>
#include <fcppt/math/int_range_count.hpp>
#include <fcppt/math/size_constant.hpp>
#include <fcppt/math/size_type.hpp>
#include <fcppt/range/size.hpp>
#include <fcppt/tuple/get.hpp>
#include <fcppt/type_iso/strong_typedef.hpp>

#include <cstddef>
#include <cstdint>
#include <deque>
#include <forward_list>
#include <iterator>
#include <limits>
#include <list>
#include <memory>
#include <set>
#include <string>
#include <type_traits>
#include <utility>
#include <vector>

using i128 = __int128;
using i8 = std::int8_t;
using u8 = std::uint8_t;

namespace
{
FCPPT_MAKE_STRONG_TYPEDEF(std::int8_t, strong_i8);
FCPPT_MAKE_STRONG_TYPEDEF(std::uint8_t, strong_u8);
FCPPT_MAKE_STRONG_TYPEDEF(int, strong_i32);
FCPPT_MAKE_STRONG_TYPEDEF(unsigned long, strong_u64);

// ------------------------------------------------------------------ value adaptors
template <class T> struct val
{
  using raw = T;
  static constexpr bool strong = false;
  static raw get(T v) { return v; }
  static T make(raw r) { return r; }
  static std::string name() { return c18::tname<T>::v; }
};
template <class R, class Tag> struct val<fcppt::strong_typedef<R, Tag>>
{
  using raw = R;
  static constexpr bool strong = true;
  static raw get(fcppt::strong_typedef<R, Tag> const &v) { return v.get(); }
  static fcppt::strong_typedef<R, Tag> make(raw r) { return fcppt::strong_typedef<R, Tag>(r); }
  static std::string name() { return std::string("strong<") + c18::tname<R>::v + ">"; }
};

template <class R> constexpr i128 lo() { return static_cast<i128>(std::numeric_limits<R>::min()); }
template <class R> constexpr i128 hi() { return static_cast<i128>(std::numeric_limits<R>::max()); }
template <class R> constexpr bool fits(i128 v) { return v >= lo<R>() && v <= hi<R>(); }
inline long long ll(i128 v) { return static_cast<long long>(v); }

// boundary lattice of R: 0, small values, +-(2^k-1), +-2^k, +-(2^k+1), the three values at each end
template <class R> std::vector<R> lattice()
{
  std::set<i128> s;
  auto add = [&](i128 v) {
    if (fits<R>(v))
      s.insert(v);
  };
  for (i128 d : {i128(0), i128(1), i128(2), i128(3), i128(5), i128(10), i128(100)})
  {
    add(d);
    add(-d);
  }
  for (int k = 2; k <= 64; ++k)
  {
    i128 const p = i128(1) << k;
    for (i128 d : {i128(-1), i128(0), i128(1)})
    {
      add(p + d);
      add(-(p + d));
    }
  }
  for (i128 d : {i128(0), i128(1), i128(2)})
  {
    add(lo<R>() + d);
    add(hi<R>() - d);
  }
  add(hi<R>() / 2);
  add(hi<R>() / 2 + 1);
  std::vector<R> r;
  for (i128 v : s)
    r.push_back(static_cast<R>(v));
  return r;
}

// ------------------------------------------------------------------ int ranges
// One range object r that is documented to be [B, E) (empty if E <= B). Walk at most `cap` elements
// (all of them if the range is shorter), compare with B, B+1, ...; compare size() when the element
// count is representable in the range's own integer type.
template <class T> void check_int_range(std::string const &name, fcppt::int_range<T> const &r, i128 B, i128 E, i128 cap)
{
  using V = val<T>;
  using R = typename V::raw;
  i128 const count = E > B ? E - B : 0;
  i128 const limit = count < cap ? count : cap;
  auto it = r.begin();
  auto const end = r.end();
  VRT_CHECK((it == end) == (count == 0), name + ":empty", "begin()==end() is %d for %lld elements", int(it == end), ll(count));
  VRT_CHECK((it != end) == (count != 0), name + ":empty_ne", "begin()!=end() is %d for %lld elements", int(it != end), ll(count));
  bool ok = true;
  i128 i = 0;
  while (i < limit)
  {
    if (it == end)
    {
      vrt::fail(name + ":short", vrt::fmt("end() reached after %lld of %lld elements", ll(i), ll(count)));
      ok = false;
      break;
    }
    i128 const got = static_cast<i128>(V::get(*it));
    if (got != B + i)
    {
      vrt::fail(name + ":element", vrt::fmt("element %lld is %lld, want %lld", ll(i), ll(got), ll(B + i)));
      ok = false;
      break;
    }
    if ((i & 1) == 0)
      ++it;
    else
    {
      auto const old = it++; // post-increment returns the old position
      VRT_CHECK(static_cast<i128>(V::get(*old)) == B + i, name + ":postinc", "it++ returned an iterator to %lld, want %lld",
                ll(static_cast<i128>(V::get(*old))), ll(B + i));
    }
    ++i;
  }
  if (ok && count <= cap && !(it == end))
  {
    vrt::fail(name + ":long", vrt::fmt("no end() after the %lld documented elements (next is %lld)", ll(count),
                                       ll(static_cast<i128>(V::get(*it)))));
    ok = false; // do not let std::distance / range-for walk a range that does not end where it should
  }
  if (ok && count > cap)
    VRT_CHECK(it != end, name + ":short", "end() reached after %lld of %lld elements", ll(i), ll(count));
  if (fits<R>(count))
  {
    i128 const sz = static_cast<i128>(r.size());
    VRT_CHECK(sz == count, name + ":size", "size() is %lld for %lld elements", ll(sz), ll(count));
  }
  if constexpr (!V::strong)
  {
    // fcppt::range::size walks the range (std::distance) and returns the unsigned counterpart of the
    // iterator's difference type, which is T itself
    // (range::size does not compile for an int_range over an unsigned type: to_unsigned rejects the
    // unsigned difference type -- nothing to compare there)
    using U = std::make_unsigned_t<R>;
    if constexpr (std::is_signed_v<R>)
      if (ok && count <= cap && fits<U>(count))
    {
      auto const rs = fcppt::range::size(r);
      VRT_CHECK(static_cast<i128>(rs) == count, name + ":range_size", "range::size is %llu for %lld elements",
                static_cast<unsigned long long>(rs), ll(count));
    }
    // range-based for sees the same elements
    if (ok && count <= 64)
    {
      i128 k = 0;
      bool same = true;
      for (T const v : r)
      {
        if (k >= count || static_cast<i128>(v) != B + k)
          same = false;
        ++k;
        if (k > count + 2)
          break;
      }
      VRT_CHECK(same && k == count, name + ":range_for", "range-for saw %lld elements, want %lld", ll(k), ll(count));
    }
  }
}

// all (b,e) of an 8-bit type (also behind a strong typedef), and all n for make_int_range_count
template <class T> void int_range_narrow()
{
  using V = val<T>;
  using R = typename V::raw;
  static_assert(sizeof(R) == 1);
  static std::string const n_r = "make_int_range<" + V::name() + ">";
  static std::string const n_c = "make_int_range_count<" + V::name() + ">";
  static std::string const n_d = "int_range<" + V::name() + ">";
  for (i128 b = lo<R>(); b <= hi<R>(); ++b)
    for (i128 e = lo<R>(); e <= hi<R>(); ++e)
    {
      if (!vrt::begin(n_r.c_str(), static_cast<int>(b), static_cast<int>(e)))
        continue;
      vrt::nontrivial(b != e); // yields elements, or exercises the clamp of an inverted pair
      vrt::maybe_sample();
      check_int_range<T>(n_r, fcppt::make_int_range(V::make(static_cast<R>(b)), V::make(static_cast<R>(e))), b, e, 1000);
    }
  // the class constructor is documented separately ("If end < begin the range will be empty")
  for (i128 b = lo<R>(); b <= hi<R>(); ++b)
    for (i128 e = lo<R>(); e <= hi<R>(); ++e)
    {
      if (!vrt::begin(n_d.c_str(), static_cast<int>(b), static_cast<int>(e)))
        continue;
      vrt::nontrivial(b != e);
      check_int_range<T>(n_d, fcppt::int_range<T>(V::make(static_cast<R>(b)), V::make(static_cast<R>(e))), b, e, 1000);
      // two iterators are equal exactly when they stand on the same integer (also when b > e)
      fcppt::int_iterator<T> const ib(V::make(static_cast<R>(b))), ie(V::make(static_cast<R>(e)));
      VRT_CHECK((ib == ie) == (b == e) && (ib != ie) == (b != e), n_d + ":iterator_equal", "int_iterator(%d)==int_iterator(%d) is %d",
                static_cast<int>(b), static_cast<int>(e), int(ib == ie));
      VRT_CHECK(static_cast<i128>(V::get(*ib)) == b, n_d + ":iterator_deref", "*int_iterator(%d) wrong", static_cast<int>(b));
    }
  for (i128 n = lo<R>(); n <= hi<R>(); ++n)
  {
    if (!vrt::begin(n_c.c_str(), static_cast<int>(n)))
      continue;
    vrt::nontrivial(n != 0);
    vrt::maybe_sample();
    check_int_range<T>(n_c, fcppt::make_int_range_count(V::make(static_cast<R>(n))), 0, n, 1000);
  }
}

// boundary pairs of a wider type: ranges longer than `cap` are walked for their first `cap` elements only
// (each must be b+i and must not be end()); size() is still compared for every representable count
template <class T> void int_range_wide(unsigned part, unsigned nparts)
{
  using V = val<T>;
  using R = typename V::raw;
  static std::string const n_r = "make_int_range<" + V::name() + ">";
  static std::string const n_c = "make_int_range_count<" + V::name() + ">";
  std::vector<R> const dom = lattice<R>();
  i128 const cap = vrt::thorough() ? (sizeof(R) == 2 ? 70000 : 16384) : 1024;
  std::size_t bi = 0;
  for (R b : dom)
  {
    if (bi++ % nparts != part)
      continue;
    if (vrt::out_of_time())
      return;
    for (R e : dom)
    {
      if (!vrt::begin(n_r.c_str(), b, e))
        continue;
      vrt::nontrivial(b != e);
      vrt::maybe_sample();
      check_int_range<T>(n_r, fcppt::make_int_range(V::make(b), V::make(e)), b, e, cap);
    }
    if (vrt::begin(n_c.c_str(), b))
    {
      vrt::nontrivial(b != 0);
      check_int_range<T>(n_c, fcppt::make_int_range_count(V::make(b)), 0, b, cap);
    }
  }
}

// thorough tier: every (b,e) of a 16-bit type; the walk is cut after 3 elements (first elements, emptiness,
// begin/end and size() are compared for the complete input space; full walks are done by the lattice/dense shards)
template <class T> void int_range_16_all(unsigned part, unsigned nparts)
{
  using V = val<T>;
  using R = typename V::raw;
  static_assert(sizeof(R) == 2);
  static std::string const n_r = "make_int_range<" + V::name() + ">:all";
  for (i128 b = lo<R>() + part; b <= hi<R>(); b += nparts)
  {
    if (vrt::out_of_time())
      return;
    for (i128 e = lo<R>(); e <= hi<R>(); ++e)
    {
      if (!vrt::begin(n_r.c_str(), static_cast<int>(b), static_cast<int>(e)))
        continue;
      vrt::nontrivial(b != e);
      vrt::maybe_sample();
      check_int_range<T>(n_r, fcppt::make_int_range(V::make(static_cast<R>(b)), V::make(static_cast<R>(e))), b, e, 3);
    }
  }
}

// dense square around zero for one wide type: every (b,e) in [-K,K]^2 resp. [0,2K]^2
template <class T> void int_range_dense(int k)
{
  using V = val<T>;
  using R = typename V::raw;
  static std::string const n_r = "make_int_range<" + V::name() + ">:dense";
  int const from = std::is_signed_v<R> ? -k : 0, to = std::is_signed_v<R> ? k : 2 * k;
  for (int b = from; b <= to; ++b)
    for (int e = from; e <= to; ++e)
    {
      if (!vrt::begin(n_r.c_str(), b, e))
        continue;
      vrt::nontrivial(b != e);
      check_int_range<T>(n_r, fcppt::make_int_range(V::make(static_cast<R>(b)), V::make(static_cast<R>(e))), b, e, 100000);
    }
}

// ------------------------------------------------------------------ static int ranges (math::int_range[_count])
template <fcppt::math::size_type S, fcppt::math::size_type E> void static_range_one()
{
  static std::string const name = "math::int_range";
  if (!vrt::begin(name.c_str(), S, E))
    return;
  vrt::nontrivial(S != E);
  std::vector<fcppt::math::size_type> got;
  fcppt::algorithm::loop(fcppt::math::int_range<S, E>{},
                         [&got]<fcppt::math::size_type I>(fcppt::tag<fcppt::math::size_constant<I>>) { got.push_back(I); });
  std::vector<fcppt::math::size_type> want;
  for (fcppt::math::size_type i = S; i < E; ++i)
    want.push_back(i);
  VRT_CHECK(got == want, name + ":wrong", "static range [%u,%u) enumerated %zu elements", unsigned(S), unsigned(E), got.size());
  if constexpr (S == 0)
  {
    std::vector<fcppt::math::size_type> got2;
    fcppt::algorithm::loop(fcppt::math::int_range_count<E>{},
                           [&got2]<fcppt::math::size_type I>(fcppt::tag<fcppt::math::size_constant<I>>) { got2.push_back(I); });
    VRT_CHECK(got2 == want, name + "_count:wrong", "static count range %u enumerated %zu elements", unsigned(E), got2.size());
  }
}
template <fcppt::math::size_type S, std::size_t... D> void static_range_row(std::index_sequence<D...>)
{
  (static_range_one<S, S + D>(), ...);
}
template <std::size_t... S> void static_range_all(std::index_sequence<S...>)
{
  (static_range_row<S>(std::make_index_sequence<6>{}), ...);
}

// ------------------------------------------------------------------ enum ranges
#define C18_ENUMS(p, U)                                                  \
  enum class p##1 : U { a, fcppt_maximum = a };                          \
  enum class p##2 : U { a, b, fcppt_maximum = b };                       \
  enum class p##3 : U { a, b, c, fcppt_maximum = c };                    \
  enum class p##4 : U { a, b, c, d, fcppt_maximum = d };                 \
  enum class p##5 : U { a, b, c, d, e, fcppt_maximum = e };              \
  enum class p##6 : U { a, b, c, d, e, f, fcppt_maximum = f };           \
  enum class p##7 : U { a, b, c, d, e, f, g, fcppt_maximum = g };        \
  enum class p##8 : U { a, b, c, d, e, f, g, h, fcppt_maximum = h };     \
  enum class p##9 : U { a, b, c, d, e, f, g, h, i, fcppt_maximum = i };
C18_ENUMS(eu8_, std::uint8_t)
C18_ENUMS(ei8_, std::int8_t)
C18_ENUMS(eint_, int)
C18_ENUMS(eu16_, std::uint16_t)
C18_ENUMS(eu64_, std::uint64_t)
// boundary of the 8-bit size type: one past the last enumerator is 255 resp. 128 (still representable)
enum class eu8_255 : std::uint8_t { first = 0, fcppt_maximum = 254 };
enum class ei8_127 : std::int8_t { first = 0, fcppt_maximum = 126 };
enum class ei8_128 : std::int8_t { first = 0, fcppt_maximum = 127 };

template <class E> void check_enum_range(std::string const &name, fcppt::enum_::range<E> const &r, long s, long e)
{
  // documented: the closed range [s, e], every enumerator once, in order
  long const count = e - s + 1;
  long i = 0;
  bool ok = true;
  auto const end = r.end();
  VRT_CHECK(!(r.begin() == end), name + ":empty", "closed range [%ld,%ld] is empty", s, e);
  for (auto it = r.begin(); it != end; ++it)
  {
    if (i >= count)
    {
      vrt::fail(name + ":long", vrt::fmt("more than %ld elements in [%ld,%ld]", count, s, e));
      ok = false;
      break;
    }
    E const v = *it;
    long const got = static_cast<long>(static_cast<std::underlying_type_t<E>>(v));
    if (got != s + i)
    {
      vrt::fail(name + ":element", vrt::fmt("element %ld of [%ld,%ld] is %ld", i, s, e, got));
      ok = false;
      break;
    }
    ++i;
  }
  if (ok)
    VRT_CHECK(i == count, name + ":short", "%ld elements in [%ld,%ld], want %ld", i, s, e, count);
  // size(): the count always fits the unsigned size type for the enums used here
  VRT_CHECK(static_cast<long>(r.size()) == count, name + ":size", "size() is %ld for [%ld,%ld]", static_cast<long>(r.size()), s, e);
  if (ok)
  {
    long k = 0;
    for (E const v : r)
    {
      if (static_cast<long>(static_cast<std::underlying_type_t<E>>(v)) != s + k)
        ok = false;
      if (++k > count + 2)
        break;
    }
    VRT_CHECK(ok && k == count, name + ":range_for", "range-for over [%ld,%ld] saw %ld elements", s, e, k);
  }
}

template <class E> void enum_all(char const *ename)
{
  static std::string const n_se = std::string("enum::make_range_start_end<") + ename + ">";
  static std::string const n_s = std::string("enum::make_range_start<") + ename + ">";
  static std::string const n_a = std::string("enum::make_range<") + ename + ">";
  static std::string const n_it = std::string("enum::iterator<") + ename + ">";
  using U = std::underlying_type_t<E>;
  long const size = static_cast<long>(static_cast<U>(E::fcppt_maximum)) + 1;
  // iterator equality: exactly when both stand on the same enumerator (all pairs, also s > e)
  if (size <= 9)
    for (long s = 0; s <= size; ++s)
      for (long e = 0; e <= size; ++e)
      {
        if (!vrt::begin(n_it.c_str(), s, e))
          continue;
        vrt::nontrivial(s != e);
        using ST = fcppt::enum_::size_type<E>; // enum/size_type.hpp: "The size type used to count the number of enumerators"
        fcppt::enum_::iterator<E> const a(static_cast<ST>(s)), b(static_cast<ST>(e));
        VRT_CHECK((a == b) == (s == e) && (a != b) == (s != e), n_it + ":equal", "iterator(%ld)==iterator(%ld) is %d", s, e, int(a == b));
        if (s < size)
          VRT_CHECK(static_cast<long>(static_cast<U>(*a)) == s, n_it + ":deref", "*iterator(%ld) wrong", s);
      }
  for (long s = 0; s < size; ++s)
  {
    for (long e = s; e < size; ++e) // closed sub-ranges only: an inverted pair is not a sub-range
    {
      if (!vrt::begin(n_se.c_str(), s, e))
        continue;
      vrt::nontrivial(e > s || e == size - 1);
      vrt::maybe_sample();
      check_enum_range<E>(n_se, fcppt::enum_::make_range_start_end(static_cast<E>(static_cast<U>(s)), static_cast<E>(static_cast<U>(e))), s, e);
    }
    if (vrt::begin(n_s.c_str(), s))
    {
      vrt::nontrivial(true);
      check_enum_range<E>(n_s, fcppt::enum_::make_range_start(static_cast<E>(static_cast<U>(s))), s, size - 1);
    }
  }
  if (vrt::begin(n_a.c_str(), size))
  {
    vrt::nontrivial(true);
    check_enum_range<E>(n_a, fcppt::enum_::make_range<E>(), 0, size - 1);
  }
}

#define C18_RUN_ENUMS(p)    \
  enum_all<p##1>(#p "1");   \
  enum_all<p##2>(#p "2");   \
  enum_all<p##3>(#p "3");   \
  enum_all<p##4>(#p "4");   \
  enum_all<p##5>(#p "5");   \
  enum_all<p##6>(#p "6");   \
  enum_all<p##7>(#p "7");   \
  enum_all<p##8>(#p "8");   \
  enum_all<p##9>(#p "9");

// ------------------------------------------------------------------ cyclic iterator
inline int mod(int a, int m) { return ((a % m) + m) % m; }

constexpr int cyc_total = 8; // container size; boundaries are [first, first+len) inside it
std::vector<int> cyc_values()
{
  std::vector<int> v;
  for (int i = 0; i < cyc_total; ++i)
    v.push_back(100 + 7 * i);
  return v;
}
int cyc_nmax() { return vrt::thorough() ? 64 : 20; }

// random access: It must support base + k
template <class It> void cyclic_ra(char const *itname, It const base, std::vector<int> const &values)
{
  static std::string const name = std::string("cyclic_iterator<") + itname + ">";
  static std::string const name_far = std::string("cyclic_iterator<") + itname + ">:far";
  using C = fcppt::cyclic_iterator<It>;
  using D = typename C::difference_type;
  int const N = cyc_nmax();
  for (int first = 0; first <= 2; ++first)
    for (int len = 1; len <= 6 && first + len <= cyc_total; ++len)
      for (int start = 0; start < len; ++start)
      {
        It const bf = base + first, bl = base + (first + len);
        typename C::boundary const bd{bf, bl};
        C const s(base + (first + start), bd);
        auto in_boundary = [&](C const &c) {
          auto const k = c.get() - base;
          return k >= first && k < first + len;
        };
        auto boundary_kept = [&](C const &c) {
          return fcppt::tuple::get<0>(c.get_boundary()) == bf && fcppt::tuple::get<1>(c.get_boundary()) == bl;
        };
        for (int n = -N; n <= N; ++n)
        {
          if (!vrt::begin(name.c_str(), first, len, start, n))
            continue;
          vrt::nontrivial(start + n < 0 || start + n >= len); // the walk wraps around at least once
          vrt::maybe_sample();
          int const want = first + mod(start + n, len); // index into the container
          // |n| single steps, each one checked
          C st(s);
          bool steps_ok = true;
          for (int k = 1; k <= (n < 0 ? -n : n); ++k)
          {
            if (n > 0)
              ++st;
            else
              --st;
            int const w = first + mod(start + (n > 0 ? k : -k), len);
            if (!in_boundary(st))
            {
              vrt::fail(name + ":step_outside", vrt::fmt("after %d single steps the iterator is at index %ld, outside [%d,%d)", k,
                                                         static_cast<long>(st.get() - base), first, first + len));
              steps_ok = false;
              break;
            }
            if (st.get() - base != w)
            {
              vrt::fail(name + (n > 0 ? ":increment" : ":decrement"),
                        vrt::fmt("after %d single steps at index %ld, want %d", k, static_cast<long>(st.get() - base), w));
              steps_ok = false;
              break;
            }
          }
          // advance by n
          C a(s);
          a += static_cast<D>(n);
          VRT_CHECK(in_boundary(a), name + ":advance_outside", "it += %d left the boundary: index %ld", n,
                    static_cast<long>(a.get() - base));
          if (!in_boundary(a))
            continue; // do not dereference
          VRT_CHECK(a.get() - base == want, name + ":advance", "it += %d is at index %ld, want %d", n,
                    static_cast<long>(a.get() - base), want);
          VRT_CHECK(*a == values[static_cast<std::size_t>(a.get() - base)], name + ":deref", "dereference differs from the element");
          if (steps_ok)
          {
            VRT_CHECK(a == st, name + ":advance_ne_steps", "it += %d differs from %d single steps", n, n);
            VRT_CHECK(!(a != st), name + ":advance_ne_steps", "operator!= disagrees with operator==");
          }
          VRT_CHECK(boundary_kept(a) && boundary_kept(st), name + ":boundary_changed", "boundary changed by moving");
          // the derived operators of iterator::base
          C const p = s + static_cast<D>(n);
          C const q = s - static_cast<D>(-n);
          C const r = static_cast<D>(n) + s;
          C m(s);
          m -= static_cast<D>(-n);
          VRT_CHECK(p.get() - base == want, name + ":plus", "it + %d at index %ld, want %d", n, static_cast<long>(p.get() - base), want);
          VRT_CHECK(q.get() - base == want, name + ":minus", "it - %d at index %ld, want %d", -n, static_cast<long>(q.get() - base), want);
          VRT_CHECK(r.get() - base == want, name + ":plus_left", "%d + it at index %ld, want %d", n, static_cast<long>(r.get() - base), want);
          VRT_CHECK(m.get() - base == want, name + ":minus_assign", "it -= %d at index %ld, want %d", -n, static_cast<long>(m.get() - base), want);
          VRT_CHECK(s[static_cast<D>(n)] == values[static_cast<std::size_t>(want)], name + ":subscript", "it[%d] is %d, want %d", n,
                    int(s[static_cast<D>(n)]), values[static_cast<std::size_t>(want)]);
          // documented contract of distance_to: advancing s by (a - s) gives a
          D const dist = a - s;
          C back(s);
          back += dist;
          VRT_CHECK(back == a, name + ":distance", "s + (a - s) != a (distance %ld)", static_cast<long>(dist));
          // post-increment / post-decrement return the old position
          C t(s);
          C const old1 = t++;
          VRT_CHECK(old1 == s && t.get() - base == first + mod(start + 1, len), name + ":postinc", "it++ wrong");
          C const old2 = t--;
          VRT_CHECK(old2.get() - base == first + mod(start + 1, len) && t == s, name + ":postdec", "it-- wrong");
        }
        // large multiples and near-multiples of the boundary length (wrap-around many times); the
        // reference position is computed in 128 bit; |n| stays far below the limits of difference_type
        if (sizeof(D) >= 8) // the multiples below need a 64-bit difference type
        for (long long big : {1000LL, 65535LL, 65536LL, 720720LL, 2147483647LL, 2147483648LL, 1099511627776LL, 1099511627777LL})
          for (int sign = -1; sign <= 1; sign += 2)
            for (int delta = -1; delta <= 1; ++delta)
            {
              long long const n = sign * (big * len + delta);
              if (!vrt::begin(name_far.c_str(), first, len, start, n))
                continue;
              vrt::nontrivial(true);
              i128 const mm = ((static_cast<i128>(start) + n) % len + len) % len;
              int const want = first + static_cast<int>(mm);
              C a(s);
              a += static_cast<D>(n);
              VRT_CHECK(in_boundary(a), name_far + ":advance_outside", "it += %lld left the boundary: index %ld", n,
                        static_cast<long>(a.get() - base));
              if (!in_boundary(a))
                continue;
              VRT_CHECK(a.get() - base == want, name_far + ":advance", "it += %lld is at index %ld, want %d", n,
                        static_cast<long>(a.get() - base), want);
              C const q = s - static_cast<D>(-n);
              VRT_CHECK(q.get() - base == want, name_far + ":minus", "it - %lld at index %ld, want %d", -n,
                        static_cast<long>(q.get() - base), want);
              VRT_CHECK(s[static_cast<D>(n)] == values[static_cast<std::size_t>(want)], name_far + ":subscript", "it[%lld] wrong", n);
            }
      }
}

// bidirectional / forward containers: only ++ (and --) exist; the position is measured with std::distance
template <class Cont, bool Bidir> void cyclic_steps(char const *itname)
{
  static std::string const name = std::string("cyclic_iterator<") + itname + ">";
  using It = typename Cont::const_iterator;
  using C = fcppt::cyclic_iterator<It>;
  std::vector<int> const values = cyc_values();
  Cont const cont(values.begin(), values.end());
  int const N = cyc_nmax();
  for (int first = 0; first <= 2; ++first)
    for (int len = 1; len <= 6 && first + len <= cyc_total; ++len)
      for (int start = 0; start < len; ++start)
        for (int n = (Bidir ? -N : 0); n <= N; ++n)
        {
          if (!vrt::begin(name.c_str(), first, len, start, n))
            continue;
          vrt::nontrivial(start + n < 0 || start + n >= len);
          It const bf = std::next(cont.begin(), first), bl = std::next(cont.begin(), first + len);
          C st(std::next(cont.begin(), first + start), typename C::boundary{bf, bl});
          for (int k = 1; k <= (n < 0 ? -n : n); ++k)
          {
            if (n > 0)
              ++st;
            else if constexpr (Bidir)
              --st;
            int const w = first + mod(start + (n > 0 ? k : -k), len);
            long const at = static_cast<long>(std::distance(cont.begin(), st.get()));
            if (at != w)
            {
              vrt::fail(name + (n > 0 ? ":increment" : ":decrement"), vrt::fmt("after %d single steps at index %ld, want %d", k, at, w));
              break;
            }
            if (*st != values[static_cast<std::size_t>(w)])
            {
              vrt::fail(name + ":deref", "dereference differs from the element");
              break;
            }
          }
        }
}

// ------------------------------------------------------------------ iterator::base with a hand-written random access iterator
class idx_it final
    : public fcppt::iterator::base<fcppt::iterator::types<idx_it, int, int const &, std::ptrdiff_t, std::random_access_iterator_tag>>
{
public:
  idx_it() : p_(nullptr) {}
  explicit idx_it(int const *p) : p_(p) {}
  int const &dereference() const { return *p_; }
  void increment() { ++p_; }
  void decrement() { --p_; }
  bool equal(idx_it const &o) const { return p_ == o.p_; }
  void advance(std::ptrdiff_t d) { p_ += d; }
  std::ptrdiff_t distance_to(idx_it const &o) const { return o.p_ - p_; }
  int const *raw() const { return p_; }

private:
  int const *p_;
};

void iterator_base_all()
{
  static std::string const name = "iterator::base<random_access>";
  constexpr int L = 7;
  std::unique_ptr<int[]> const data(new int[L]); // exact-size heap block: ASan sees any step outside
  for (int i = 0; i < L; ++i)
    data[i] = 10 * i + 3;
  int const *const d = data.get();
  for (int i = 0; i < L; ++i)
    for (int j = 0; j < L; ++j)
    {
      if (!vrt::begin(name.c_str(), i, j))
        continue;
      vrt::nontrivial(i != j);
      std::ptrdiff_t const n = j - i;
      idx_it const a(d + i), b(d + j);
      VRT_CHECK((a + n).raw() == d + j, name + ":plus", "a + n");
      VRT_CHECK((n + a).raw() == d + j, name + ":plus_left", "n + a");
      VRT_CHECK((b - n).raw() == d + i, name + ":minus", "b - n");
      VRT_CHECK(b - a == n, name + ":difference", "b - a is %ld, want %ld", static_cast<long>(b - a), static_cast<long>(n));
      VRT_CHECK(a - b == -n, name + ":difference", "a - b is %ld, want %ld", static_cast<long>(a - b), static_cast<long>(-n));
      VRT_CHECK(a[n] == d[j], name + ":subscript", "a[n]");
      VRT_CHECK(&a[n] == d + j, name + ":subscript", "a[n] refers to another object");
      VRT_CHECK(&*a == d + i && a.operator->() == d + i, name + ":deref", "*a / a->");
      idx_it c(a);
      c += n;
      VRT_CHECK(c.raw() == d + j && c == b && !(c != b), name + ":plus_assign", "a += n");
      c -= n;
      VRT_CHECK(c.raw() == d + i && c == a, name + ":minus_assign", "c -= n");
      VRT_CHECK((a == b) == (i == j) && (a != b) == (i != j), name + ":equal", "==, !=");
      VRT_CHECK((a < b) == (i < j), name + ":less", "a < b is %d for %d,%d", int(a < b), i, j);
      VRT_CHECK((a > b) == (i > j), name + ":greater", "a > b is %d for %d,%d", int(a > b), i, j);
      VRT_CHECK((a <= b) == (i <= j), name + ":less_equal", "a <= b is %d for %d,%d", int(a <= b), i, j);
      VRT_CHECK((a >= b) == (i >= j), name + ":greater_equal", "a >= b is %d for %d,%d", int(a >= b), i, j);
      if (i + 1 < L)
      {
        idx_it e(a);
        idx_it &ref = ++e;
        VRT_CHECK(&ref == &e && e.raw() == d + i + 1, name + ":preinc", "++a");
        idx_it &ref2 = --e;
        VRT_CHECK(&ref2 == &e && e.raw() == d + i, name + ":predec", "--a");
        idx_it const o = e++;
        VRT_CHECK(o.raw() == d + i && e.raw() == d + i + 1, name + ":postinc", "a++");
        idx_it const o2 = e--;
        VRT_CHECK(o2.raw() == d + i + 1 && e.raw() == d + i, name + ":postdec", "a--");
      }
      idx_it x(a), y(b);
      x.swap(y);
      VRT_CHECK(x.raw() == d + j && y.raw() == d + i, name + ":swap", "member swap");
      fcppt::iterator::swap(x, y);
      VRT_CHECK(x.raw() == d + i && y.raw() == d + j, name + ":swap", "free swap");
      // the walk from a to b by single steps visits exactly the elements in between
      idx_it w(a);
      int steps = 0;
      while (w != b && steps <= L)
      {
        VRT_CHECK(*w == d[i + (n > 0 ? steps : -steps)], name + ":walk", "walk element %d", steps);
        if (n > 0)
          ++w;
        else
          --w;
        ++steps;
      }
      VRT_CHECK(steps == (n < 0 ? -n : n), name + ":walk", "walk took %d steps, want %ld", steps, static_cast<long>(n < 0 ? -n : n));
    }
}

// ------------------------------------------------------------------ iterator::range, make_range, adapt_range
template <class Range, class It> void check_iter_range(std::string const &name, Range const &r, It b, It e, std::vector<int> const &want)
{
  // iterator::range: "A range formed from two iterators"; adapt_range: "Turns a range into an iterator::range"
  VRT_CHECK(r.begin() == b, name + ":begin", "begin() is not the given iterator");
  VRT_CHECK(r.end() == e, name + ":end", "end() is not the given iterator");
  if (!(r.begin() == b) || !(r.end() == e))
    return; // do not walk iterators of unknown origin
  std::vector<int> got;
  for (auto it = r.begin(); it != r.end() && got.size() <= want.size() + 2; ++it)
    got.push_back(static_cast<int>(*it));
  VRT_CHECK(got == want, name + ":elements", "%zu elements, want %zu", got.size(), want.size());
  std::vector<int> got2;
  for (auto const &v : r)
  {
    got2.push_back(static_cast<int>(v));
    if (got2.size() > want.size() + 2)
      break;
  }
  VRT_CHECK(got2 == want, name + ":range_for", "range-for: %zu elements, want %zu", got2.size(), want.size());
  if (got == want)
    VRT_CHECK(fcppt::range::size(r) == want.size(), name + ":range_size", "range::size is %zu, want %zu",
              static_cast<std::size_t>(fcppt::range::size(r)), want.size());
}

template <class Cont> Cont make_cont(int len)
{
  std::vector<int> v;
  for (int i = 0; i < len; ++i)
    v.push_back(3 * i + 1); // increasing: std::set keeps the order
  return Cont(v.begin(), v.end());
}

template <class Cont> void iter_range_cont(char const *cname)
{
  static std::string const n_make = std::string("iterator::make_range<") + cname + ">";
  static std::string const n_ctor = std::string("iterator::range<") + cname + ">";
  static std::string const n_adapt = std::string("iterator::adapt_range<") + cname + ">";
  static std::string const n_adapt_c = std::string("iterator::adapt_range<") + cname + " const>";
  int const maxlen = vrt::thorough() ? 9 : 6;
  for (int len = 0; len <= maxlen; ++len)
  {
    Cont cont = make_cont<Cont>(len);
    Cont const &ccont = cont;
    std::vector<int> const all(cont.begin(), cont.end());
    for (int i = 0; i <= len; ++i)
      for (int j = i; j <= len; ++j)
      {
        std::vector<int> const want(all.begin() + i, all.begin() + j);
        if (vrt::begin(n_make.c_str(), len, i, j))
        {
          vrt::nontrivial(j > i);
          vrt::maybe_sample();
          auto const b = std::next(cont.begin(), i), e = std::next(cont.begin(), j);
          check_iter_range(n_make, fcppt::iterator::make_range(b, e), b, e, want);
          auto const cb = std::next(ccont.begin(), i), ce = std::next(ccont.begin(), j);
          check_iter_range(n_make, fcppt::iterator::make_range(cb, ce), cb, ce, want);
        }
        if (vrt::begin(n_ctor.c_str(), len, i, j))
        {
          vrt::nontrivial(j > i);
          auto const b = std::next(ccont.begin(), i), e = std::next(ccont.begin(), j);
          fcppt::iterator::range<typename Cont::const_iterator> const r(b, e);
          check_iter_range(n_ctor, r, b, e, want);
          // a range of a range: adapt_range of an iterator::range is the same range
          fcppt::iterator::range<typename Cont::const_iterator> r2(b, e);
          check_iter_range(n_ctor + ":adapted", fcppt::iterator::adapt_range(r2), b, e, want);
        }
      }
    if (vrt::begin(n_adapt.c_str(), len))
    {
      vrt::nontrivial(len > 0);
      vrt::maybe_sample();
      auto const r = fcppt::iterator::adapt_range(cont);
      // adapt_range.hpp declares range<to_iterator_type<Range>>; the exact type is recorded, not judged
      if (!std::is_same_v<std::remove_cv_t<decltype(r)>, fcppt::iterator::range<typename Cont::iterator>>)
        vrt::count("info:" + n_adapt + ":result_type");
      check_iter_range(n_adapt, r, cont.begin(), cont.end(), all);
      if (len > 0 && r.begin() == cont.begin())
        VRT_CHECK(&*r.begin() == &*cont.begin(), n_adapt + ":alias", "adapted range does not refer to the container's elements");
    }
    if (vrt::begin(n_adapt_c.c_str(), len))
    {
      vrt::nontrivial(len > 0);
      auto const r = fcppt::iterator::adapt_range(ccont);
      if (!std::is_same_v<std::remove_cv_t<decltype(r)>, fcppt::iterator::range<typename Cont::const_iterator>>)
        vrt::count("info:" + n_adapt_c + ":result_type");
      check_iter_range(n_adapt_c, r, ccont.begin(), ccont.end(), all);
      if (len > 0 && r.begin() == ccont.begin())
        VRT_CHECK(&*r.begin() == &*ccont.begin(), n_adapt_c + ":alias", "adapted range does not refer to the container's elements");
    }
  }
}

// adapt_range of fcppt's own ranges (int_range, enum range) must enumerate the same elements
void adapt_fcppt_ranges()
{
  static std::string const n_i = "iterator::adapt_range<int_range<i32>>";
  static std::string const n_e = "iterator::adapt_range<enum::range<eint_9>>";
  for (int b = -4; b <= 4; ++b)
    for (int e = -4; e <= 4; ++e)
    {
      if (!vrt::begin(n_i.c_str(), b, e))
        continue;
      vrt::nontrivial(e > b);
      std::vector<int> want;
      for (int i = b; i < e; ++i)
        want.push_back(i);
      fcppt::int_range<int> const ir(b, e);
      auto const r = fcppt::iterator::adapt_range(ir);
      check_iter_range(n_i, r, ir.begin(), ir.end(), want);
      fcppt::int_range<int> ir2(b, e);
      check_iter_range(n_i, fcppt::iterator::adapt_range(ir2), ir2.begin(), ir2.end(), want);
    }
  for (int s = 0; s < 9; ++s)
    for (int e = s; e < 9; ++e)
    {
      if (!vrt::begin(n_e.c_str(), s, e))
        continue;
      vrt::nontrivial(e > s);
      std::vector<int> want;
      for (int i = s; i <= e; ++i)
        want.push_back(i);
      fcppt::enum_::range<eint_9> const er = fcppt::enum_::make_range_start_end(static_cast<eint_9>(s), static_cast<eint_9>(e));
      auto const r = fcppt::iterator::adapt_range(er);
      check_iter_range(n_e, r, er.begin(), er.end(), want);
    }
}
}

int main(int argc, char **argv)
{
  vrt::shard("int_range<i8>", [] { int_range_narrow<i8>(); });
  vrt::shard("int_range<u8>", [] { int_range_narrow<u8>(); });
  vrt::shard("int_range<strong i8>", [] { int_range_narrow<strong_i8>(); });
  vrt::shard("int_range<strong u8>", [] { int_range_narrow<strong_u8>(); });
  for (unsigned p = 0; p < 4; ++p)
  {
    vrt::shard("int_range<i16>/" + std::to_string(p), [p] { int_range_wide<short>(p, 4); });
    vrt::shard("int_range<u16>/" + std::to_string(p), [p] { int_range_wide<unsigned short>(p, 4); });
    vrt::shard("int_range<i32>/" + std::to_string(p), [p] { int_range_wide<int>(p, 4); });
    vrt::shard("int_range<u32>/" + std::to_string(p), [p] { int_range_wide<unsigned>(p, 4); });
    vrt::shard("int_range<i64>/" + std::to_string(p), [p] { int_range_wide<long>(p, 4); });
    vrt::shard("int_range<u64>/" + std::to_string(p), [p] { int_range_wide<unsigned long>(p, 4); });
    vrt::shard("int_range<strong i32>/" + std::to_string(p), [p] { int_range_wide<strong_i32>(p, 4); });
    vrt::shard("int_range<strong u64>/" + std::to_string(p), [p] { int_range_wide<strong_u64>(p, 4); });
  }
  // (the tier is not known yet when shards are registered: these shards are empty in the quick tier)
  for (unsigned p = 0; p < 16; ++p)
  {
    vrt::shard("int_range16_all<i16>/" + std::to_string(p), [p] {
      if (vrt::thorough())
        int_range_16_all<short>(p, 16);
    });
    vrt::shard("int_range16_all<u16>/" + std::to_string(p), [p] {
      if (vrt::thorough())
        int_range_16_all<unsigned short>(p, 16);
    });
  }
  vrt::shard("int_range_dense", [] {
    int const k = vrt::thorough() ? 150 : 40;
    int_range_dense<int>(k);
    int_range_dense<unsigned>(k);
    int_range_dense<long>(k);
    int_range_dense<short>(k);
    int_range_dense<strong_i32>(k);
  });
  vrt::shard("static_int_range", [] { static_range_all(std::make_index_sequence<6>{}); });
  vrt::shard("enum_small", [] {
    C18_RUN_ENUMS(eu8_)
    C18_RUN_ENUMS(ei8_)
    C18_RUN_ENUMS(eint_)
    C18_RUN_ENUMS(eu16_)
    C18_RUN_ENUMS(eu64_)
  });
  vrt::shard("enum_8bit_boundary", [] {
    enum_all<eu8_255>("eu8_255");
    enum_all<ei8_127>("ei8_127");
    enum_all<ei8_128>("ei8_128");
  });
  vrt::shard("cyclic<vector::iterator>", [] {
    std::vector<int> v = cyc_values();
    v.shrink_to_fit();
    cyclic_ra<std::vector<int>::iterator>("vector::iterator", v.begin(), v);
  });
  vrt::shard("cyclic<vector::const_iterator>", [] {
    std::vector<int> v = cyc_values();
    v.shrink_to_fit();
    cyclic_ra<std::vector<int>::const_iterator>("vector::const_iterator", v.cbegin(), v);
  });
  vrt::shard("cyclic<pointer>", [] {
    std::vector<int> const v = cyc_values();
    std::unique_ptr<int[]> const p(new int[cyc_total]); // exact-size heap block
    for (int i = 0; i < cyc_total; ++i)
      p[i] = v[static_cast<std::size_t>(i)];
    cyclic_ra<int const *>("int const*", p.get(), v);
  });
  vrt::shard("cyclic<deque::iterator>", [] {
    std::vector<int> const v = cyc_values();
    std::deque<int> d(v.begin(), v.end());
    cyclic_ra<std::deque<int>::iterator>("deque::iterator", d.begin(), v);
  });
  vrt::shard("cyclic<list/forward_list>", [] {
    cyclic_steps<std::list<int>, true>("list::const_iterator");
    cyclic_steps<std::forward_list<int>, false>("forward_list::const_iterator");
  });
  vrt::shard("iterator_base", [] { iterator_base_all(); });
  vrt::shard("iterator_range", [] {
    iter_range_cont<std::vector<int>>("vector");
    iter_range_cont<std::deque<int>>("deque");
    iter_range_cont<std::list<int>>("list");
    iter_range_cont<std::set<int>>("set");
    adapt_fcppt_ranges();
  });
  c18::register_grid_shards();
  c18::register_protocol_shards();
  return vrt::run(argc, argv);
}

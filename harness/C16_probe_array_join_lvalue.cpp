// C16 compile probe: array::join must accept lvalue arrays.
#include <fcppt/array/join.hpp>
#include <fcppt/array/object_impl.hpp>

fcppt::array::object<int, 5> c16_probe_join(fcppt::array::object<int, 2> const &a, fcppt::array::object<int, 1> &b)
{
  return fcppt::array::join(a, b, a);
}

// C02: dynamic grammar family, wchar_t instantiation
#include "C02_family.hpp"

namespace c02
{
void register_wchar(bool th)
{
  int const maxn = th ? 4 : 2;
  std::vector<int> const sk_quick{c02::SK_EPSILON, c02::SK_SPACE, c02::SK_CS_SPACE, c02::SK_REP_SEQ};
  std::vector<int> const sk_all{c02::SK_EPSILON, c02::SK_SPACE, c02::SK_CS_SPACE, c02::SK_LIT_SPACE, c02::SK_REP_LIT, c02::SK_SEQ_LIT_LIT, c02::SK_REP_SEQ, c02::SK_SEQ_CS_LIT, c02::SK_REP_CS};
  for (int n = 1; n <= maxn; ++n)
  {
    std::size_t const parts = n <= 2 ? 1 : (n == 3 ? 8 : 32);
    for (std::size_t p = 0; p < parts; ++p)
      vrt::shard("wchar/nodes" + std::to_string(n) + "/" + std::to_string(p), [=] {
        auto const by = c02::all_by_size(n);
        c02::run_block<wchar_t>("parse<wchar_t>", by[static_cast<std::size_t>(n)], p, parts, (th || n <= 1) ? sk_all : sk_quick, th ? 5 : 4, th ? 4 : 3);
      }, 120);
  }
}
}

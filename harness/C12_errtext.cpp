// C12 (d) -- error texts of the character-level parsers.
// For every text, every offset j into it (j characters are consumed first through
// get_char), every literal c and every non-empty character set S over the alphabet, run
//   P1  literal{c}.parse / char_set{S}.parse directly on the stream
//   P2  fcppt::parse::parse(parser, stream)                 (documented entry point)
//   S1  skipper::run(skipper::literal{c} / skipper::char_set{S}, stream)
//   S2  fcppt::parse::phrase_parse(char_, stream, skipper)   (documented entry point: skipper runs first)
// Reference: the parser reads a_{j+1}.  If it matches: success (literal: unit, char_set:
// the character).  If not: failure whose text is
//   "Line l:c: Expected <what>, got <a_{j+1}>"
// where l:c is the model location of index j+1, i.e. immediately after the offending
// character (statement).  <what> is the character for literal; for char_set only "names
// every element of S" is required (the set is unordered).  At end of input the documented
// text of get_char_error is "EOF".  Afterwards the stream position is the model position of
// the index after the last character consumed.
#include "C12_common.hpp"

#include <fcppt/unit.hpp>
#include <fcppt/parse/basic_char.hpp>
#include <fcppt/parse/basic_char_set.hpp>
#include <fcppt/parse/basic_literal.hpp>
#include <fcppt/parse/char.hpp>
#include <fcppt/parse/char_set.hpp>
#include <fcppt/parse/error.hpp>
#include <fcppt/parse/literal.hpp>
#include <fcppt/parse/parse.hpp>
#include <fcppt/parse/phrase_parse.hpp>
#include <fcppt/parse/result.hpp>
#include <fcppt/parse/skipper/basic_char_set.hpp>
#include <fcppt/parse/skipper/basic_literal.hpp>
#include <fcppt/parse/skipper/char_set.hpp>
#include <fcppt/parse/skipper/epsilon.hpp>
#include <fcppt/parse/skipper/literal.hpp>
#include <fcppt/parse/skipper/run.hpp>

#include <type_traits>

namespace
{
using namespace c12;

// the named char aliases are used for char, the basic_ templates for wchar_t
template <class Ch> struct types
{
  using literal = fcppt::parse::basic_literal<Ch>;
  using char_set = fcppt::parse::basic_char_set<Ch>;
  using sk_literal = fcppt::parse::skipper::basic_literal<Ch>;
  using sk_char_set = fcppt::parse::skipper::basic_char_set<Ch>;
};
template <> struct types<char>
{
  using literal = fcppt::parse::literal;
  using char_set = fcppt::parse::char_set;
  using sk_literal = fcppt::parse::skipper::literal;
  using sk_char_set = fcppt::parse::skipper::char_set;
};

template <class Ch> struct ctx
{
  std::basic_string<Ch> const &text;
  std::size_t j;         // offset at which the parser runs
  int lit;               // >= 0: literal letter number; -1: set
  unsigned mask;         // set members (bit d = letter d)
  std::string t = std::string("<") + cname<Ch>::v + ">";

  bool matches(Ch c) const
  {
    for (int d = 0; d < 4; ++d)
      if ((lit >= 0 ? d == lit : ((mask >> d) & 1U) != 0) && c == letter<Ch>(0, d))
        return true;
    return false;
  }
  std::string what() const
  {
    if (lit >= 0)
      return "literal{'" + show_char(letter<Ch>(0, lit)) + "'}";
    std::string r = "char_set{";
    for (int d = 0; d < 4; ++d)
      if ((mask >> d) & 1U)
        r += "'" + show_char(letter<Ch>(0, d)) + "'";
    return r + "}";
  }

  // check a failure text for the parser run at offset j
  void check_message(std::string const &fam, std::basic_string<Ch> const &msg, std::size_t at) const
  {
    if (at >= text.size())
    {
      VRT_CHECK(msg == widen<Ch>("EOF"), fam + t + ":eof_message", "at end of %s: error text '%s', documented 'EOF'", show_text(text).c_str(),
                narrow_msg(msg).c_str());
      return;
    }
    loc const m = model_loc(text, at + 1);
    std::basic_string<Ch> const prefix =
        widen<Ch>("Line " + std::to_string(m.line) + ":" + std::to_string(m.column) + ": Expected ");
    std::basic_string<Ch> const suffix = widen<Ch>(", got ") + text[at];
    bool const pre = msg.size() >= prefix.size() && msg.compare(0, prefix.size(), prefix) == 0;
    VRT_CHECK(pre, fam + t + ":location", "%s at offset %zu of %s: error text '%s' does not start with '%s' (location right after the offending character)",
              what().c_str(), at, show_text(text).c_str(), narrow_msg(msg).c_str(), narrow_msg(prefix).c_str());
    bool const suf = msg.size() >= prefix.size() + suffix.size() && msg.compare(msg.size() - suffix.size(), suffix.size(), suffix) == 0;
    VRT_CHECK(suf, fam + t + ":got", "%s at offset %zu of %s: error text '%s' does not end with '%s'", what().c_str(), at, show_text(text).c_str(),
              narrow_msg(msg).c_str(), narrow_msg(suffix).c_str());
    if (pre && suf)
    {
      std::basic_string<Ch> const mid = msg.substr(prefix.size(), msg.size() - prefix.size() - suffix.size());
      if (lit >= 0)
        VRT_CHECK(mid == std::basic_string<Ch>(1, letter<Ch>(0, lit)), fam + t + ":expected", "%s: error text '%s' names '%s' as expected", what().c_str(),
                  narrow_msg(msg).c_str(), narrow_msg(mid).c_str());
      else
        for (int d = 0; d < 4; ++d)
          if ((mask >> d) & 1U)
            VRT_CHECK(mid.find(letter<Ch>(0, d)) != std::basic_string<Ch>::npos, fam + t + ":expected", "%s: error text '%s' does not name '%s'",
                      what().c_str(), narrow_msg(msg).c_str(), show_char(letter<Ch>(0, d)).c_str());
    }
  }

  void check_position_after(std::string const &fam, string_world<Ch> &w, std::size_t consumed) const
  {
    position<Ch> const p = fcppt::parse::get_position(w.ref());
    std::string const d = position_diff(p, text, consumed);
    VRT_CHECK(d.empty(), fam + t + ":position_after", "%s at offset %zu of %s: afterwards %s", what().c_str(), j, show_text(text).c_str(), d.c_str());
  }
};

template <class Ch> typename fcppt::parse::basic_char_set_container<Ch> make_set(unsigned mask)
{
  typename fcppt::parse::basic_char_set_container<Ch> s;
  for (int d = 0; d < 4; ++d)
    if ((mask >> d) & 1U)
      s.insert(letter<Ch>(0, d));
  return s;
}

template <class Ch> void advance(string_world<Ch> &w, std::basic_string<Ch> const &text, std::size_t j)
{
  for (std::size_t i = 0; i < j; ++i)
  {
    fcppt::optional::object<Ch> const c = fcppt::parse::get_char(w.ref());
    VRT_CHECK(c.has_value() && c.get_unsafe() == text[i], std::string("get_char<") + cname<Ch>::v + ">:wrong_char", "while advancing to offset %zu", j);
  }
}

// parsers: Result is fcppt::unit (literal) or Ch (char_set)
template <class Ch, class Parser> void run_parser(ctx<Ch> const &c, Parser const &parser, bool via_parse)
{
  std::string const fam = std::string(c.lit >= 0 ? "literal" : "char_set") + (via_parse ? ":parse" : ":direct");
  string_world<Ch> w(c.text);
  advance(w, c.text, c.j);
  using result = fcppt::parse::result<Ch, typename Parser::result_type>;
  result const r = via_parse ? fcppt::parse::parse(parser, w.rs.st) : parser.parse(w.ref(), fcppt::parse::skipper::epsilon());
  std::size_t const n = c.text.size();
  bool const expect_success = c.j < n && c.matches(c.text[c.j]);
  VRT_CHECK(r.has_success() == expect_success, fam + c.t + ":verdict", "%s at offset %zu of %s: %s, expected %s", c.what().c_str(), c.j,
            show_text(c.text).c_str(), r.has_success() ? "success" : "failure", expect_success ? "success" : "failure");
  if (r.has_success())
  {
    if constexpr (std::is_same_v<typename Parser::result_type, Ch>)
      VRT_CHECK(c.j < n && r.get_success_unsafe() == c.text[c.j], fam + c.t + ":value", "%s returned '%s'", c.what().c_str(),
                show_char(r.get_success_unsafe()).c_str());
  }
  else
  {
    VRT_CHECK(!r.get_failure_unsafe().is_fatal(), fam + c.t + ":fatal", "%s: a plain mismatch is reported as fatal", c.what().c_str());
    c.check_message(fam, r.get_failure_unsafe().get(), c.j);
  }
  c.check_position_after(fam, w, c.j < n ? c.j + 1 : n);
}

template <class Ch, class Skipper> void run_skipper(ctx<Ch> const &c, Skipper const &skipper, bool via_phrase)
{
  std::string const fam = std::string(c.lit >= 0 ? "skipper::literal" : "skipper::char_set") + (via_phrase ? ":phrase_parse" : ":run");
  string_world<Ch> w(c.text);
  advance(w, c.text, c.j);
  std::size_t const n = c.text.size();
  bool const skip_ok = c.j < n && c.matches(c.text[c.j]);
  if (!via_phrase)
  {
    fcppt::parse::skipper::result<Ch> const r = fcppt::parse::skipper::run(skipper, w.ref());
    VRT_CHECK(r.has_success() == skip_ok, fam + c.t + ":verdict", "%s at offset %zu of %s: %s", c.what().c_str(), c.j, show_text(c.text).c_str(),
              r.has_success() ? "success" : "failure");
    if (r.has_failure())
      c.check_message(fam, r.get_failure_unsafe().get(), c.j);
    c.check_position_after(fam, w, c.j < n ? c.j + 1 : n);
    return;
  }
  // phrase_parse: the skipper runs first, then char_ reads the following character
  fcppt::parse::result<Ch, Ch> const r = fcppt::parse::phrase_parse(fcppt::parse::basic_char<Ch>{}, w.rs.st, skipper);
  bool const expect_success = skip_ok && c.j + 1 < n;
  VRT_CHECK(r.has_success() == expect_success, fam + c.t + ":verdict", "char_ with %s as skipper at offset %zu of %s: %s", c.what().c_str(), c.j,
            show_text(c.text).c_str(), r.has_success() ? "success" : "failure");
  if (r.has_success())
    VRT_CHECK(expect_success && r.get_success_unsafe() == c.text[c.j + 1], fam + c.t + ":value", "char_ returned '%s'",
              show_char(r.get_success_unsafe()).c_str());
  else if (!skip_ok)
    c.check_message(fam, r.get_failure_unsafe().get(), c.j);
  else
    c.check_message(fam, r.get_failure_unsafe().get(), n); // the skipper matched, char_ hit the end: "EOF"
  std::size_t const consumed = c.j >= n ? n : !skip_ok ? c.j + 1 : c.j + 1 < n ? c.j + 2 : n;
  c.check_position_after(fam, w, consumed);
}

template <class Ch> void one(std::basic_string<Ch> const &text, std::size_t j, int lit, unsigned mask, int kind)
{
  ctx<Ch> c{text, j, lit, mask};
  char const *kinds[] = {"direct", "parse", "skipper::run", "phrase_parse(char_,skipper)"};
  std::string const fn = std::string("errtext<") + cname<Ch>::v + ">";
  if (!vrt::begin_text(fn.c_str(), c.what() + " via " + kinds[kind] + " at offset " + std::to_string(j) + " of " + show_text(text)))
    return;
  bool const mismatch = j < text.size() && !c.matches(text[j]);
  vrt::nontrivial(mismatch); // an "Expected ..., got ..." text is produced
  vrt::maybe_sample();
  try
  {
    using T = types<Ch>;
    if (lit >= 0)
    {
      Ch const ch = letter<Ch>(0, lit);
      if (kind < 2)
        run_parser<Ch>(c, typename T::literal{ch}, kind == 1);
      else
        run_skipper<Ch>(c, typename T::sk_literal{ch}, kind == 3);
    }
    else
    {
      if (kind < 2)
        run_parser<Ch>(c, typename T::char_set{make_set<Ch>(mask)}, kind == 1);
      else
        run_skipper<Ch>(c, typename T::sk_char_set{make_set<Ch>(mask)}, kind == 3);
    }
  }
  catch (fcppt::parse::detail::exception<Ch> const &e)
  {
    vrt::fail(fn + ":exception", "'" + narrow_msg(e.what()) + "' on a healthy string stream");
  }
}

template <class Ch> void errtext_part(int maxlen, unsigned part, unsigned nparts)
{
  int const ntexts = texts_upto(maxlen);
  for (int no = 0; no < ntexts; ++no)
  {
    if (static_cast<unsigned>(no) % nparts != part)
      continue;
    if (vrt::out_of_time())
      return;
    std::basic_string<Ch> const text = text_by_number<Ch>(0, no);
    for (std::size_t j = 0; j <= text.size(); ++j)
      for (int kind = 0; kind < 4; ++kind)
      {
        for (int lit = 0; lit < 4; ++lit)
          one<Ch>(text, j, lit, 0, kind);
        for (unsigned mask = 1; mask < 16; ++mask)
          one<Ch>(text, j, -1, mask, kind);
      }
  }
}
}

void c12::register_errtext()
{
  constexpr unsigned nparts = 4;
  for (unsigned part = 0; part < nparts; ++part)
  {
    vrt::shard("errtext<char>/" + std::to_string(part), [part] { errtext_part<char>(vrt::thorough() ? 6 : 4, part, nparts); });
    vrt::shard("errtext<wchar_t>/" + std::to_string(part), [part] { errtext_part<wchar_t>(vrt::thorough() ? 6 : 4, part, nparts); });
  }
}
